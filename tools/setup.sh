#!/bin/bash
# Builds the verification harness offline from files on disk.
set -e
cd "$(dirname "$0")/../harness"
export CARGO_NET_OFFLINE=true
cargo build --offline --profile verif --target-dir target --workspace
if [[ "${VERIF_SETUP_FEATURES:-1}" == "1" ]]; then
  cargo build --offline --profile verif --target-dir target-feat -p vmc --features vectors,zstd
fi
