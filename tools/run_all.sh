#!/bin/bash
# tools/run_all.sh <quick|thorough> [IDs...] : runs checks sequentially, prints one summary line each
tier=${1:-quick}; shift
ids=("$@"); [ ${#ids[@]} -eq 0 ] && ids=($(jq -r '.checks[].property_id' MANIFEST.json))
for id in "${ids[@]}"; do
  s=$(date +%s); out=$(./check $id $tier 2>&1); rc=$?; e=$(date +%s)
  echo "$id rc=$rc $((e-s))s :: $(echo "$out" | grep -E "done:|MACHINERY" | tail -1 | cut -c1-160)"
  [ $rc -ne 0 ] && echo "$out" | grep -E "VIOLATION|what:" | head -4 | cut -c1-300
done
