#!/usr/bin/env python3
"""Generates /verif/MANIFEST.json from the table below and validates it against the schema."""
import json, sys, os
ROOT = os.path.dirname(os.path.dirname(os.path.abspath(__file__)))

# id -> (category, technique, level text, level note, design ref)
CHECKS = {
  "C01": ("model_checking",
          "explicit-state BFS over histories x exhaustive crash-cut and durable-image enumeration (libc-interposed syscall log, durability model M), real recovery on every image",
          "Every transition of a BFS over writer histories on a real FsStorage index is executed under libc interposition; every syscall boundary of the operation is a crash point, and for each the full set of durable directory images admitted by the durability model (unsynced writes dropped/kept/torn, unsynced directory entries lost in order) is enumerated, written back into the index directory and recovered by the real Index::open + reader + match_all; the recovered contents must equal the last acknowledged commit or the in-flight commit's complete result. Counts of states, transitions, cuts, images and real recoveries are in the evidence.",
          "Trusted: durability model M1-M4 (DESIGN §2.4) as the crash environment; the projection argument (recovery reads only MANIFEST.json, the files it names and wal.log), which is re-validated at run time by re-executing a sample of recoveries on full images.",
          "DESIGN.md §3-C01"),
  "C02": ("model_checking",
          "nested exhaustive crash-image enumeration (up to 2-3 crashes in a row) over histories and post-recovery scripts on the real code, WAL-queue oracle",
          "As C01, but the recovery step is itself a history that crashes: every recovered durable image (deduplicated on image bytes, model state and remaining depth) is continued with every maximal post-recovery script over {new, add, delete, drop(sync), commit, rollback} whose every syscall boundary is again a crash point with every admissible image, 2 crashes deep (quick) / 3 (thorough). Oracle per crash: reopen succeeds; contents are the pre- or in-flight post-state; Wal::last_pending_ops is an in-order prefix of what was queued and contains every operation followed by a successful sync; new writer + commit equals the crash-free model; rolled-back operations never return.",
          "Trusted: durability model M1-M4; queue/sync bookkeeping of the harness model (vfs::c02::MState).",
          "DESIGN.md §3-C02"),
  "C03": ("fault_enumeration",
          "exhaustive single- and double-fault enumeration at every storage call of every operation in every BFS-reachable state, against the real writer/compaction code",
          "Every state of a BFS over writer histories x every enabled operation x every storage fault site (each Storage trait call and each read/write/flush/seek/set_len/sync_all of the files it hands out, on InMemoryStorage and FsStorage) x {fail before, fail after the effect}; plus every ordered pair whose second fault falls inside the error path of the first. Oracle: Err => a new reader and a reopen both show the pre-state and a retry on healthy storage reaches the post-state; Ok => both show the post-state; never a panic; after double faults the index is still openable with every referenced file present.",
          "Trusted: fault model (a failing call fails atomically before or after its effect); contents model. Double faults are judged only by the property's second sentence (openable, no missing files) plus Ok => applied.",
          "DESIGN.md §3-C03"),
  "C04": ("model_checking",
          "explicit-state BFS over operation histories on the real code, canonical-state dedup, reference-model conformance at every step",
          "Breadth-first search over every history of {new,drop,add,delete,commit,rollback} x 1-3 writer handles + compact + reopen up to the stated depth; every transition re-executes the real IndexWriter/Index code on a fresh index (filesystem and in-memory storage, positions on/off) and compares a fresh reader's match_all+stored output with the per-handle-queue reference model. Shortest counterexample first; state counts per configuration in the evidence.",
          "Trusted: the contents reference model (vcore::world::Model), the stored-projection function, bounds (2 ids x 2 versions, <=3-4 segments, queue <=2-3).",
          "DESIGN.md §3-C04"),
}

CHECKS["C05"] = ("model_checking",
  "stateless DFS over all thread schedules (iterative preemption bounding) of the real writer/compaction code under a baton scheduler at guarded hook points",
  "All multisets of 2 (quick) / 2-4 (thorough) thread programs - each thread owns a writer handle and runs new/add/delete/commit/rollback, plus a compaction thread - over three base states are executed on the real Index/IndexWriter code with every schedule up to the stated preemption bound (0,1,2,...). Oracle per schedule: no call fails, no deadlock, final contents (same Index and after reopen) equal the per-handle-queue model replayed in the order the calls passed the writer-lock probe, else in some serial order found by brute force.",
  "Trusted: sequential consistency at the hook points; the contents model. Lock probes declare no ownership, so removing a real lock() keeps the scheduling points and exposes the race.",
  "DESIGN.md §3-C05")
CHECKS["C06"] = ("model_checking",
  "stateless DFS over all schedules of reader-open/search steps against commit and compaction publish/cleanup steps on the real code",
  "Reader threads (open, search, search) run against committing writers and a compaction thread under the same baton scheduler; every ordering of the reader's manifest copy / per-segment opens with the commit and compaction stages (segment written, manifest stored, published, old files cleaned) up to the preemption bound is executed. Oracle: Index::reader() and every search return Ok; every result equals exactly one committed state of the explaining serial order; two searches on one reader agree.",
  "Trusted: sequential consistency at hook points; results are compared with any committed state of the run (not narrowed to the open interval).",
  "DESIGN.md §3-C06")

CHECKS["C28"] = ("model_checking",
  "explicit-state enumeration of index states x fates of the original x operation sequences on the copy, with libc interposition observing every access under the original path",
  "Every canonical index state with at least one segment reached by a BFS over writer histories (several segments, tombstones, non-empty WAL) is copied to a new path; the original is kept, modified or removed; every sequence of up to 2 (quick) / 3 (thorough) operations from {add+commit, delete+commit, compact, reopen, uncommitted add} runs on the copy between searches while the executable's interposed libc entry points record any path access under the original root. Oracle: the copy opens and its searches equal the model; zero accesses (reads included) under the original path; original bytes unchanged / not recreated.",
  "Trusted: accesses are observed at the libc boundary of the checking process (open*, stat*, statx, access, unlink*, rename*, mkdir, rmdir, opendir, readlink); contents model.",
  "DESIGN.md §3-C28")

CHECKS["C27"] = ("model_checking",
  "deviation-bounded exhaustive exploration of event orders of the real wasm.rs persistence code over an explicit event-loop + IndexedDB environment model, page close after every committed transaction",
  "The unmodified searchlite-wasm/src/wasm.rs is compiled natively against shim crates (wasm-bindgen, js-sys, web-sys, wasm-bindgen-futures, serde-wasm-bindgen stand-ins) that implement an explicit browser event loop and IndexedDB. For each driver script (init, add, commit awaited / not awaited, flush, reload) every order of driver statements and enabled IndexedDB events within the deviation bound is executed, and after every committed read-write transaction of every order the page is closed (uncommitted transactions aborted), init is re-run on the durable store and match_all is compared with the commits that had started and those whose promise had resolved.",
  "Trusted: the environment model's reading of the HTML event-loop and IndexedDB transaction-ordering rules (listed in the evidence); shim fidelity for the ~30 API functions used. wasm32 code generation and real browsers are not exercised.",
  "DESIGN.md §3-C27")

CHECKS["C23"] = ("model_checking",
  "explicit-state BFS over HTTP request sequences against a live in-process server, model-state dedup, queue reference model",
  "Level-synchronous BFS over all sequences (depth <=4 quick / <=6 thorough) of 14 requests (/add, /bulk, /delete valid / invalid / mixed, /commit, /refresh, /compact, /search) sent as raw HTTP/1.1 to a real searchlite_http::run server on a fresh directory; every transition replays the sequence on a fresh server and probes search;commit;search. Oracle: a 2xx write appends its operations to the queue model, a non-2xx write leaves the queue untouched, /commit applies the queue in order, every search equals the committed model.",
  "Trusted: queue reference model; one request at a time (no concurrent clients); unknown document fields left out (C15's concern).",
  "DESIGN.md §3-C23")
CHECKS["C24"] = ("exploration",
  "exhaustive enumeration of method x path (all single-character route edits) x content type x body (all single-edit neighbours of valid bodies, oversize, non-UTF-8, error-provoking searches) against a live server in three states",
  "Every request of the stated product is sent over a raw TCP connection to a live server (no index / index / index + queued doc, --max-body-bytes 2048) and followed by GET /healthz. Oracle: a complete response arrives; 2xx bodies are JSON of the documented shape; every non-2xx carries {error:{type,reason}}; 404 without index, 409 on re-init, 413 oversized, 4xx for invalid input; the server stays alive.",
  "Trusted: documented status/envelope contract (README, openapi.yaml). Left out: malformed HTTP framing, bodies with trailing bytes after a complete JSON value (docs silent), huge limit values.",
  "DESIGN.md §3-C24")


def _inp(pid, tech, text, note):
  CHECKS[pid] = ("exploration", tech, text, note, f"DESIGN.md §3-{pid}")

_inp("C07", "exhaustive enumeration of small worlds (schemas x corpora x segment layouts x deletion) x all query trees within a leaf/depth bound, against an independent boolean evaluator over the real analyzer's tokens",
  "Six analyzer schemas x every corpus of <=3 (quick) / <=4 (thorough) document shapes x every segment layout x {no deletion, one deletion} x every leaf (term, query_string forms, phrase slop 0-2, prefix, wildcard, regex, multi_match variants, match_all, constant_score, rank_feature) alone, under unary wrappers and in every bool / dis_max / function_score / script_score tree within the bound, plus fuzzy options; hit-id sets (bm25, covering limit) must equal the evaluator; every token the index analyzer emits for a document must find it via term().",
  "Trusted: the evaluator's reading of README/docs; inputs the docs leave open are skipped and counted (undetermined), e.g. function_score.min_score composition, phrases across values of a multi-valued field, anchored vs unanchored regex.")
_inp("C08", "exhaustive enumeration of nested-document worlds x all And/Or/Not/Nested filter trees within a bound, against an evaluator over the source JSON",
  "Documents with up to 2 comment objects x 2 reply objects x 1 deep object (empty arrays, null, single object vs array, multi-valued values) in 1-2 document worlds over all layouts x every filter tree of <=3 (quick) / <=4 (thorough) leaves and depth <=4 (KeywordEq/In with case variants, inclusive I64/F64 ranges incl. wrong numeric type, dotted paths, Nested in Nested, sibling Nested under And); observed through match_all + filter.",
  "Trusted: evaluator semantics pinned to README; where README allows two readings (shared prefix of sibling nested chains, null array elements) a case is judged only when both agree.")
_inp("C09", "exhaustive differential enumeration: worlds x scored query trees x limits x block sizes, wand and bmw against exhaustive bm25",
  "All sequences of <=3 (quick) / <=5 (thorough) document shapes (tf 1-3, lengths 1-6, rank field) x every 1-2 segment layout x 55 scored trees (boosts, dis_max ties, bool mixes, function_score modes, script_score, rank_feature, constant_score) x limit 1..4 x bmw block sizes {1,2,3,128,300}: same hits, order and scores (1e-5, near-tie classes) as bm25.",
  "Trusted: bm25 execution as the reference (its scores are checked independently by C10).")
_inp("C10", "exhaustive enumeration of worlds x sort plans x scored trees against an independent BM25 + score-tree + sort-key oracle",
  "Scores of every returned hit are recomputed from the segment's statistics with the BM25 formula of query/bm25.rs combined through the query tree; order is checked lexicographically for every sort plan of 1-3 keys over {_score, keyword, i64, f64} x {asc, desc, default} (768 plans quick, 1884 thorough) incl. multi-valued min/max, missing-last and the (segment, ordinal) tie-break.",
  "Trusted: BM25 constants recorded from the pinned tree; only returned hits are judged; combinations the README does not define (node-level boosts on compound nodes, max_boost readings) are left out.")
_inp("C18", "exhaustive enumeration of grouped worlds x main/inner sort plans x from/size/limit, differential against the uncollapsed ranking",
  "Every assignment of <=3 group values (sizes 1-4, or none) to n<=5 (quick) / n<=6 (thorough) tie-prone documents over 1-2 segments x 492 collapse requests; with limit >= n the whole response (representatives, group order, windowed inner hits, total_groups) must equal the recomputation from the same request without collapse; with limit < n the invariants of the statement.",
  "Trusted: uncollapsed search as reference (C10/C11); documents without the collapse field are not constrained.")
_inp("C19", "exhaustive enumeration of worlds x (query, rescore query) x window x mode x limit against a recomputation from the un-rescored response",
  "1,672 (quick) / 188,744 (thorough) worlds x 4 queries x 5 rescore queries x window 0..limit+5 x 5 score modes x 3 limits: hits behind the window keep score and relative order; window survivors carry the documented combination and are sorted by it; min_score rejects are dropped.",
  "Trusted: un-rescored response and a separate bm25 search for the rescore scores; windows larger than the candidate pool are not judged.")
_inp("C20", "exhaustive differential enumeration of worlds x requests x {explain, profile} flags",
  "972 (quick) / 324,720 (thorough) worlds x 35 requests (executions, sort plans, filter, custom scoring, aggs, collapse, rescore, cursors) x 3 flag combinations: hits, order, scores, totals, cursors and aggregations equal the flags-off response; every explanation.final_score equals its hit's score.",
  "Trusted: flags-off response as reference.")
_inp("C21", "exhaustive enumeration of multi-byte texts x queries x fragment sizes x fragment counts x tags against a fragment well-formedness checker",
  "All texts of <=3 (quick) / <=4 (thorough) words over {rust, a, café, naïve, 日本, 検索, 😀, e🙂f} with two separators, plus long padded texts reaching the legacy 120-byte snippet window at every byte phase; every word and adjacent phrase as query; fragment_size from twice the match length to text length + 2; number_of_fragments 0..3; two tag pairs; highlight and legacy highlight_field.",
  "Trusted: checker (non-empty, tagged match, tag-stripped substring of the stored text, char length <= fragment_size, count <= number_of_fragments); fragment_size below twice the byte length of the match is outside the property's precondition.")
_inp("C22", "exhaustive enumeration of corpora x all segment layouts x prefixes x fuzzy options against a recomputation from analyzer tokens",
  "Every multiset of <=3 (quick) / <=4 (thorough) documents over 20 token shapes x every ordered partition into commits x 264 completion requests (8 prefixes, size 1..3, 11 fuzzy settings), plus many-segment corpora that cross the scan caps: options are indexed terms matching the prefix / edit distance rule, doc_freq exact, ordered by score then text, deterministic, identical across layouts.",
  "Trusted: recomputation; score values themselves are only observed (README does not pin them); deletions excluded as the property states.")

_inp("C12", "exhaustive enumeration of corpora x ALL segment layouts x aggregation trees, against an independent aggregator and a cross-layout equality oracle",
  "Every sequence of <=3-4 (quick) / <=5 (thorough) document shapes (keyword single/multi/missing, i64, f64, timestamp) x every composition into segments (+ deletion variants) x 3 queries x 110 (quick) / 138 (thorough) aggregation trees (every exact kind with 2-3 values per option, nested to depth 3): the response must equal an independent aggregator over the matched JSON documents and must equal the single-segment layout's response.",
  "Trusted: the aggregator's reading of README (ES-style orderings, floor-based numeric histogram keys, population variance); fixed-interval date_histogram follows the pinned test's ceil semantics; options the docs leave open are not compared (listed in evidence).")
_inp("C13", "exhaustive differential enumeration of worlds x queries x paging/sort/execution/flag variants",
  "Worlds with >=4 matches x 6 queries x a request carrying 7 aggregation trees and 2 suggesters x 45 variants (3 executions x 3 sort plans x {limit n, cursor walks with page size 1,2,3}, return_hits off, explain / profile / rescore): aggregations and suggest must be identical to the reference variant.",
  "Trusted: reference variant (first page, limit n, bm25), itself checked by C12/C22.")
_inp("C30", "exhaustive enumeration of worlds x composite source lists x page sizes, paged walk against one unpaged request",
  "C12 worlds x 3 queries x 8 source lists (terms, f64 / i64 histograms with interval 1 and 2, pairs) x page size 1..5: concatenating the pages obtained by feeding after_key back equals the buckets of one size-10000 request (keys, order, counts, sub-aggregations); after_key absent exactly on the last page; the walk terminates.",
  "Trusted: the unpaged response as reference (checked by C12); a start-up canary verifies the comparison rejects a corrupted bucket list.")

_inp("C15", "exhaustive enumeration of valid documents and all single / double mutations per schema, against an independent schema-validity predicate and the add => commit obligation",
  "Two schemas (flat; nested two levels with required and nullable properties) x 3 base documents x every single and double application of the mutation operators (id variants, unknown fields/properties, 11 wrong-typed replacement values per location, array wrapping, property drops, array element appends; thorough adds a 33 MiB stored value): add_document Ok => commit Ok and a fresh writer can still commit afterwards; schema-invalid => add_document Err.",
  "Trusted: validity predicate; inputs the docs leave open are not judged (integers in f64 fields, empty arrays, dotted top-level names).")
_inp("C16", "exhaustive enumeration of per-field nasty values and all single-edit neighbours of serialized base requests against three small indexes, each search isolated in a watchdog-guarded worker process",
  "10 base requests covering every top-level feature x every value location x typed nasty alphabets (214 strings incl. multi-byte cursors aligned and misaligned to the 2-byte hex chunks, regex / wildcard / script extremes, 16-30 numbers, array / key edits) + 141 hand-written extras + ~350 cursor variants per index + every single-character edit of the serialized requests that still deserializes, on 3 indexes: each search must return Ok or Err within a CPU-time watchdog without panic, abort or unbounded memory.",
  "Trusted: worker isolation (CPU-time watchdog 2 s / 10 s, resident-set guard); requests whose only effect is a huge `limit`-driven allocation are outside the alphabet.")
CHECKS["C17"] = ("fault_enumeration", "exhaustive single-byte corruption (xor masks) and truncation of every byte of every index file, each mutant opened and searched on a fresh in-memory storage",
  "Worlds on InMemoryStorage (1 segment + pending WAL; 2 segments + tombstone; thorough adds nested / multi-valued and 3-segment worlds) x every file x every byte offset x masks {01,80,FF} (thorough: all single-bit masks + FF) x every truncation length: open / reader / three probe searches must return Err or results identical to the baseline, never panic; for wal.log the recovered queue must be an intact prefix and commit must equal the real code's result on that prefix.",
  "Trusted: single-file corruption model; fields no probe can observe (uuid, committed_at) are accepted when probe results are identical.", "DESIGN.md §3-C17")
_inp("C25", "exhaustive enumeration of corpora x history shapes x requests driven through the CLI binary, the HTTP service, the C FFI and the library",
  "6 (quick) / 26 (thorough) corpora x up to 13-20 history shapes (add, upsert, delete, split commits, compact, uncommitted tails) x 20-36 requests (query strings, structured queries, sorts, cursor walks, aggregations inline / from file, executions, filter, highlight, erroring requests) through searchlite-cli (built from /repo at run time), an in-process searchlite_http::run server (raw HTTP/1.1), searchlite_ffi and a library mirror with each front end's options: stored contents and search responses must agree (1e-5, tie classes, opaque cursors, profile timings dropped), error <=> error; documented CLI invocations must work.",
  "Trusted: library mirror as reference; undocumented CLI flags and FFI histories with deletes are left out.")
_inp("C26", "exhaustive enumeration of every buffer capacity 0..len+16 x argument combinations, output buffer between canaries and PROT_NONE guard pages, each family in a forked child",
  "21 (quick) / 106 (thorough) combinations of query bytes, limit, cursor, aggregations, aggs_len (every proper prefix length) and null flags x every buf_cap from 0 to the full response length + 16, in 1-3 worlds: canaries intact, no fault, ret = min(len, buf_cap-1), bytes [0,ret) are a prefix of the large-buffer response, byte ret is NUL, null / invalid arguments yield 0; a fault in the child is reported with the exact arguments.",
  "Trusted: guard-page / canary harness; contract as written in searchlite-ffi's Safety comments and header.")

_inp("C14", "exhaustive differential enumeration: worlds (document shapes x upserts x layouts with >= 2 segments x deletions) observed through a query/filter battery before and after the real compaction",
  "Every sequence of 2-3 (quick) / 2-4 (thorough) document shapes (text single / multi / empty, null nullable text, keyword case variants, multi-valued numbers, nested array / single object / null / empty array with null and unstored properties) x {distinct ids, cross-commit upsert} x every layout with at least two segments x {no deletion, one deletion}: match_all+stored and 60 query / filter observations must be identical before and after Index::compact; the manifest must hold exactly one segment without tombstones whose doc_count equals the live count; with an indexed field that is not stored compaction must refuse and leave manifest and observations unchanged.",
  "Trusted: nothing beyond the search path itself (pure before/after comparison); scores are not compared because segment statistics legitimately change.")
_inp("C29", "exhaustive enumeration of small vector worlds x vector-only / hybrid / multi-clause requests against a brute-force similarity oracle (vectors feature build)",
  "Vector field of dimension 1-3 (quick: 2) x {Cosine, L2} x every sequence of <= 3 (thorough: multisets of 4) document shapes incl. zero vector and missing vector x every segment layout x optional deletion; vector-only requests over (k, limit) x {plain, filter, vector_filter, boost}, hybrid requests (object and legacy tuple) with alpha 0 / 0.5 / 1, two-clause should, wrong-dimension query and document: hits only live documents with a vector passing the filters, vector_score = exact similarity x boost, score = alpha*bm25 + (1-alpha)*vector_score, first min(k, limit) hits = exact nearest neighbours.",
  "Trusted: brute-force oracle; every segment holds < 16 vectors so HNSW must be exact; multi-clause blend and hybrid hits without a vector are not judged (docs silent).")

_inp("C11", "exhaustive enumeration of tie-heavy worlds x segment layouts x sort plans x page sizes x executions, paged walks against one covering request, then cursor misuse",
  "Every multiset of 4 (quick) / 3-6 (thorough) tie-prone document shapes x every segment layout, plus 22/24-document tie worlds over 1-4 segments x 3 queries x 8 sort plans x {bm25, wand, bmw} x page size 1..7: concatenated pages equal the single covering response (ids, order, scores), no duplicates, last page without next_cursor, total_hits_estimate <= true matches (== for bm25); every cursor is rejected under every other sort plan, after a commit that adds a segment and after compaction.",
  "Trusted: the covering request as reference (ordering itself is C10's concern); cursors re-used after a delete-only commit are not required to be rejected.")

# Families added after the seeded-change waves (DESIGN.md §10); appended to the level text.
EXTRA = {
  "C26": " Also call sequences on one handle: every ordered pair (thorough: triple) of 16 calls incl. NULL / zero-capacity buffers, every call judged against a fresh handle's response.",
  "C04": " With >= 2 handles also two roots with a second live handle whose view is stale, explored to depth 3.",
  "C09": " Also a multi-block family: every placement pattern of 5-6 padded documents over shapes that give the query terms posting lists of different lengths and block boundaries x bmw_block_size 1-5.",
  "C11": " Also cursors carried over a delete-only commit (first / last / second segment emptied, first document deleted) under sort plans without _score: rejected, or continued with exactly the surviving documents.",
  "C19": " Also a long-postings family: 130-300 documents per segment, windows ending at 127-130 and 255-258.",
  "C27": " Quick also runs scripts with a write-less commit / flush behind an un-awaited commit.",
  "C28": " Fourth fate of the original: kept open in the same process (live Index, reader, writer) while the copy is used.",
  "C29": " Every vector-only request also with ef_search 1 and 2.",
  "C03": " Second level (same command): the same BFS on a real filesystem index with every state-changing system call of every operation (open for writing, write, pwrite, ftruncate, fsync, rename, unlink, ... interposed at the libc boundary) failing with EIO before the call or after its effect; same single-fault oracle. Its counts are under coverage.libc_level.",
  "C07": " Also: bool trees with nested bool under must / should crossed with minimum_should_match. Also schemas whose search analyzer emits several tokens per position (search-only synonyms, edge_ngram) with a phrase slice over them.",
  "C08": " Also: sparse nested objects (a later object omits a nullable property an earlier one has) next to dense documents in the same segment.",
  "C10": " Also a large-tie sweep: 24-64 documents in 1-3 tie classes x 17 sort plans x 8 query / execution combinations; every page must be a prefix of the covering response.",
  "C12": " Also a gap family: every ordered pair of k-subsets of a value grid in two segments x 13 histogram / date_histogram trees.",
  "C13": " Also custom-scoring queries that drop documents (function_score min_score, script_score returning no value) and a request kind without top_hits.",
  "C14": " Also a flag matrix: one field (top-level or nested) unstored under every indexed / fast combination; compaction may succeed with nothing observable changed or refuse with nothing changed. Also blank / whitespace-only values in multi-valued text and keyword fields with phrase observations across the position gap.",
  "C15": " Also schema-derived dotted top-level keys (nested paths and field names extended by one or two segments) x 9 JSON value shapes. Thorough: six documents whose stored form exceeds the 32 MiB docstore cap through different places of the document.",
  "C16": " Also a UTF-8 boundary alphabet (per encoded length: minimal / middle / maximal last byte, first and last code point) as indexed tokens and at every term-expansion site. Also a structural aggregation family (every aggregation type x structural position) and a feature-interaction family (17 request features, every combination with at most 3 - thorough 4 - non-default).",
  "C17": " Also damage under a live Index handle (open and read intact, damage any segment file, reader() again on the same handle); every mutant runs in a worker subprocess. Also one probe per dictionary entry, an empty-prefix query and a completion suggest over the whole dictionary.",
  "C18": " Also rescore variants (window 1-3 x 3 score modes) crossed with collapse, judged against the same rescored request without collapse. Also every (request sort, inner_hits sort) pair over all key sequences of length 0..2 (thorough 0..3).",
  "C20": " Also a score-tie sweep: 24-64 documents x 10 sort plans (multi-key, led by _score or by a field) x limit {1,3,5} x the first three pages.",
  "C22": " Also a multi-byte family (2-, 3-, 4-byte characters at start / middle / end of tokens with ASCII edits next to them) with a completeness oracle on character edit distance. Also a tie family (six terms sharing a prefix x every doc_freq assignment) with an exact head-of-covering-answer comparison.",
  "C24": " Also an echoed-input family: 119 request locations the server may quote back x names of 1-4 byte characters at every byte phase x a dense length sweep around every power of two up to the body limit. Also a header-value family: 9 headers x 10 texts (multi-byte UTF-8, lone high bytes, tab, control bytes) on 11 routes as raw bytes, plus non-ASCII query strings.",
  "C25": " Also a body-delivery family: the same /add and /bulk bodies with multi-byte text as Content-Length, as chunked transfer encoding split at every byte offset and with chunk sizes 1-3, and as two socket writes. The long-lived FFI handle is also probed after every individual write call of every history.",
}

NOT_YET = "check not built yet in this session (see DESIGN.md §3 for the planned engine); no verdict is claimed"
NOT_APPLICABLE = {}

def main():
  props = [json.loads(l) for l in open(os.path.join(ROOT, "properties.jsonl"))]
  ids = [p["id"] for p in props]
  checks = []
  for pid in ids:
    if pid not in CHECKS:
      continue
    cat, tech, text, note, ref = CHECKS[pid]
    text = text + EXTRA.get(pid, "")
    checks.append({
      "property_id": pid,
      "quick_cmd": f"./check {pid} quick",
      "thorough_cmd": f"./check {pid} thorough",
      "evidence_file": f"/verif/evidence/{pid}.json",
      "replay_cmd_template": f"./check {pid} quick --replay {{path}}",
      "engine": "wasmmc" if pid == "C27" else ("vmc" if pid not in ("C01", "C02", "C28") else "vfs"),
      "level_claimed": {"category": cat, "text": text, "design_ref": ref},
      "level_note": note,
      "technique": tech,
    })
  na = []
  for pid in ids:
    if pid in CHECKS:
      continue
    na.append({"property_id": pid, "reason": NOT_APPLICABLE.get(pid, NOT_YET)})
  hooks_commits = [l.strip() for l in open(os.path.join(ROOT, "tools", "hook_commits.txt"))] if os.path.exists(os.path.join(ROOT, "tools", "hook_commits.txt")) else []
  m = {
    "version": 1,
    "setup_cmd": "./tools/setup.sh",
    "hooks": {
      "guard": "--cfg searchlite_verif",
      "enable": "RUSTFLAGS=--cfg searchlite_verif via /verif/harness/.cargo/config.toml; the harness depends on /repo/searchlite-* by path so every check rebuilds from /repo's working tree",
      "baseline_off_cmd": "cd /repo && cargo test --workspace --no-fail-fast --offline",
      "source_commits": hooks_commits,
      "add_only": True,
    },
    "engines": [
      {"name": "vmc", "path": "/verif/harness/crates/vmc", "serves_properties": [c["property_id"] for c in checks if c["engine"] == "vmc"],
       "kind_free_text": "Rust: exhaustive enumeration engines (history BFS, schedule DFS, fault enumeration, input-space products) driving the real searchlite crates"},
      {"name": "vfs", "path": "/verif/harness/crates/vfs", "serves_properties": [c["property_id"] for c in checks if c["engine"] == "vfs"],
       "kind_free_text": "Rust: libc-interposing executable (fsshim) for crash-image enumeration and path-isolation checks"},
      {"name": "wasmmc", "path": "/verif/harness/crates/wasmmc", "serves_properties": [c["property_id"] for c in checks if c["engine"] == "wasmmc"],
       "kind_free_text": "Rust: native build of searchlite-wasm/src/wasm.rs over wshim (event-loop + IndexedDB model) with an event-order explorer"},
    ],
    "checks": checks,
    "not_applicable": na,
    "notes": "All checks: ./check <ID> quick|thorough [--replay FILE]. exit 0 held / 1 VIOLATION / 2 machinery failure. Known findings: /verif/known_findings.json.",
  }
  out = os.path.join(ROOT, "MANIFEST.json")
  json.dump(m, open(out, "w"), indent=1)
  try:
    import jsonschema
    jsonschema.validate(m, json.load(open("/root/.vp/MANIFEST.schema.json")))
    print("MANIFEST.json valid;", len(checks), "checks,", len(na), "not_applicable")
  except ImportError:
    print("jsonschema not importable; wrote without validation")

if __name__ == "__main__":
  main()
