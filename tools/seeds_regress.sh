#!/bin/bash
# tools/seeds_regress.sh [lanes] : re-run every seeded change under /verif/seeded against the quick
# check of the property it breaks (tools/seedrun.sh: private worktree, /repo untouched) and print
# one line per seed. A seed that is no longer detected (rc != 1) is listed at the end; exit 1 then.
cd "$(dirname "$0")/.."
LANES=${1:-3}
OUT=$(mktemp -d /tmp/seeds_regress.XXXX)
ls -d seeded/*/ | sed 's#seeded/##; s#/##' > $OUT/all
run_lane() { # $1 = lane number
  local n=0
  while read -r name; do
    n=$((n+1)); [ $(( n % LANES )) -eq $1 ] || continue
    id=${name%%-*}
    patch=/verif/seeded/$name/patch.diff
    [ -f /verif/seeded/$name/patch_rebased.diff ] && patch=/verif/seeded/$name/patch_rebased.diff
    ids=$id; [ $id = C03 ] && ids="C03 C03L"; [ $id = C01 ] && ids="C01 C02"
    res=$(SEED_TARGET_DIR=/verif/harness/target-seed$1 nice -n 5 ./tools/seedrun.sh $patch $ids 2>&1 | grep -E "rc=|PATCH|BUILD" | tr '\n' ' ' | cut -c1-260)
    echo "$name :: $res" | tee -a $OUT/lane$1
  done < $OUT/all
}
for l in $(seq 0 $((LANES-1))); do run_lane $l & done
wait
cat $OUT/lane* | sort > $OUT/summary
echo "=== summary"; cat $OUT/summary
missed=$(grep -v "rc=1" $OUT/summary | wc -l)
echo "seeds=$(wc -l < $OUT/summary) not_detected=$missed"
cp $OUT/summary /verif/seeded/REGRESS.txt
rm -rf $OUT
[ "$missed" -eq 0 ]
