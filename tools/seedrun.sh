#!/bin/bash
# tools/seedrun.sh <patch.diff> <ID>... : run quick checks against a seeded change WITHOUT touching
# /repo: a private worktree of /repo gets the patch, a private copy of the harness is pointed at
# it (path rewrite), built into harness/target-seed (override with SEED_TARGET_DIR; concurrent
# callers serialise on cargo's lock) and run with evidence redirected.
set -e
PATCH=$(realpath "$1"); shift
B=/tmp/seedrun.$$; R=$B/repo; H=$B/verif
git -C /repo worktree remove --force $R 2>/dev/null || true
rm -rf $B; mkdir -p $B/out/evidence
git -C /repo worktree add -q $R HEAD
(cd $R && (git apply "$PATCH" || git apply --3way "$PATCH")) || { echo "PATCH DOES NOT APPLY"; exit 3; }
mkdir -p $H; (cd /verif && tar -c --exclude='harness/target*' --exclude=replays --exclude=.git harness known_findings.json MANIFEST.json) | tar -x -C $H
grep -rl '/repo/' $H/harness --include=*.toml --include=*.rs | xargs sed -i "s#/repo/#$R/#g"
export CARGO_TARGET_DIR=${SEED_TARGET_DIR:-/verif/harness/target-seed} VERIF_DIR=$B/out
cp /verif/known_findings.json $B/out/
cd $H/harness
for id in "$@"; do
  prop=$id
  case $id in C01|C02|C28) pkg=vfs;; C27) pkg=wasmmc;; C03L) pkg=vfs; prop=C03;; *) pkg=vmc;; esac  # C03L = the system-call level of C03
  feat=""; T=${SEED_TARGET_DIR:-/verif/harness/target-seed}
  if [ $id = C29 ]; then feat="--features vectors,zstd"; T=$T-feat; fi
  export CARGO_TARGET_DIR=$T
  # build and take a private copy of the binary under a lock: other callers share the target dir
  ( flock 9; rm -f $CARGO_TARGET_DIR/verif/$pkg $B/$pkg.bin; cargo build --offline --profile verif -p $pkg $feat 2>&1 | grep -E "^error" -A 6 | head -20
    cp $CARGO_TARGET_DIR/verif/$pkg $B/$pkg.bin ) 9>$T.lock
  [ -x $B/$pkg.bin ] || { echo "$id BUILD FAILED (no verdict)"; continue; }
  [ $id = C03L ] && echo '{"tier":"'${SEED_TIER:-quick}'","coverage":{},"assumptions":[],"wall_s":0,"violations":0}' > $B/out/evidence/C03.json
  rc=0; out=$($B/$pkg.bin $prop ${SEED_TIER:-quick} 2>&1) || rc=$?
  echo "$id rc=$rc :: $(echo "$out" | grep -E 'done:|MACHINERY' | tail -1 | cut -c1-150)"
  echo "$out" | grep -E "what:" | head -2 | cut -c1-400
done
git -C /repo worktree remove --force $R; rm -rf $B
