#!/bin/bash
# tools/stage.sh c08 c18 ... : private build of HEAD + the named working-tree vmc files (triage aid
# while other files are mid-edit). Binary: /verif/harness/target-stage/verif/vmc
set -e
S=/tmp/stage-harness
rm -rf $S; mkdir -p $S
git -C /verif archive HEAD harness | tar -x -C $S
for f in "$@"; do cp /verif/harness/crates/vmc/src/$f.rs $S/harness/crates/vmc/src/$f.rs; done
cd $S/harness && CARGO_TARGET_DIR=/verif/harness/target-stage cargo build --offline --profile verif -p vmc 2>&1 | grep -E "^error|Finished" -A 8 | head -30
