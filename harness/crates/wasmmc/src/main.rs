//! C27 — browser persistence survives a reload at any moment.
//! Engine: wasmmc — the real `/repo/searchlite-wasm/src/wasm.rs` compiled natively against the
//! `wshim` crate (stand-ins for wasm-bindgen / js-sys / web-sys / wasm-bindgen-futures /
//! serde-wasm-bindgen over an explicit event-loop + IndexedDB model). The explorer enumerates
//! orders of driver statements and IndexedDB events (deviation-bounded stateless DFS) and closes
//! the page after every committed IndexedDB transaction of every explored order.

extern crate wshim as js_sys;
extern crate wshim as serde_wasm_bindgen;
extern crate wshim as wasm_bindgen;
extern crate wshim as wasm_bindgen_futures;
extern crate wshim as web_sys;

#[allow(dead_code, unused_imports, clippy::all)]
#[path = "/repo/searchlite-wasm/src/wasm.rs"]
mod wasm;

use std::cell::RefCell;
use std::collections::{BTreeSet, HashMap, HashSet};
use std::rc::Rc;

use rayon::prelude::*;
use serde::{Deserialize, Serialize};
use serde_json::{json, Value};

use vcore::ev::{Reporter, Tier};
use wshim::rt::{self, Durable, EventChoice};

use wasm::Searchlite;

const DB: &str = "slverif-db";

fn schema_json() -> String {
  json!({"doc_id_field": "_id", "text_fields": [{"name": "body", "analyzer": "default", "stored": true, "indexed": true}],
    "keyword_fields": [{"name": "tag", "stored": true, "indexed": true, "fast": true}], "numeric_fields": []})
  .to_string()
}

#[derive(Debug, Clone, PartialEq, Eq, Hash, Serialize, Deserialize)]
enum Stmt {
  Init,
  Add(String),
  CommitAwait,
  CommitNoAwait,
  FlushAwait,
  /// close the page at quiescence and start a new page load (followed by Init)
  Reload,
}

#[derive(Debug, Clone, PartialEq, Eq, Hash, Serialize, Deserialize)]
enum Choice {
  Driver,
  Event(usize), // index into rt::enabled_events()
}

struct DriverState {
  sl: Option<Rc<Searchlite>>,
  blocked: Rc<RefCell<bool>>,
  errors: Rc<RefCell<Vec<String>>>,
  /// ids queued so far
  queued: BTreeSet<String>,
  /// contents after each commit whose synchronous part has run (index 0 = empty index)
  started: Vec<BTreeSet<String>>,
  /// number of commit promises that have resolved
  resolved: Rc<RefCell<usize>>,
  init_slot: Rc<RefCell<Option<Result<Searchlite, String>>>>,
}

fn doc_js(id: &str) -> wshim::JsValue {
  wshim::to_value(&json!({"_id": id, "body": format!("hello {id}"), "tag": "t"})).unwrap()
}

/// Execute the next driver statement. Returns false if the script is over.
fn driver_step(d: &mut DriverState, stmt: &Stmt) {
  match stmt {
    Stmt::Init => {
      *d.blocked.borrow_mut() = true;
      let blocked = d.blocked.clone();
      let slot = d.init_slot.clone();
      wshim::spawn_local(async move {
        let r = Searchlite::init(DB.to_string(), schema_json(), None).await;
        *slot.borrow_mut() = Some(r.map_err(|e| format!("{e:?}")));
        *blocked.borrow_mut() = false;
      });
    }
    Stmt::Add(id) => {
      if let Some(sl) = &d.sl {
        match sl.add_document(doc_js(id)) {
          Ok(()) => {
            d.queued.insert(id.clone());
          }
          Err(e) => d.errors.borrow_mut().push(format!("add_document({id}) failed: {e:?}")),
        }
      }
    }
    Stmt::CommitAwait | Stmt::CommitNoAwait => {
      if let Some(sl) = d.sl.clone() {
        let awaiting = matches!(stmt, Stmt::CommitAwait);
        if awaiting {
          *d.blocked.borrow_mut() = true;
        }
        let blocked = d.blocked.clone();
        let resolved = d.resolved.clone();
        let errors = d.errors.clone();
        let my_index = d.started.len(); // this commit's position in `started`
        wshim::spawn_local(async move {
          match sl.commit().await {
            Ok(()) => {
              let mut r = resolved.borrow_mut();
              if *r < my_index {
                *r = my_index;
              }
            }
            Err(e) => errors.borrow_mut().push(format!("commit failed: {e:?}")),
          }
          if awaiting {
            *blocked.borrow_mut() = false;
          }
        });
        // the synchronous part of commit() runs when the microtask queue is drained right after
        d.started.push(d.queued.clone());
      }
    }
    Stmt::FlushAwait => {
      if let Some(sl) = d.sl.clone() {
        *d.blocked.borrow_mut() = true;
        let blocked = d.blocked.clone();
        let errors = d.errors.clone();
        wshim::spawn_local(async move {
          if let Err(e) = sl.flush_storage().await {
            errors.borrow_mut().push(format!("flush_storage failed: {e:?}"));
          }
          *blocked.borrow_mut() = false;
        });
      }
    }
    Stmt::Reload => {}
  }
}

/// Recover from a durable store: init on a fresh page (events FIFO), search match_all.
fn recover(d: Durable) -> Result<BTreeSet<String>, String> {
  rt::new_page(d);
  let slot: Rc<RefCell<Option<Result<Searchlite, String>>>> = Rc::new(RefCell::new(None));
  let s2 = slot.clone();
  wshim::spawn_local(async move {
    let r = Searchlite::init(DB.to_string(), schema_json(), None).await;
    *s2.borrow_mut() = Some(r.map_err(|e| format!("{e:?}")));
  });
  rt::run_microtasks();
  let mut guard = 0;
  while slot.borrow().is_none() {
    let evs = rt::enabled_events();
    if evs.is_empty() {
      let _ = rt::close_page();
      return Err("init never completes after reopening (no event pending)".into());
    }
    rt::deliver(&evs[0]);
    guard += 1;
    if guard > 10_000 {
      let _ = rt::close_page();
      return Err("init does not terminate after reopening".into());
    }
  }
  let r = slot.borrow_mut().take().unwrap();
  let out = match r {
    Err(e) => Err(format!("init failed after reopening: {e}")),
    Ok(sl) => {
      let req = json!({"query": {"type": "match_all"}, "limit": 100, "return_stored": false, "highlight_field": null}).to_string();
      match sl.search_request(req) {
        Err(e) => Err(format!("search failed after reopening: {e:?}")),
        Ok(v) => {
          let j: Value = wshim::from_value(v).map_err(|e| e.to_string())?;
          let ids: BTreeSet<String> = j["hits"].as_array().map(|a| a.iter().filter_map(|h| h["doc_id"].as_str().map(|s| s.to_string())).collect()).unwrap_or_default();
          Ok(ids)
        }
      }
    }
  };
  let _ = rt::close_page();
  out
}

struct PathResult {
  /// at each choice point: number of alternatives
  trace: Vec<(usize, usize)>, // (alternatives, chosen)
  violation: Option<(String, Value)>,
  closes: u64,
  recoveries: u64,
  events: u64,
  outcomes: HashSet<String>,
  sample: Option<Value>,
}

static MEMO: std::sync::Mutex<Option<HashMap<Durable, Result<BTreeSet<String>, String>>>> = std::sync::Mutex::new(None);

fn memo_get(d: &Durable) -> Option<Result<BTreeSet<String>, String>> {
  MEMO.lock().unwrap().get_or_insert_with(HashMap::new).get(d).cloned()
}

fn memo_put(d: Durable, r: Result<BTreeSet<String>, String>) {
  MEMO.lock().unwrap().get_or_insert_with(HashMap::new).insert(d, r);
}

/// Every page load runs on a fresh OS thread: wasm.rs keeps a thread-local connection cache,
/// which in a browser dies with the page.
fn on_fresh_thread<T: Send + 'static>(f: impl FnOnce() -> T + Send + 'static) -> T {
  std::thread::Builder::new().stack_size(4 << 20).spawn(f).expect("spawn").join().expect("page thread panicked")
}

/// Run `script` following `prefix` choices, then the default order (deliver events before the
/// driver moves on). After every committed IndexedDB transaction the page is closed *in a copy*
/// of the durable state and recovery is judged.
fn run_path(script: &[Stmt], prefix: &[usize], check_from: usize) -> PathResult {
  // split the script into page loads at Reload statements; each page load runs on its own thread
  let mut res = PathResult { trace: vec![], violation: None, closes: 0, recoveries: 0, events: 0, outcomes: HashSet::new(), sample: None };
  let pages: Vec<Vec<Stmt>> = script.split(|s| *s == Stmt::Reload).map(|p| p.to_vec()).collect();
  let mut durable = Durable::default();
  let mut started: Vec<BTreeSet<String>> = vec![BTreeSet::new()];
  let mut resolved = 0usize;
  for page in pages {
    let prefix_rest: Vec<usize> = prefix.iter().skip(res.trace.len()).cloned().collect();
    let (d0, st0, rs0) = (durable.clone(), started.clone(), resolved);
    let cf = check_from.saturating_sub(res.trace.len());
    let (r, d1, st1, rs1) = on_fresh_thread(move || run_page(&page, &prefix_rest, cf, d0, st0, rs0));
    res.trace.extend(r.trace);
    res.closes += r.closes;
    res.recoveries += r.recoveries;
    res.events += r.events;
    res.outcomes.extend(r.outcomes);
    if res.sample.is_none() {
      res.sample = r.sample;
    }
    if r.violation.is_some() {
      res.violation = r.violation;
      break;
    }
    durable = d1;
    started = st1;
    resolved = rs1;
  }
  res
}

/// One page load: returns the path result, the durable store at the end (page closed at
/// quiescence), and the commit bookkeeping.
fn run_page(script: &[Stmt], prefix: &[usize], check_from: usize, durable: Durable, started: Vec<BTreeSet<String>>, resolved: usize) -> (PathResult, Durable, Vec<BTreeSet<String>>, usize) {
  let mut res = PathResult { trace: vec![], violation: None, closes: 0, recoveries: 0, events: 0, outcomes: HashSet::new(), sample: None };
  rt::new_page(durable);
  let mut d = DriverState {
    sl: None,
    blocked: Rc::new(RefCell::new(false)),
    errors: Rc::new(RefCell::new(vec![])),
    queued: started.last().cloned().unwrap_or_default(),
    started,
    resolved: Rc::new(RefCell::new(resolved)),
    init_slot: Rc::new(RefCell::new(None)),
  };
  let mut pc = 0usize;
  let mut steps = 0;
  loop {
    steps += 1;
    if steps > 5000 {
      res.violation = Some(("script does not terminate (5000 steps)".into(), json!(null)));
      break;
    }
    // pick up a finished init
    if let Some(r) = d.init_slot.borrow_mut().take() {
      match r {
        Ok(sl) => d.sl = Some(Rc::new(sl)),
        Err(e) => d.errors.borrow_mut().push(format!("init failed: {e}")),
      }
    }
    if !d.errors.borrow().is_empty() {
      res.violation = Some((format!("driver call failed: {:?}", d.errors.borrow()), json!(null)));
      break;
    }
    let evs = rt::enabled_events();
    let driver_ready = !*d.blocked.borrow() && pc < script.len();
    let next_is_reload = false;
    let mut alts: Vec<Choice> = Vec::new();
    // default order: events first (FIFO), the driver moves when nothing is pending
    for i in 0..evs.len() {
      alts.push(Choice::Event(i));
    }
    if driver_ready && (!next_is_reload || evs.is_empty()) {
      alts.push(Choice::Driver);
    }
    if alts.is_empty() {
      if pc < script.len() {
        res.violation = Some((format!("stuck: statement {:?} never completes and no event is pending", script[pc.saturating_sub(1)]), json!(null)));
      }
      break;
    }
    let k = res.trace.len();
    let chosen = if k < prefix.len() { prefix[k].min(alts.len() - 1) } else { 0 };
    res.trace.push((alts.len(), chosen));
    match &alts[chosen] {
      Choice::Driver => {
        let stmt = script[pc].clone();
        pc += 1;
        driver_step(&mut d, &stmt);
        rt::run_microtasks();
      }
      Choice::Event(i) => {
        let ev = evs[*i].clone();
        rt::deliver(&ev);
        res.events += 1;
        if let EventChoice::TxCommit(t) = ev {
          // closes before the first deviation were already checked on the parent path
          if rt::tx_is_rw(t) && res.trace.len() > check_from {
            // page closed right after this committed transaction
            res.closes += 1;
            let dur = rt::durable_snapshot();
            let resolved = *d.resolved.borrow();
            let allowed: Vec<&BTreeSet<String>> = d.started[resolved..].iter().collect();
            let rec = match memo_get(&dur) {
              Some(r) => r,
              None => {
                let d2 = dur.clone();
                let r = on_fresh_thread(move || recover(d2));
                res.recoveries += 1;
                memo_put(dur.clone(), r.clone());
                r
              }
            };
            match &rec {
              Ok(ids) => {
                res.outcomes.insert(format!("{ids:?}"));
                if !allowed.iter().any(|a| *a == ids) {
                  res.violation = Some((
                    format!(
                      "page closed after IndexedDB transaction #{t} committed: reopened index holds {ids:?}, but the commits that had started hold {:?} and {} commit promise(s) had resolved",
                      d.started, resolved
                    ),
                    json!({"files": dur.dbs.get(DB).and_then(|db| db.stores.values().next()).map(|s| s.keys().cloned().collect::<Vec<_>>())}),
                  ));
                } else if res.sample.is_none() && ids.len() < d.queued.len() {
                  res.sample = Some(json!({"closed_after_tx": t, "recovered_ids": ids, "queued_ids": d.queued, "resolved_commits": resolved}));
                }
              }
              Err(e) => {
                res.outcomes.insert("ERR".into());
                res.violation = Some((format!("page closed after IndexedDB transaction #{t} committed: {e}"), json!(null)));
              }
            }
            if res.violation.is_some() {
              break;
            }
          }
        }
      }
    }
  }
  let resolved_out = *d.resolved.borrow();
  let started_out = d.started.clone();
  drop(d);
  let dur = if rt::page_open() { rt::close_page() } else { Durable::default() };
  (res, dur, started_out, resolved_out)
}

fn scripts(quick: bool) -> Vec<Vec<Stmt>> {
  let a = |s: &str| Stmt::Add(s.to_string());
  let mut v = vec![
    vec![Stmt::Init, a("A"), Stmt::CommitAwait, a("B"), Stmt::CommitAwait],
    vec![Stmt::Init, a("A"), Stmt::CommitNoAwait, a("B"), Stmt::CommitNoAwait, Stmt::FlushAwait],
    vec![Stmt::Init, a("A"), a("B"), Stmt::CommitNoAwait, a("C"), Stmt::CommitAwait],
    vec![Stmt::Init, a("A"), Stmt::CommitAwait, Stmt::Reload, Stmt::Init, a("B"), Stmt::CommitAwait],
    // a commit / flush without writes of its own, issued while an earlier commit is in flight
    vec![Stmt::Init, a("A"), Stmt::CommitNoAwait, Stmt::CommitAwait],
    vec![Stmt::Init, a("A"), Stmt::CommitNoAwait, Stmt::FlushAwait],
  ];
  if !quick {
    v.push(vec![Stmt::Init, a("A"), Stmt::CommitNoAwait, a("B"), Stmt::CommitNoAwait, a("C"), Stmt::CommitAwait]);
    v.push(vec![Stmt::Init, a("A"), Stmt::CommitAwait, a("B"), Stmt::CommitNoAwait, Stmt::Reload, Stmt::Init, a("C"), Stmt::CommitAwait]);
    v.push(vec![Stmt::Init, a("A"), a("B"), a("C"), Stmt::CommitNoAwait, Stmt::CommitNoAwait, Stmt::FlushAwait]);
  }
  v
}

/// Deviation-bounded exploration over choice prefixes of one script (a deviation = any
/// non-default choice), level by level so that each level runs in parallel.
#[allow(clippy::type_complexity)]
fn explore(script: &[Stmt], max_dev: usize, max_paths: u64) -> (u64, u64, u64, u64, HashSet<String>, Option<(String, Value, Vec<usize>)>, Option<Value>, bool, usize) {
  let mut level: Vec<Vec<usize>> = vec![vec![]];
  let (mut paths, mut closes, mut recs, mut events) = (0u64, 0u64, 0u64, 0u64);
  let mut outcomes = HashSet::new();
  let mut sample = None;
  let mut capped = false;
  let mut max_points = 0;
  for dev in 0..=max_dev {
    if level.is_empty() {
      break;
    }
    if paths + level.len() as u64 > max_paths {
      level.truncate((max_paths - paths) as usize);
      capped = true;
    }
    let results: Vec<(Vec<usize>, PathResult)> = level
      .par_iter()
      .map(|prefix| {
        let r = run_path(script, prefix, prefix.len().saturating_sub(1));
        (prefix.clone(), r)
      })
      .collect();
    let mut next: Vec<Vec<usize>> = Vec::new();
    for (prefix, r) in results {
      paths += 1;
      closes += r.closes;
      recs += r.recoveries;
      events += r.events;
      outcomes.extend(r.outcomes);
      max_points = max_points.max(r.trace.len());
      if sample.is_none() {
        sample = r.sample;
      }
      if let Some((w, c)) = r.violation {
        let full: Vec<usize> = r.trace.iter().map(|t| t.1).collect();
        return (paths, closes, recs, events, outcomes, Some((w, c, full)), sample, capped, max_points);
      }
      if dev < max_dev {
        for i in prefix.len()..r.trace.len() {
          for alt in 1..r.trace[i].0 {
            let mut child: Vec<usize> = r.trace[..i].iter().map(|t| t.1).collect();
            child.push(alt);
            next.push(child);
          }
        }
      }
    }
    if capped {
      break;
    }
    level = next;
  }
  (paths, closes, recs, events, outcomes, None, sample, capped, max_points)
}

fn main() {
  let args: Vec<String> = std::env::args().collect();
  if args.len() < 3 {
    eprintln!("usage: wasmmc C27 <quick|thorough> [--replay FILE]");
    std::process::exit(2);
  }
  let tier = Tier::parse(&args[2]);
  let mut replay = None;
  let mut i = 3;
  while i < args.len() {
    if args[i] == "--replay" && i + 1 < args.len() {
      replay = Some(args[i + 1].clone());
      i += 1;
    }
    i += 1;
  }
  vcore::init_pool();
  let mut rep = Reporter::new("C27", tier, "model_checking");
  if let Some(path) = replay {
    rep.set_replaying(true);
    let v: Value = serde_json::from_slice(&std::fs::read(&path).expect("replay file")).expect("json");
    let script: Vec<Stmt> = serde_json::from_value(v["case"]["script"].clone()).expect("script");
    let prefix: Vec<usize> = serde_json::from_value(v["case"]["choices"].clone()).expect("choices");
    let a = run_path(&script, &prefix, 0);
    *MEMO.lock().unwrap() = None;
    let b = run_path(&script, &prefix, 0);
    if a.violation.is_some() != b.violation.is_some() {
      vcore::ev::machinery_failure("NONDETERMINISM on replay");
    }
    match a.violation {
      Some((w, _)) => {
        println!("VIOLATION property=C27 replay={path}\n  what: {w}");
        std::process::exit(1);
      }
      None => {
        println!("replay: no violation");
        std::process::exit(0);
      }
    }
  }
  let quick = tier.is_quick();
  let max_dev = if quick { 2 } else { 3 };
  let max_paths = if quick { 4000 } else { 400_000 };
  let scs = scripts(quick);
  let results: Vec<_> = scs.iter().map(|s| explore(s, max_dev, max_paths)).collect();
  let (mut paths, mut closes, mut recs, mut events) = (0u64, 0u64, 0u64, 0u64);
  let mut outcomes: HashSet<String> = HashSet::new();
  let mut per = Vec::new();
  let mut any_cap = false;
  for (s, (p, c, r, e, o, viol, sample, capped, points)) in scs.iter().zip(results) {
    paths += p;
    closes += c;
    recs += r;
    events += e;
    any_cap |= capped;
    per.push(json!({"script": format!("{s:?}"), "orders_explored": p, "page_closes_checked": c, "capped": capped, "max_choice_points": points, "distinct_outcomes": o.len()}));
    outcomes.extend(o);
    if let Some(sm) = sample {
      rep.sample(json!({"script": format!("{s:?}"), "case": sm}));
    }
    if let Some((w, c, choices)) = viol {
      rep.fail(None, &format!("script {s:?}: {w}"), json!({"engine": "wasmmc", "script": s, "choices": choices, "detail": c}));
    }
  }
  rep.add_evals(paths);
  println!("C27: scripts={} orders={} events={} page_closes={} recoveries={} distinct_outcomes={}", scs.len(), paths, events, closes, recs, outcomes.len());
  if outcomes.len() < 2 && rep.violations() == 0 {
    vcore::ev::machinery_failure("C27 vacuous: fewer than 2 distinct recovery outcomes");
  }
  let cov = vcore::cov! {
    "states" => closes,
    "transitions" => events,
    "traces_validated_against_impl" => paths,
    "distinct_nontrivial" => closes,
    "rule" => "the unmodified searchlite-wasm/src/wasm.rs runs natively against shim crates over an explicit event-loop + IndexedDB model; for each driver script (init / add / commit awaited or not / flush / reload) the explorer runs every order of driver statements and enabled IndexedDB events with at most N deviations from the default order (events FIFO, driver moves at quiescence), and after EVERY committed read-write IndexedDB transaction of every explored order closes the page (aborting uncommitted transactions), re-runs init on the durable store and compares match_all with the commits that had started / whose promise had resolved.",
    "deviation_bound" => max_dev,
    "scripts" => per,
    "exhaustive" => !any_cap,
    "exhaustive_note" => "exhaustive up to the deviation bound; page closes are placed after every committed transaction of every explored order",
    "distinct_observed_outcomes" => outcomes.len(),
  };
  let code = rep.finish(
    cov,
    vec![
      "environment model (trusted): microtasks drain completely after every macrotask; an IndexedDB transaction starts when all earlier-created overlapping read-write transactions (and, if it is read-write, all earlier overlapping transactions) have finished; one request completion per macrotask; a transaction commits in its own macrotask once it has no pending request; closing the page aborts uncommitted transactions".into(),
      "page closes are placed right after committed transactions, as the property's quantifier states".into(),
      "shim crates reproduce only the API surface wasm.rs uses (wshim)".into(),
    ],
  );
  std::process::exit(code);
}
