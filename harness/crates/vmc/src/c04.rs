//! C04 — committed contents follow upsert/delete/rollback semantics.
//! Engine: histmc — BFS over all operation histories of a small alphabet with canonical-state
//! deduplication; every transition re-executes the real code from a fresh index.

use std::collections::HashSet;

use rayon::prelude::*;
use serde_json::{json, Value};

use vcore::ev::{Reporter, Tier};
use vcore::hist::*;
use vcore::world::*;

use crate::Ctx;

struct Stats {
  states: u64,
  transitions: u64,
  depth_done: usize,
  fixpoint: bool,
  distinct_contents: usize,
  capped: Option<String>,
}

fn explore(cfg: &Config, rep: &Reporter, budget_s: f64, stale_roots: bool) -> Stats {
  let alpha = alphabet(cfg);
  let mut seen: HashSet<String> = HashSet::new();
  // roots: the empty index, and an index with two segments whose writer handle is still alive
  // (so that compaction, upserts and deletes through a long-lived handle are within the depth)
  let a = |id: &str, v: &str| Op::Add(0, id.into(), v.into());
  let roots: Vec<Vec<Op>> = if stale_roots {
    // two live handles, the second one stale: its view lacks a document the first one committed
    // after it was opened / still holds a document the first one deleted since
    vec![
      vec![Op::New(0), Op::New(1), a("A", "1"), Op::Commit(0)],
      vec![Op::New(0), a("A", "1"), Op::Commit(0), Op::New(1), Op::Del(0, "A".into()), Op::Commit(0)],
    ]
  } else {
    vec![vec![], vec![Op::New(0), a("A", "1"), Op::Commit(0), a("B", "1"), Op::Commit(0)]]
  };
  let max_depth = if stale_roots { cfg.max_depth.min(3) } else { cfg.max_depth };
  let mut frontier: Vec<(Vec<Op>, Model, usize)> = Vec::new();
  for r in roots {
    let o = execute(cfg, &r);
    if let Some(f) = o.failure {
      rep.fail(None, &format!("[{}] {} :: {}", cfg.name(), hist_str(&r), f.1), json!({"engine": "histmc", "config": cfg.to_json(), "history": r}));
      continue;
    }
    if seen.insert(o.key.clone()) {
      frontier.push((r, o.model, o.nseg));
    }
  }
  let mut stats = Stats {
    states: frontier.len() as u64,
    transitions: 0,
    depth_done: 0,
    fixpoint: false,
    distinct_contents: 0,
    capped: None,
  };
  let mut contents_seen: HashSet<String> = HashSet::new();
  for depth in 1..=max_depth {
    if frontier.is_empty() {
      stats.fixpoint = true;
      break;
    }
    if rep.elapsed_s() > budget_s {
      stats.capped = Some(format!("wall budget {budget_s}s hit before depth {depth}"));
      break;
    }
    let tasks: Vec<(Vec<Op>, Op)> = frontier
      .iter()
      .flat_map(|(h, m, nseg)| {
        alpha
          .iter()
          .filter(|op| op_allowed(cfg, m, *nseg, op))
          .map(|op| (h.clone(), op.clone()))
          .collect::<Vec<_>>()
      })
      .collect();
    let results: Vec<(Vec<Op>, Outcome)> = tasks
      .into_par_iter()
      .map(|(mut h, op)| {
        h.push(op);
        let o = execute(cfg, &h);
        (h, o)
      })
      .collect();
    let mut next = Vec::new();
    for (h, o) in results {
      stats.transitions += 1;
      rep.eval();
      if let Some((sig, what)) = o.failure {
        rep.fail(
          sig,
          &format!("[{}] {} :: {}", cfg.name(), hist_str(&h), what),
          json!({"engine": "histmc", "config": cfg.to_json(), "history": h}),
        );
        continue; // no exploration behind a divergence
      }
      contents_seen.insert(o.contents_sig.clone());
      if seen.insert(o.key) {
        stats.states += 1;
        if h.len() >= 3 {
          rep.sample(json!({"config": cfg.name(), "history": hist_str(&h)}));
        }
        next.push((h, o.model, o.nseg));
      }
    }
    frontier = next;
    stats.depth_done = depth;
    if rep.violations() > 0 {
      break;
    }
  }
  if frontier.is_empty() {
    stats.fixpoint = true;
  }
  stats.distinct_contents = contents_seen.len();
  stats
}

pub fn configs(tier: Tier) -> Vec<Config> {
  let mut v = Vec::new();
  if tier.is_quick() {
    v.push(Config { mem: false, positions: true, handles: 2, compactable: true, max_depth: 5, max_segments: 3, max_queue: 2 });
    v.push(Config { mem: true, positions: true, handles: 2, compactable: true, max_depth: 5, max_segments: 3, max_queue: 2 });
    v.push(Config { mem: true, positions: false, handles: 1, compactable: false, max_depth: 6, max_segments: 3, max_queue: 2 });
    v.push(Config { mem: true, positions: true, handles: 3, compactable: true, max_depth: 3, max_segments: 3, max_queue: 2 });
  } else {
    for mem in [false, true] {
      for positions in [true, false] {
        v.push(Config { mem, positions, handles: 2, compactable: true, max_depth: 7, max_segments: 3, max_queue: 2 });
      }
      v.push(Config { mem, positions: true, handles: 3, compactable: true, max_depth: 5, max_segments: 3, max_queue: 2 });
      v.push(Config { mem, positions: true, handles: 1, compactable: false, max_depth: 8, max_segments: 3, max_queue: 3 });
      v.push(Config { mem, positions: true, handles: 1, compactable: true, max_depth: 9, max_segments: 4, max_queue: 3 });
    }
  }
  v
}

pub fn run(ctx: &Ctx) -> i32 {
  let mut rep = Reporter::new("C04", ctx.tier, "model_checking");
  if let Some(path) = &ctx.replay {
    rep.set_replaying(true);
    let v: Value = serde_json::from_slice(&std::fs::read(path).expect("replay file")).expect("json");
    let cfg = Config::from_json(&v["case"]["config"]);
    let hist: Vec<Op> = serde_json::from_value(v["case"]["history"].clone()).expect("history");
    let o1 = execute(&cfg, &hist);
    let o2 = execute(&cfg, &hist);
    let f1 = o1.failure.as_ref().map(|f| f.1.clone());
    let f2 = o2.failure.as_ref().map(|f| f.1.clone());
    if f1 != f2 {
      vcore::ev::machinery_failure(&format!("NONDETERMINISM on replay: {f1:?} vs {f2:?}"));
    }
    println!("replay [{}] {}", cfg.name(), hist_str(&hist));
    match f1 {
      Some(w) => {
        println!("VIOLATION property=C04 replay={path}\n  what: {w}");
        return 1;
      }
      None => {
        println!("replay: no violation");
        return 0;
      }
    }
  }
  let cfgs = configs(ctx.tier);
  let budget = if ctx.tier.is_quick() { 35.0 } else { 1500.0 };
  let mut states = 0;
  let mut transitions = 0;
  let mut per_cfg = Vec::new();
  let mut all_fix = true;
  let mut distinct = 0;
  let runs: Vec<(&Config, bool)> = cfgs.iter().flat_map(|c| if c.handles >= 2 { vec![(c, false), (c, true)] } else { vec![(c, false)] }).collect();
  for (cfg, stale_roots) in runs {
    let st = explore(cfg, &rep, budget, stale_roots);
    println!(
      "C04 config {}{}: states={} transitions={} depth_done={} fixpoint={} distinct_contents={} cap={:?}",
      cfg.name(), if stale_roots { " (stale-handle roots, depth <= 3)" } else { "" }, st.states, st.transitions, st.depth_done, st.fixpoint, st.distinct_contents, st.capped
    );
    states += st.states;
    transitions += st.transitions;
    distinct = distinct.max(st.distinct_contents);
    all_fix &= st.fixpoint;
    per_cfg.push(json!({"config": cfg.to_json(), "stale_handle_roots": stale_roots, "states": st.states, "transitions": st.transitions,
      "depth_completed": st.depth_done, "fixpoint_reached": st.fixpoint,
      "distinct_committed_contents": st.distinct_contents, "cap_hit": st.capped}));
  }
  if distinct < 2 && rep.violations() == 0 {
    vcore::ev::machinery_failure("C04 vacuous: fewer than 2 distinct committed contents observed");
  }
  let cov = vcore::cov! {
    "states" => states,
    "transitions" => transitions,
    "traces_validated_against_impl" => transitions,
    "distinct_nontrivial" => states,
    "roots" => "empty index; [new0 add(A1) commit add(B1) commit] (two segments, live handle); with >= 2 handles also [new0 new1 add0(A1) commit0] and [new0 add0(A1) commit0 new1 del0(A) commit0] (a second live handle whose view is stale), explored to depth 3",
    "rule" => "BFS over all histories of {new,drop,add(A|B,v1|v2),del(A|B),commit,rollback} per handle + compact + reopen; a state is distinct by canonical key (segment structure, WAL records, per-handle queues and cache snapshots, committed map); every transition re-executes the real code from a fresh index and checks fresh-reader contents against the per-handle-queue reference model after every step",
    "exhaustive" => all_fix,
    "exhaustive_note" => "exhaustive within the per-config caps (depth, segments, queue length); fixpoint_reached per config says whether the frontier emptied below the depth cap",
    "configs" => per_cfg,
    "distinct_observed_outcomes" => distinct,
  };
  rep.finish(
    cov,
    vec![
      "reference model: per-handle queues over one shared log (DESIGN §2.3)".into(),
      "single-element arrays are not in the document alphabet (stored form collapses them to scalars)".into(),
    ],
  )
}
