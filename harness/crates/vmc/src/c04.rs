//! C04 — committed contents follow upsert/delete/rollback semantics.
//! Engine: histmc — BFS over all operation histories of a small alphabet with canonical-state
//! deduplication; every transition re-executes the real code from a fresh index.

use std::collections::HashSet;
use std::path::PathBuf;
use std::sync::Arc;

use rayon::prelude::*;
use searchlite_core::api::types::StorageType;
use searchlite_core::api::Index;
use searchlite_core::storage::{InMemoryStorage, Storage};
use searchlite_core::Schema;
use serde_json::{json, Value};

use vcore::ev::{Reporter, Tier};
use vcore::world::*;

use crate::Ctx;

pub fn schema_s3(compactable: bool) -> Schema {
  // every indexed/fast field is stored when `compactable`; `hidden` is accepted but neither
  // indexed, fast nor stored, so the stored projection differs from the document.
  schema(json!({
    "doc_id_field": "_id",
    "text_fields": [
      {"name": "body", "analyzer": "default", "stored": true, "indexed": true},
      {"name": "note", "analyzer": "default", "stored": compactable, "indexed": true, "nullable": true}
    ],
    "keyword_fields": [
      {"name": "tag", "stored": true, "indexed": true, "fast": true},
      {"name": "hidden", "stored": false, "indexed": false, "fast": false}
    ],
    "numeric_fields": [
      {"name": "n", "i64": true, "fast": true, "stored": true},
      {"name": "f", "i64": false, "fast": true, "stored": true}
    ],
    "nested_fields": [
      {"name": "c", "nullable": true, "fields": [
        {"type": "keyword", "name": "a", "stored": true, "indexed": true, "fast": true},
        {"type": "keyword", "name": "s", "stored": false, "indexed": false, "fast": false, "nullable": true},
        {"type": "numeric", "name": "k", "i64": true, "fast": true, "stored": true, "nullable": true}
      ]}
    ]
  }))
}

/// Versions v1/v2 of an id differ in every field kind.
pub fn version_doc(id: &str, v: &str) -> Value {
  match v {
    "1" => json!({
      "_id": id, "body": format!("alpha {id} one"), "note": "first",
      "tag": ["x", "Y"], "hidden": "h1", "n": 1, "f": 0.5,
      "c": [{"a": "p", "s": "secret", "k": 1}, {"a": "q"}]
    }),
    _ => json!({
      "_id": id, "body": ["beta two", format!("{id} two")],
      "tag": "z", "n": [2, 5], "f": [1.0, 2.5],
      "c": {"a": ["r", "t"], "k": null, "s": null}
    }),
  }
}

#[derive(Clone, Debug)]
pub struct Config {
  pub mem: bool,
  pub positions: bool,
  pub handles: usize,
  pub compactable: bool,
  pub max_depth: usize,
  pub max_segments: usize,
  pub max_queue: usize,
}

impl Config {
  fn name(&self) -> String {
    format!(
      "{}-pos{}-h{}-{}{}",
      if self.mem { "mem" } else { "fs" },
      self.positions as u8,
      self.handles,
      if self.compactable { "stored" } else { "unstored" },
      if cfg!(feature = "zstd") { "-zstd" } else { "" }
    )
  }
  fn to_json(&self) -> Value {
    json!({"mem": self.mem, "positions": self.positions, "handles": self.handles,
      "compactable": self.compactable, "max_depth": self.max_depth,
      "max_segments": self.max_segments, "max_queue": self.max_queue,
      "zstd": cfg!(feature = "zstd")})
  }
  fn from_json(v: &Value) -> Config {
    Config {
      mem: v["mem"].as_bool().unwrap(),
      positions: v["positions"].as_bool().unwrap(),
      handles: v["handles"].as_u64().unwrap() as usize,
      compactable: v["compactable"].as_bool().unwrap(),
      max_depth: v["max_depth"].as_u64().unwrap() as usize,
      max_segments: v["max_segments"].as_u64().unwrap() as usize,
      max_queue: v["max_queue"].as_u64().unwrap() as usize,
    }
  }
}

pub fn alphabet(cfg: &Config) -> Vec<Op> {
  let mut a = Vec::new();
  for h in 0..cfg.handles {
    a.push(Op::New(h));
    for id in ["A", "B"] {
      for v in ["1", "2"] {
        a.push(Op::Add(h, id.into(), v.into()));
      }
    }
    for id in ["A", "B"] {
      a.push(Op::Del(h, id.into()));
    }
    a.push(Op::Commit(h));
    a.push(Op::Rollback(h));
    a.push(Op::DropH(h));
  }
  a.push(Op::Compact);
  a.push(Op::Reopen);
  a
}

/// The environment an execution runs in (storage + how to reopen).
pub struct Env {
  pub schema: Schema,
  pub root: PathBuf,
  pub mem: Option<Arc<InMemoryStorage>>,
  pub positions: bool,
  _scratch: Option<Scratch>,
}

impl Env {
  pub fn new(cfg: &Config) -> (Env, Index) {
    let sch = schema_s3(cfg.compactable);
    if cfg.mem {
      let (idx, st, root) = mem_index_opts(&sch, cfg.positions);
      (
        Env { schema: sch, root, mem: Some(st), positions: cfg.positions, _scratch: None },
        idx,
      )
    } else {
      let s = Scratch::new("c04");
      let root = s.sub("idx");
      let mut o = opts(&root, StorageType::Filesystem);
      o.enable_positions = cfg.positions;
      let idx = Index::create(&root, sch.clone(), o).expect("create fs index");
      (
        Env { schema: sch, root, mem: None, positions: cfg.positions, _scratch: Some(s) },
        idx,
      )
    }
  }

  pub fn reopen(&self) -> anyhow::Result<Index> {
    if let Some(st) = &self.mem {
      let mut o = opts(&self.root, StorageType::InMemory);
      o.enable_positions = self.positions;
      Index::open_with_storage(o, st.clone() as Arc<dyn Storage>)
    } else {
      let mut o = opts(&self.root, StorageType::Filesystem);
      o.enable_positions = self.positions;
      Index::open(o)
    }
  }

  pub fn read(&self, path: &str) -> anyhow::Result<Vec<u8>> {
    if let Some(st) = &self.mem {
      st.read_to_end(std::path::Path::new(path))
    } else {
      Ok(std::fs::read(path)?)
    }
  }

  pub fn storage(&self) -> Arc<dyn Storage> {
    if let Some(st) = &self.mem {
      st.clone() as Arc<dyn Storage>
    } else {
      Arc::new(searchlite_core::storage::FsStorage::new(self.root.clone()))
    }
  }
}

/// Canonical structure of the committed index: per segment (doc ids in ordinal order, tombstones).
/// Versions are identified through the stored body text, so content is part of the key.
pub fn structure(env: &Env, idx: &Index) -> anyhow::Result<Vec<(Vec<String>, Vec<u32>)>> {
  let m = idx.manifest();
  let mut out = Vec::new();
  for s in &m.segments {
    let meta: Value = serde_json::from_slice(&env.read(&s.paths.meta)?)?;
    let ids: Vec<String> = meta["doc_ids"]
      .as_array()
      .map(|a| a.iter().map(|x| x.as_str().unwrap_or("").to_string()).collect())
      .unwrap_or_default();
    out.push((ids, s.deleted_docs.clone()));
  }
  Ok(out)
}

pub fn wal_records(env: &Env) -> anyhow::Result<Vec<String>> {
  use searchlite_core::wal::{Wal, WalEntry};
  let p = env.root.join("wal.log");
  let st = env.storage();
  let entries = Wal::replay(st.as_ref(), &p)?;
  Ok(
    entries
      .into_iter()
      .map(|e| match e {
        WalEntry::AddDoc(d) => format!(
          "add:{}:{}",
          d.fields.get("_id").and_then(|v| v.as_str()).unwrap_or("?"),
          d.fields.get("body").map(|b| b.to_string()).unwrap_or_default()
        ),
        WalEntry::DeleteDocId(id) => format!("del:{id}"),
        WalEntry::Commit => "commit".to_string(),
      })
      .collect(),
  )
}

pub struct Outcome {
  pub key: String,
  pub model: Model,
  pub nseg: usize,
  pub contents_sig: String,
  pub failure: Option<(Option<&'static str>, String)>,
}

/// Execute a full history on a fresh index, checking every step; returns the canonical key of
/// the final state, or the first failure.
pub fn execute(cfg: &Config, hist: &[Op]) -> Outcome {
  let (env, idx) = Env::new(cfg);
  let mut live = Live::new(idx, cfg.handles);
  let mut model = Model::new(cfg.handles, cfg.compactable);
  // harness-tracked freshness of each handle's live-doc cache: structure snapshot at load time
  let mut snaps: Vec<Option<String>> = vec![None; cfg.handles];
  let versions = |id: &str, v: &str| version_doc(id, v);
  let reopen = || env.reopen();
  let mut failure = None;
  let mut nseg = 0;
  let mut contents_sig = String::new();
  for (i, op) in hist.iter().enumerate() {
    let nseg_before = live.idx.manifest().segments.len();
    let res = vcore::catch(|| live.step(op, &versions, &reopen));
    let expect_err = matches!(op, Op::Compact) && !cfg.compactable && nseg_before > 1;
    match res {
      Err(p) => {
        failure = Some((None, format!("step {i} {} panicked: {p}", op.short())));
        break;
      }
      Ok(Err(e)) if !expect_err => {
        failure = Some((None, format!("step {i} {} returned Err: {e:#}", op.short())));
        break;
      }
      Ok(Ok(())) if expect_err => {
        failure = Some((
          None,
          format!("step {i} compact succeeded although an indexed field is not stored"),
        ));
        break;
      }
      _ => {}
    }
    model.step(op);
    let st = match structure(&env, &live.idx) {
      Ok(s) => s,
      Err(e) => {
        failure = Some((None, format!("step {i}: cannot read segment structure: {e:#}")));
        break;
      }
    };
    nseg = st.len();
    let st_s = format!("{st:?}");
    match op {
      Op::New(h) => snaps[*h] = Some(st_s.clone()),
      Op::Commit(h) => snaps[*h] = Some(st_s.clone()),
      Op::DropH(h) => snaps[*h] = None,
      Op::Reopen => snaps.iter_mut().for_each(|s| *s = None),
      _ => {}
    }
    // oracle: fresh reader sees exactly the model's committed contents
    let got = match vcore::catch(|| contents(&live.idx)) {
      Ok(Ok(c)) => c,
      Ok(Err(e)) => {
        failure = Some((None, format!("step {i} {}: reader failed: {e:#}", op.short())));
        break;
      }
      Err(p) => {
        failure = Some((None, format!("step {i} {}: reader panicked: {p}", op.short())));
        break;
      }
    };
    let want = expected_contents(&env.schema, &model.committed, &versions);
    if got != want {
      failure = Some((
        None,
        format!(
          "after step {i} {}: contents differ: got {} want {}",
          op.short(),
          serde_json::to_string(&got).unwrap(),
          serde_json::to_string(&want).unwrap()
        ),
      ));
      break;
    }
    if matches!(op, Op::Compact) && cfg.compactable && nseg_before > 1 {
      if st.len() != 1 || !st[0].1.is_empty() {
        failure = Some((None, format!("after compact: structure {st:?} is not one clean segment")));
        break;
      }
    }
    contents_sig = serde_json::to_string(&got).unwrap();
  }
  let key = if failure.is_none() {
    let st = structure(&env, &live.idx).map(|s| format!("{s:?}")).unwrap_or_default();
    let wal = wal_records(&env).unwrap_or_default();
    // a handle's cached live-doc map matters only while no segment was added since it was loaded
    let hs: Vec<String> = (0..cfg.handles)
      .map(|h| match &model.handles[h] {
        None => "-".to_string(),
        Some(q) => format!("{:?}|{}", q, snaps[h].clone().unwrap_or_default()),
      })
      .collect();
    format!("{st}#{wal:?}#{hs:?}#{:?}", model.committed)
  } else {
    String::new()
  };
  Outcome { key, model, nseg, contents_sig, failure }
}

fn op_allowed(cfg: &Config, model: &Model, nseg: usize, op: &Op) -> bool {
  if !model.enabled(op) {
    return false;
  }
  match op {
    Op::Add(h, _, _) | Op::Del(h, _) => {
      model.handles[*h].as_ref().unwrap().len() < cfg.max_queue && model.log.len() < cfg.max_queue + 1
    }
    Op::Commit(h) => {
      let q = model.handles[*h].as_ref().unwrap();
      let adds = q.iter().any(|o| matches!(o, QOp::Add(..)));
      !(adds && nseg >= cfg.max_segments)
    }
    _ => true,
  }
}

struct Stats {
  states: u64,
  transitions: u64,
  depth_done: usize,
  fixpoint: bool,
  distinct_contents: usize,
  capped: Option<String>,
}

fn explore(cfg: &Config, rep: &Reporter, budget_s: f64) -> Stats {
  let alpha = alphabet(cfg);
  let mut seen: HashSet<String> = HashSet::new();
  let init = execute(cfg, &[]);
  seen.insert(init.key.clone());
  let mut frontier: Vec<(Vec<Op>, Model, usize)> = vec![(vec![], init.model, init.nseg)];
  let mut stats = Stats {
    states: 1,
    transitions: 0,
    depth_done: 0,
    fixpoint: false,
    distinct_contents: 0,
    capped: None,
  };
  let mut contents_seen: HashSet<String> = HashSet::new();
  for depth in 1..=cfg.max_depth {
    if frontier.is_empty() {
      stats.fixpoint = true;
      break;
    }
    if rep.elapsed_s() > budget_s {
      stats.capped = Some(format!("wall budget {budget_s}s hit before depth {depth}"));
      break;
    }
    let tasks: Vec<(Vec<Op>, Op)> = frontier
      .iter()
      .flat_map(|(h, m, nseg)| {
        alpha
          .iter()
          .filter(|op| op_allowed(cfg, m, *nseg, op))
          .map(|op| (h.clone(), op.clone()))
          .collect::<Vec<_>>()
      })
      .collect();
    let results: Vec<(Vec<Op>, Outcome)> = tasks
      .into_par_iter()
      .map(|(mut h, op)| {
        h.push(op);
        let o = execute(cfg, &h);
        (h, o)
      })
      .collect();
    let mut next = Vec::new();
    for (h, o) in results {
      stats.transitions += 1;
      rep.eval();
      if let Some((sig, what)) = o.failure {
        rep.fail(
          sig,
          &format!("[{}] {} :: {}", cfg.name(), hist_str(&h), what),
          json!({"engine": "histmc", "config": cfg.to_json(), "history": h}),
        );
        continue; // no exploration behind a divergence
      }
      contents_seen.insert(o.contents_sig.clone());
      if seen.insert(o.key) {
        stats.states += 1;
        if h.len() >= 3 {
          rep.sample(json!({"config": cfg.name(), "history": hist_str(&h)}));
        }
        next.push((h, o.model, o.nseg));
      }
    }
    frontier = next;
    stats.depth_done = depth;
    if rep.violations() > 0 {
      break;
    }
  }
  if frontier.is_empty() {
    stats.fixpoint = true;
  }
  stats.distinct_contents = contents_seen.len();
  stats
}

pub fn configs(tier: Tier) -> Vec<Config> {
  let mut v = Vec::new();
  if tier.is_quick() {
    v.push(Config { mem: false, positions: true, handles: 2, compactable: true, max_depth: 6, max_segments: 3, max_queue: 2 });
    v.push(Config { mem: true, positions: true, handles: 2, compactable: true, max_depth: 7, max_segments: 3, max_queue: 2 });
    v.push(Config { mem: true, positions: false, handles: 1, compactable: false, max_depth: 7, max_segments: 3, max_queue: 2 });
    v.push(Config { mem: true, positions: true, handles: 3, compactable: true, max_depth: 4, max_segments: 3, max_queue: 2 });
  } else {
    for mem in [false, true] {
      for positions in [true, false] {
        v.push(Config { mem, positions, handles: 2, compactable: true, max_depth: 7, max_segments: 3, max_queue: 2 });
      }
      v.push(Config { mem, positions: true, handles: 3, compactable: true, max_depth: 5, max_segments: 3, max_queue: 2 });
      v.push(Config { mem, positions: true, handles: 1, compactable: false, max_depth: 8, max_segments: 3, max_queue: 3 });
      v.push(Config { mem, positions: true, handles: 1, compactable: true, max_depth: 9, max_segments: 4, max_queue: 3 });
    }
  }
  v
}

pub fn run(ctx: &Ctx) -> i32 {
  let mut rep = Reporter::new("C04", ctx.tier, "model_checking");
  if let Some(path) = &ctx.replay {
    rep.set_replaying(true);
    let v: Value = serde_json::from_slice(&std::fs::read(path).expect("replay file")).expect("json");
    let cfg = Config::from_json(&v["case"]["config"]);
    let hist: Vec<Op> = serde_json::from_value(v["case"]["history"].clone()).expect("history");
    let o1 = execute(&cfg, &hist);
    let o2 = execute(&cfg, &hist);
    let f1 = o1.failure.as_ref().map(|f| f.1.clone());
    let f2 = o2.failure.as_ref().map(|f| f.1.clone());
    if f1 != f2 {
      vcore::ev::machinery_failure(&format!("NONDETERMINISM on replay: {f1:?} vs {f2:?}"));
    }
    println!("replay [{}] {}", cfg.name(), hist_str(&hist));
    match f1 {
      Some(w) => {
        println!("VIOLATION property=C04 replay={path}\n  what: {w}");
        return 1;
      }
      None => {
        println!("replay: no violation");
        return 0;
      }
    }
  }
  let cfgs = configs(ctx.tier);
  let budget = if ctx.tier.is_quick() { 40.0 } else { 1500.0 };
  let mut states = 0;
  let mut transitions = 0;
  let mut per_cfg = Vec::new();
  let mut all_fix = true;
  let mut distinct = 0;
  for cfg in &cfgs {
    let st = explore(cfg, &rep, budget);
    println!(
      "C04 config {}: states={} transitions={} depth_done={} fixpoint={} distinct_contents={} cap={:?}",
      cfg.name(), st.states, st.transitions, st.depth_done, st.fixpoint, st.distinct_contents, st.capped
    );
    states += st.states;
    transitions += st.transitions;
    distinct = distinct.max(st.distinct_contents);
    all_fix &= st.fixpoint;
    per_cfg.push(json!({"config": cfg.to_json(), "states": st.states, "transitions": st.transitions,
      "depth_completed": st.depth_done, "fixpoint_reached": st.fixpoint,
      "distinct_committed_contents": st.distinct_contents, "cap_hit": st.capped}));
  }
  if distinct < 2 && rep.violations() == 0 {
    vcore::ev::machinery_failure("C04 vacuous: fewer than 2 distinct committed contents observed");
  }
  let cov = vcore::cov! {
    "states" => states,
    "transitions" => transitions,
    "traces_validated_against_impl" => transitions,
    "distinct_nontrivial" => states,
    "rule" => "BFS over all histories of {new,drop,add(A|B,v1|v2),del(A|B),commit,rollback} per handle + compact + reopen; a state is distinct by canonical key (segment structure, WAL records, per-handle queues and cache snapshots, committed map); every transition re-executes the real code from a fresh index and checks fresh-reader contents against the per-handle-queue reference model after every step",
    "exhaustive" => all_fix,
    "exhaustive_note" => "exhaustive within the per-config caps (depth, segments, queue length); fixpoint_reached per config says whether the frontier emptied below the depth cap",
    "configs" => per_cfg,
    "distinct_observed_outcomes" => distinct,
  };
  rep.finish(
    cov,
    vec![
      "reference model: per-handle queues over one shared log (DESIGN §2.3)".into(),
      "single-element arrays are not in the document alphabet (stored form collapses them to scalars)".into(),
    ],
  )
}
