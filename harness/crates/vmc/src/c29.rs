//! C29 — vector and hybrid search return correctly scored, filtered hits (`--features vectors`).
//! Engine: inputmc vectors — small vector worlds (dim 1-3, Cosine / L2, missing vectors, zero
//! vector, deletions, every segment layout) x vector-only / hybrid / multi-clause requests, against
//! a brute-force similarity oracle. Every segment holds far fewer vectors than the HNSW neighbour
//! limit (m = 16), so hits must be the exact nearest neighbours.

#[cfg(not(feature = "vectors"))]
pub fn run(_ctx: &crate::Ctx) -> i32 {
  eprintln!("C29 needs the `vectors` feature build (./check C29 builds it)");
  2
}

#[cfg(feature = "vectors")]
pub use imp::run;

#[cfg(feature = "vectors")]
mod imp {
  use std::collections::HashSet;
  use std::sync::atomic::{AtomicU64, Ordering};

  use parking_lot::Mutex;
  use rayon::prelude::*;
  use serde_json::{json, Value};

  use vcore::ev::Reporter;
  use vcore::inp::*;
  use vcore::world::*;

  use crate::Ctx;

  fn schema_json(dim: usize, metric: &str) -> Value {
    json!({"doc_id_field": "_id",
      "text_fields": [{"name": "body", "analyzer": "default", "stored": true, "indexed": true}],
      "keyword_fields": [{"name": "kw", "stored": true, "indexed": true, "fast": true}],
      "numeric_fields": [],
      "vector_fields": [{"name": "v", "dim": dim, "metric": metric}]})
  }

  /// vectors per dimension (None = document without a vector)
  fn vec_alphabet(dim: usize) -> Vec<Option<Vec<f32>>> {
    match dim {
      1 => vec![Some(vec![1.0]), Some(vec![-1.0]), Some(vec![0.0]), None, Some(vec![0.5])],
      2 => vec![Some(vec![1.0, 0.0]), Some(vec![0.0, 1.0]), Some(vec![1.0, 1.0]), Some(vec![-1.0, 0.0]), None, Some(vec![0.0, 0.0])],
      _ => vec![Some(vec![1.0, 0.0, 0.0]), Some(vec![0.0, 1.0, 1.0]), Some(vec![1.0, 1.0, 1.0]), Some(vec![-1.0, 0.0, 1.0]), None, Some(vec![0.0, 0.0, 0.0])],
    }
  }

  fn shapes(dim: usize) -> Vec<Value> {
    let bodies = ["a", "a b", "a", "b", "a", "a b"];
    let kws = ["x", "y", "x", "y", "x", "y"];
    vec_alphabet(dim)
      .into_iter()
      .enumerate()
      .map(|(i, v)| {
        let mut d = json!({"body": bodies[i % 6], "kw": kws[i % 6]});
        if let Some(v) = v {
          d["v"] = json!(v);
        }
        d
      })
      .collect()
  }

  fn queries(dim: usize) -> Vec<Vec<f32>> {
    match dim {
      1 => vec![vec![1.0], vec![-2.0]],
      2 => vec![vec![1.0, 0.0], vec![1.0, 1.0], vec![0.0, -1.0]],
      _ => vec![vec![1.0, 0.0, 0.0], vec![1.0, 1.0, 1.0]],
    }
  }

  fn sim(metric: &str, q: &[f32], d: &[f32]) -> f32 {
    if metric == "Cosine" {
      let (mut dot, mut na, mut nb) = (0.0f64, 0.0f64, 0.0f64);
      for (x, y) in q.iter().zip(d) {
        dot += (*x as f64) * (*y as f64);
        na += (*x as f64) * (*x as f64);
        nb += (*y as f64) * (*y as f64);
      }
      if na == 0.0 || nb == 0.0 {
        0.0
      } else {
        (dot / (na.sqrt() * nb.sqrt())) as f32
      }
    } else {
      let mut s = 0.0f64;
      for (x, y) in q.iter().zip(d) {
        let dd = (*x as f64) - (*y as f64);
        s += dd * dd;
      }
      -(s.sqrt() as f32)
    }
  }

  struct Doc<'a> {
    id: &'a str,
    vec: Option<Vec<f32>>,
    kw: &'a str,
    has_a: bool,
  }

  fn live<'a>(w: &'a World) -> Vec<Doc<'a>> {
    w.live_docs()
      .into_iter()
      .map(|d| Doc {
        id: d["_id"].as_str().unwrap(),
        vec: d.get("v").and_then(|v| v.as_array()).map(|a| a.iter().map(|x| x.as_f64().unwrap() as f32).collect()),
        kw: d["kw"].as_str().unwrap_or(""),
        has_a: d["body"].as_str().unwrap_or("").split(' ').any(|t| t == "a"),
      })
      .collect()
  }

  /// ids grouped into tie classes by score (descending)
  fn classes(mut v: Vec<(String, f32)>) -> Vec<(f32, Vec<String>)> {
    v.sort_by(|a, b| b.1.partial_cmp(&a.1).unwrap_or(std::cmp::Ordering::Equal));
    let mut out: Vec<(f32, Vec<String>)> = Vec::new();
    for (id, s) in v {
      match out.last_mut() {
        Some((ls, ids)) if approx(*ls, s, 1e-5) || (*ls - s).abs() < 1e-6 => ids.push(id),
        _ => out.push((s, vec![id])),
      }
    }
    for c in out.iter_mut() {
      c.1.sort();
    }
    out
  }

  /// Check that `hits` (id, score, vector_score) is a correct top-`must_prefix` ranking of `expected`.
  fn judge_ranking(hits: &[(String, f32, Option<f32>)], expected: &[(String, f32)], vexp: &dyn Fn(&str) -> Option<f32>, must_prefix: usize, all_must_be_eligible: bool) -> Result<(), String> {
    let elig: std::collections::HashMap<&str, f32> = expected.iter().map(|(i, s)| (i.as_str(), *s)).collect();
    let mut seen = HashSet::new();
    for (id, score, vs) in hits {
      if !seen.insert(id.clone()) {
        return Err(format!("document {id} returned twice"));
      }
      match elig.get(id.as_str()) {
        None => {
          if all_must_be_eligible {
            return Err(format!("document {id} is returned but is not eligible (deleted, no vector in the field, or rejected by a filter)"));
          }
        }
        Some(es) => {
          if !approx(*score, *es, 1e-4) && (*score - *es).abs() > 1e-5 {
            return Err(format!("document {id} has score {score} but the exact value is {es}"));
          }
          if let Some(want) = vexp(id) {
            match vs {
              Some(v) if approx(*v, want, 1e-4) || (*v - want).abs() < 1e-5 => {}
              other => return Err(format!("document {id} has vector_score {other:?} but the exact similarity x boost is {want}")),
            }
          }
        }
      }
    }
    // order: non-increasing score
    for w in hits.windows(2) {
      if w[1].1 > w[0].1 + 1e-5 {
        return Err(format!("hits are not ordered by score: {} ({}) before {} ({})", w[0].0, w[0].1, w[1].0, w[1].1));
      }
    }
    // exact nearest neighbours: the first `must_prefix` hits are the exact top (tie classes as sets)
    let cls = classes(expected.to_vec());
    let need = must_prefix.min(expected.len());
    if hits.len() < need {
      return Err(format!("only {} hits returned but {need} eligible documents must be returned", hits.len()));
    }
    let mut pos = 0usize;
    for (_, ids) in cls {
      if pos >= need {
        break;
      }
      let take = ids.len().min(need - pos);
      let got: HashSet<&str> = hits[pos..pos + take].iter().map(|h| h.0.as_str()).collect();
      if ids.len() == take {
        let want: HashSet<&str> = ids.iter().map(|s| s.as_str()).collect();
        if got != want {
          return Err(format!("ranks {pos}..{} hold {:?} but the exact nearest neighbours there are {:?}", pos + take, got, want));
        }
      } else if !got.iter().all(|g| ids.iter().any(|i| i == g)) {
        return Err(format!("ranks {pos}..{} hold {:?} which are not all among the tied nearest neighbours {:?}", pos + take, got, ids));
      }
      pos += take;
    }
    Ok(())
  }

  fn hits_of(r: &searchlite_core::api::SearchResult) -> Vec<(String, f32, Option<f32>)> {
    r.hits.iter().map(|h| (h.doc_id.clone(), h.score, h.vector_score)).collect()
  }

  fn check_world(w: &World, dim: usize, metric: &str, rep: &Reporter, evals: &AtomicU64, nontriv: &AtomicU64, outcomes: &Mutex<HashSet<String>>) {
    let idx = w.build();
    let reader = match idx.reader() {
      Ok(r) => r,
      Err(e) => {
        rep.fail(None, &format!("{}: reader failed: {e:#}", w.describe()), json!({"world": w.to_json(), "dim": dim, "metric": metric}));
        return;
      }
    };
    let docs = live(w);
    let n = w.docs.len();
    let fail = |what: String, request: &Value| {
      rep.fail(None, &format!("{} metric={metric} request={request}: {what}", w.describe()), json!({"engine": "inputmc-vectors", "world": w.to_json(), "dim": dim, "metric": metric, "request": request}));
    };
    for q in queries(dim) {
      // ---- vector-only ----------------------------------------------------------------------
      for (filter, vfilter, boost) in [(false, false, None), (true, false, None), (false, true, None), (false, false, Some(2.0f32))] {
        // ef_search: the ANN beam width is a tuning knob; with fewer vectors per segment than the
        // neighbour limit the answer must stay exact whatever its value
        for ((k, limit), ef) in [(n.max(1), n.max(1)), (1, n.max(1)), (2, 1), (n.max(1), 1)].into_iter().flat_map(|kl| [None, Some(1usize), Some(2)].into_iter().map(move |e| (kl, e))) {
          let mut node = json!({"type": "vector", "field": "v", "vector": q, "k": k, "alpha": 0.0});
          if let Some(b) = boost {
            node["boost"] = json!(b);
          }
          if let Some(e) = ef {
            node["ef_search"] = json!(e);
          }
          let mut r = json!({"query": node, "limit": limit, "execution": "wand"});
          if filter {
            r["filter"] = json!({"KeywordEq": {"field": "kw", "value": "x"}});
          }
          if vfilter {
            r["vector_filter"] = json!({"KeywordEq": {"field": "kw", "value": "x"}});
          }
          evals.fetch_add(1, Ordering::Relaxed);
          let b = boost.unwrap_or(1.0);
          let expected: Vec<(String, f32)> = docs
            .iter()
            .filter(|d| d.vec.is_some() && (!(filter || vfilter) || d.kw == "x"))
            .map(|d| (d.id.to_string(), sim(metric, &q, d.vec.as_ref().unwrap()) * b))
            .collect();
          match search_caught(&reader, &req(r.clone())) {
            Err(e) => fail(format!("vector-only search failed: {e}"), &r),
            Ok(res) => {
              let hits = hits_of(&res);
              if hits.len() > limit {
                fail(format!("{} hits for limit {limit}", hits.len()), &r);
                continue;
              }
              let vexp = |id: &str| expected.iter().find(|e| e.0 == id).map(|e| e.1);
              if let Err(what) = judge_ranking(&hits, &expected, &vexp, k.min(limit), true) {
                fail(what, &r);
              } else {
                if !expected.is_empty() && expected.len() < docs.len() {
                  nontriv.fetch_add(1, Ordering::Relaxed);
                }
                outcomes.lock().insert(format!("vo:{}:{}", hits.len(), expected.len()));
              }
            }
          }
        }
      }
      // ---- hybrid: text query "a" + vector_query ---------------------------------------------
      let base = json!({"query": "a", "limit": n.max(1), "execution": "bm25"});
      let bm: std::collections::HashMap<String, f32> = match search_caught(&reader, &req(base.clone())) {
        Ok(r) => r.hits.iter().map(|h| (h.doc_id.clone(), h.score)).collect(),
        Err(e) => {
          fail(format!("text search failed: {e}"), &base);
          continue;
        }
      };
      for alpha in [0.0f32, 0.5, 1.0] {
        for legacy in [false, true] {
          let mut r = base.clone();
          r["vector_query"] = if legacy { json!(["v", q, alpha]) } else { json!({"field": "v", "vector": q, "alpha": alpha, "k": n.max(1)}) };
          evals.fetch_add(1, Ordering::Relaxed);
          match search_caught(&reader, &req(r.clone())) {
            Err(e) => fail(format!("hybrid search failed: {e}"), &r),
            Ok(res) => {
              let hits = hits_of(&res);
              if alpha >= 1.0 {
                // BM25 only: same ids as the text query
                let got: HashSet<&str> = hits.iter().map(|h| h.0.as_str()).collect();
                let want: HashSet<&str> = bm.keys().map(|s| s.as_str()).collect();
                if got != want {
                  fail(format!("alpha=1 (BM25 only) returns {got:?} but the text query alone returns {want:?}"), &r);
                }
                continue;
              }
              // documents that match the text query, are live and have a vector
              let expected: Vec<(String, f32)> = docs
                .iter()
                .filter(|d| d.has_a && d.vec.is_some() && bm.contains_key(d.id))
                .map(|d| {
                  let vs = sim(metric, &q, d.vec.as_ref().unwrap());
                  (d.id.to_string(), alpha * bm[d.id] + (1.0 - alpha) * vs)
                })
                .collect();
              let vexp = |id: &str| docs.iter().find(|d| d.id == id).and_then(|d| d.vec.as_ref().map(|v| sim(metric, &q, v)));
              // every hit must match the text query; hits with a vector must carry the exact blend
              for (id, _, _) in &hits {
                if !bm.contains_key(id) {
                  fail(format!("hybrid hit {id} does not match the text query"), &r);
                }
              }
              let with_vec: Vec<(String, f32, Option<f32>)> = hits.iter().filter(|h| expected.iter().any(|e| e.0 == h.0)).cloned().collect();
              if let Err(what) = judge_ranking(&with_vec, &expected, &vexp, expected.len(), false) {
                fail(what, &r);
              } else {
                outcomes.lock().insert(format!("hy:{alpha}:{}", hits.len()));
              }
            }
          }
        }
      }
      // ---- two clauses: only membership ------------------------------------------------------
      if dim >= 2 {
        let q2: Vec<f32> = q.iter().rev().cloned().collect();
        let r = json!({"query": {"type": "bool", "should": [
            {"type": "vector", "field": "v", "vector": q, "alpha": 0.0, "k": n.max(1)},
            {"type": "vector", "field": "v", "vector": q2, "alpha": 0.0, "k": n.max(1)}]},
          "limit": n.max(1), "candidate_size": 100});
        evals.fetch_add(1, Ordering::Relaxed);
        match search_caught(&reader, &req(r.clone())) {
          Err(e) => fail(format!("two-clause vector search failed: {e}"), &r),
          Ok(res) => {
            for h in &res.hits {
              if !docs.iter().any(|d| d.id == h.doc_id && d.vec.is_some()) {
                fail(format!("two-clause hit {} is deleted or has no vector", h.doc_id), &r);
              }
            }
          }
        }
      }
    }
    // ---- wrong dimension is rejected ----------------------------------------------------------
    let bad: Vec<f32> = vec![1.0; dim + 1];
    let r = json!({"query": {"type": "vector", "field": "v", "vector": bad, "k": 2, "alpha": 0.0}, "limit": 2});
    evals.fetch_add(1, Ordering::Relaxed);
    if let Ok(res) = search_caught(&reader, &req(r.clone())) {
      fail(format!("query vector of dimension {} accepted by a field of dimension {dim} ({} hits)", dim + 1, res.hits.len()), &r);
    }
  }

  pub fn run(ctx: &Ctx) -> i32 {
    let mut rep = Reporter::new("C29", ctx.tier, "exploration");
    let quick = ctx.tier.is_quick();
    let evals = AtomicU64::new(0);
    let nontriv = AtomicU64::new(0);
    let outcomes: Mutex<HashSet<String>> = Mutex::new(HashSet::new());
    if let Some(path) = &ctx.replay {
      rep.set_replaying(true);
      let v: Value = serde_json::from_slice(&std::fs::read(path).expect("replay file")).expect("json");
      let w = World::from_json(&v["case"]["world"]);
      let dim = v["case"]["dim"].as_u64().unwrap_or(2) as usize;
      let metric = v["case"]["metric"].as_str().unwrap_or("Cosine").to_string();
      check_world(&w, dim, &metric, &rep, &evals, &nontriv, &outcomes);
      let a = rep.violations();
      check_world(&w, dim, &metric, &rep, &evals, &nontriv, &outcomes);
      if rep.violations() != 2 * a {
        vcore::ev::machinery_failure("NONDETERMINISM on replay");
      }
      if a > 0 {
        println!("VIOLATION property=C29 replay={path}");
        return 1;
      }
      println!("replay: no violation");
      return 0;
    }
    // wrong-dimension document is rejected when queued or at the latest when committed
    {
      let sch = schema(schema_json(2, "Cosine"));
      let idx = mem_index(&sch);
      let mut wr = idx.writer().unwrap();
      let ok_add = wr.add_document(&doc(&json!({"_id": "A", "body": "a", "kw": "x", "v": [1.0, 0.0, 0.0]}))).is_ok();
      let ok_commit = ok_add && wr.commit().is_ok();
      if ok_commit {
        rep.fail(None, "a document whose vector has 3 components was added and committed into a field of dimension 2", json!({"engine": "inputmc-vectors", "kind": "wrong-dimension-document"}));
      }
    }
    let dims: Vec<usize> = if quick { vec![2] } else { vec![1, 2, 3] };
    let max_docs = if quick { 3 } else { 4 };
    let mut worlds: Vec<(World, usize, String)> = Vec::new();
    for &dim in &dims {
      for metric in ["Cosine", "L2"] {
        let sh = shapes(dim);
        for n in 1..=max_docs {
          let seqs = if n <= 3 { sequences(&(0..sh.len()).collect::<Vec<_>>(), n, n) } else { multisets(sh.len(), n) };
          for seq in seqs {
            let docs: Vec<Value> = seq
              .iter()
              .enumerate()
              .map(|(i, s)| {
                let mut d = sh[*s].clone();
                d["_id"] = json!(id_of(i));
                d
              })
              .collect();
            for lay in compositions(n) {
              if quick && n == 3 && lay.len() == 2 && lay[0] == 1 {
                continue;
              }
              let base = World::new(&format!("vec{dim}-{metric}"), schema_json(dim, metric), docs.clone()).with_layout(lay.clone());
              worlds.push((base.clone(), dim, metric.to_string()));
              if n >= 2 && lay.len() <= 2 {
                worlds.push((base.with_deleted(&["B"]), dim, metric.to_string()));
              }
            }
          }
        }
      }
    }
    let budget = if quick { 35.0 } else { 1200.0 };
    let timed_out = std::sync::atomic::AtomicBool::new(false);
    worlds.par_iter().for_each(|(w, dim, metric)| {
      if rep.elapsed_s() > budget {
        timed_out.store(true, Ordering::Relaxed);
        return;
      }
      check_world(w, *dim, metric, &rep, &evals, &nontriv, &outcomes);
    });
    rep.add_evals(evals.load(Ordering::Relaxed));
    rep.sample(json!({"world": worlds[worlds.len() / 2].0.describe(), "requests": "vector-only (k, limit, filter, vector_filter, boost), hybrid (alpha 0 / 0.5 / 1, object and legacy tuple), two clauses, wrong dimension"}));
    let n_out = outcomes.lock().len();
    if n_out < 2 && rep.violations() == 0 {
      vcore::ev::machinery_failure("C29 vacuous");
    }
    let to = timed_out.load(Ordering::Relaxed);
    let cov = vcore::cov! {
      "distinct_nontrivial" => nontriv.load(Ordering::Relaxed),
      "rule" => "worlds = vector field of dimension d x {Cosine, L2} x every sequence of <= 3 (multisets of 4 in thorough) document shapes (axis / diagonal / negative / zero vectors, one shape without a vector, two keyword values, text a / a b / b) x every segment layout x {no deletion, delete B}; requests per world: vector-only with (k, limit) in {(n,n),(1,n),(2,1),(n,1)} x {plain, filter, vector_filter, boost 2} x 2-3 query vectors; hybrid text query + vector_query (object and legacy tuple) with alpha 0 / 0.5 / 1; two-clause should; wrong-dimension query. Oracle: brute-force exact similarity (cosine of the raw vectors, negative Euclidean distance) x boost; eligibility = live, has a vector, passes filter / vector_filter; score = alpha*bm25 + (1-alpha)*vector_score with bm25 from the text query alone; the first min(k, limit) hits are the exact nearest neighbours (tie classes as sets). A vector-only case is non-trivial when the eligible set is a non-empty proper subset of the live documents.",
      "worlds" => worlds.len(),
      "dims" => dims,
      "cap_hit" => if to { Some(format!("wall budget {budget}s")) } else { None },
      "exhaustive" => !to,
      "distinct_observed_outcomes" => n_out,
    };
    rep.finish(
      cov,
      vec![
        "every segment holds at most 4 vectors (< HNSW m = 16), so exact nearest neighbours are demanded".into(),
        "multi-clause queries are only checked for eligibility of their hits (the docs do not pin vector_score / blend for several clauses)".into(),
        "hybrid hits without a vector are not judged (docs do not say whether they are returned)".into(),
      ],
    )
  }
}
