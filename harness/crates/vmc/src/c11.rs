//! C11 — cursor pagination is complete, duplicate-free and safe.
//! Engine: inputmc paging — tie-heavy worlds x segment layouts x sort plans x page sizes x
//! execution strategies, walked page by page and compared with one covering request; then every
//! cursor is re-presented to a changed index / another sort plan.

use std::collections::HashSet;
use std::sync::atomic::{AtomicU64, Ordering};

use parking_lot::Mutex;
use rayon::prelude::*;
use serde_json::{json, Value};

use vcore::ev::Reporter;
use vcore::inp::*;
use vcore::world::*;

use crate::Ctx;

/// Document shapes built to tie on score and on sort values.
fn shapes() -> Vec<Value> {
  vec![
    json!({"body": "a", "kw": "x", "n": 1, "f": 1.0}),
    json!({"body": "a", "kw": "x", "n": 1, "f": 1.0}),
    json!({"body": "a b", "kw": "y", "n": 2, "f": 0.5}),
    json!({"body": "a", "n": [1, 2], "f": 2.5}),
    json!({"body": "b a", "kw": ["x", "y"], "f": [0.5, 2.5]}),
    json!({"body": "b", "kw": "y", "n": 2}),
  ]
}

fn sort_plans() -> Vec<Value> {
  vec![
    json!([]),
    json!([{"field": "_score", "order": "asc"}]),
    json!([{"field": "kw", "order": "asc"}]),
    json!([{"field": "kw", "order": "desc"}]),
    json!([{"field": "n", "order": "asc"}]),
    json!([{"field": "n", "order": "desc"}, {"field": "kw", "order": "asc"}]),
    json!([{"field": "f", "order": "desc"}, {"field": "_score", "order": "desc"}]),
    json!([{"field": "kw"}, {"field": "n", "order": "desc"}, {"field": "f", "order": "asc"}]),
  ]
}

fn queries() -> Vec<Value> {
  vec![json!("a"), json!({"type": "match_all"}), json!("a b")]
}

fn mk_world(shape_idx: &[usize], layout: &[usize]) -> World {
  let sh = shapes();
  let docs: Vec<Value> = shape_idx
    .iter()
    .enumerate()
    .map(|(i, s)| {
      let mut d = sh[*s].clone();
      d["_id"] = json!(id_of(i));
      d
    })
    .collect();
  World::new("text+kw+num", schema_text_kw_num(), docs).with_layout(layout.to_vec())
}

struct Case<'a> {
  world: &'a World,
  query: &'a Value,
  sort: &'a Value,
  exec: &'a str,
  page: usize,
}

impl Case<'_> {
  fn to_json(&self) -> Value {
    json!({"engine": "inputmc-paging", "world": self.world.to_json(), "query": self.query, "sort": self.sort, "execution": self.exec, "page_size": self.page})
  }
  fn req(&self, limit: usize, cursor: Option<&str>) -> Value {
    let mut r = json!({"query": self.query, "sort": self.sort, "execution": self.exec, "limit": limit});
    if let Some(c) = cursor {
      r["cursor"] = json!(c);
    }
    r
  }
}

/// Returns Err((signature, what)) on a violation; Ok(cursors collected) otherwise.
fn check_walk(idx: &searchlite_core::api::Index, c: &Case) -> Result<Vec<String>, (Option<&'static str>, String)> {
  let reader = idx.reader().map_err(|e| (None, format!("reader: {e:#}")))?;
  let n = c.world.docs.len();
  let full = search_caught(&reader, &req(c.req(n + 1, None))).map_err(|e| (None, format!("covering request failed: {e}")))?;
  if full.next_cursor.is_some() {
    return Err((None, format!("covering request (limit {}) still returns next_cursor", n + 1)));
  }
  let truth = id_scores(&full);
  let true_matches = truth.len() as u64;
  let mut walked: Vec<(String, f32)> = Vec::new();
  let mut cursors = Vec::new();
  let mut cursor: Option<String> = None;
  let mut pages = 0;
  loop {
    let res = search_caught(&reader, &req(c.req(c.page, cursor.as_deref()))).map_err(|e| (None, format!("page {pages} failed: {e}")))?;
    pages += 1;
    if res.total_hits_estimate > true_matches {
      return Err((None, format!("page {pages}: total_hits_estimate {} exceeds the true number of matches {true_matches}", res.total_hits_estimate)));
    }
    if c.exec == "bm25" && res.total_hits_estimate != true_matches {
      return Err((None, format!("page {pages}: exhaustive execution reports total_hits_estimate {} but {true_matches} documents match", res.total_hits_estimate)));
    }
    if res.hits.len() > c.page {
      return Err((None, format!("page {pages} has {} hits for limit {}", res.hits.len(), c.page)));
    }
    walked.extend(id_scores(&res));
    match res.next_cursor {
      Some(nc) => {
        if res.hits.is_empty() {
          return Err((None, format!("page {pages} is empty but has a next_cursor")));
        }
        cursors.push(nc.clone());
        cursor = Some(nc);
      }
      None => break,
    }
    if pages > n + 2 {
      return Err((None, format!("cursor walk does not terminate after {pages} pages")));
    }
  }
  let ids: Vec<&String> = walked.iter().map(|w| &w.0).collect();
  let uniq: HashSet<&String> = ids.iter().cloned().collect();
  if uniq.len() != ids.len() {
    return Err((None, format!("duplicate hit in cursor walk: {ids:?}")));
  }
  let same = walked.len() == truth.len() && walked.iter().zip(&truth).all(|(a, b)| a.0 == b.0 && approx(a.1, b.1, 1e-5));
  if !same {
    return Err((None, format!("paged walk {:?} differs from the single covering response {:?}", walked, truth)));
  }
  Ok(cursors)
}

/// Cursor misuse: each cursor must be rejected after a segment-adding commit, after compaction,
/// and under every other sort plan.
fn check_misuse(idx: &searchlite_core::api::Index, c: &Case, cursors: &[String], plans: &[Value]) -> Result<u64, (Option<&'static str>, String)> {
  let mut checked = 0;
  if cursors.is_empty() {
    return Ok(0);
  }
  {
    let reader = idx.reader().map_err(|e| (None, format!("reader: {e:#}")))?;
    for other in plans {
      if other == c.sort {
        continue;
      }
      // plans with the same effective keys are the same plan: skip [] vs explicit default
      for cur in cursors {
        let mut r = c.req(c.page, Some(cur));
        r["sort"] = other.clone();
        checked += 1;
        match search_caught(&reader, &req(r)) {
          Err(e) if e.starts_with("PANIC") => return Err((None, format!("cursor presented to sort plan {other} panicked: {e}"))),
          Err(_) => {}
          Ok(_) => return Err((None, format!("cursor obtained under sort {} was accepted under sort {other}", c.sort))),
        }
      }
    }
  }
  // (a) a commit that adds a segment
  {
    let mut w = idx.writer().map_err(|e| (None, format!("{e:#}")))?;
    w.add_document(&doc(&json!({"_id": "ZZ", "body": "a", "kw": "x", "n": 1, "f": 1.0}))).map_err(|e| (None, format!("{e:#}")))?;
    w.commit().map_err(|e| (None, format!("{e:#}")))?;
  }
  let reader = idx.reader().map_err(|e| (None, format!("reader: {e:#}")))?;
  for cur in cursors {
    checked += 1;
    match search_caught(&reader, &req(c.req(c.page, Some(cur)))) {
      Err(e) if e.starts_with("PANIC") => return Err((None, format!("stale cursor panicked: {e}"))),
      Err(_) => {}
      Ok(_) => return Err((None, "cursor from the previous index generation was accepted after a commit added a segment".into())),
    }
  }
  // (b) compaction
  let cur_after: Vec<String> = {
    let mut out = Vec::new();
    let mut cursor: Option<String> = None;
    for _ in 0..3 {
      match search_caught(&reader, &req(c.req(c.page, cursor.as_deref()))) {
        Ok(r) => match r.next_cursor {
          Some(nc) => {
            out.push(nc.clone());
            cursor = Some(nc);
          }
          None => break,
        },
        Err(_) => break,
      }
    }
    out
  };
  if idx.manifest().segments.len() > 1 {
    idx.compact().map_err(|e| (None, format!("compact: {e:#}")))?;
    let reader2 = idx.reader().map_err(|e| (None, format!("reader: {e:#}")))?;
    for cur in &cur_after {
      checked += 1;
      match search_caught(&reader2, &req(c.req(c.page, Some(cur)))) {
        Err(e) if e.starts_with("PANIC") => return Err((None, format!("stale cursor panicked after compaction: {e}"))),
        Err(_) => {}
        Ok(_) => return Err((None, "cursor obtained before compaction was accepted afterwards".into())),
      }
    }
  }
  Ok(checked)
}

fn plan_uses_score(plan: &Value) -> bool {
  match plan.as_array() {
    Some(a) if !a.is_empty() => a.iter().any(|k| k["field"] == "_score"),
    _ => true, // the default plan is _score desc
  }
}

/// A delete-only commit keeps the index generation, so a cursor obtained before it is still valid
/// afterwards. Under a sort plan without `_score` (keys do not depend on corpus statistics) a
/// reader opened after the commit must either reject the cursor or continue with exactly the
/// surviving documents that followed it - never skip or repeat one.
fn check_carry_over(c: &Case) -> Result<u64, (Option<&'static str>, String)> {
  let world = c.world;
  let n = world.docs.len();
  let mut seg_ids: Vec<Vec<String>> = Vec::new();
  let mut next = 0usize;
  for &len in &world.layout {
    seg_ids.push((next..next + len).map(id_of).collect());
    next += len;
  }
  let mut variants: Vec<(String, Vec<String>)> = Vec::new();
  if seg_ids.len() >= 2 {
    variants.push(("every document of the first segment".into(), seg_ids[0].clone()));
    variants.push(("every document of the last segment".into(), seg_ids[seg_ids.len() - 1].clone()));
    if seg_ids.len() >= 3 {
      variants.push(("every document of the second segment".into(), seg_ids[1].clone()));
    }
  }
  variants.push(("the first document".into(), vec![id_of(0)]));
  let mut checked = 0;
  for (what, victims) in variants {
    let idx = world.build();
    let reader = idx.reader().map_err(|e| (None, format!("reader: {e:#}")))?;
    let full = search_caught(&reader, &req(c.req(n + 1, None))).map_err(|e| (None, format!("covering request failed: {e}")))?;
    let order: Vec<String> = full.hits.iter().map(|h| h.doc_id.clone()).collect();
    // walk: cursor k stands behind the first (k+1)*page hits
    let mut cursors: Vec<(String, usize)> = Vec::new();
    let mut cursor: Option<String> = None;
    let mut seen = 0usize;
    for _ in 0..n + 2 {
      let res = search_caught(&reader, &req(c.req(c.page, cursor.as_deref()))).map_err(|e| (None, format!("walk failed: {e}")))?;
      seen += res.hits.len();
      match res.next_cursor {
        Some(nc) => {
          cursors.push((nc.clone(), seen));
          cursor = Some(nc);
        }
        None => break,
      }
    }
    drop(reader);
    {
      let mut w = idx.writer().map_err(|e| (None, format!("{e:#}")))?;
      w.delete_documents(&victims).map_err(|e| (None, format!("{e:#}")))?;
      w.commit().map_err(|e| (None, format!("{e:#}")))?;
    }
    let reader = idx.reader().map_err(|e| (None, format!("reader: {e:#}")))?;
    for (cur, pos) in &cursors {
      checked += 1;
      let expected: Vec<&String> = order[*pos..].iter().filter(|id| !victims.contains(id)).collect();
      let mut got: Vec<String> = Vec::new();
      let mut cursor = Some(cur.clone());
      let mut rejected = false;
      for step in 0..n + 2 {
        match search_caught(&reader, &req(c.req(c.page, cursor.as_deref()))) {
          Err(e) if e.starts_with("PANIC") => return Err((None, format!("cursor replayed after a delete-only commit ({what}) panicked: {e}"))),
          Err(_) if step == 0 => {
            rejected = true;
            break;
          }
          Err(e) => return Err((None, format!("walk continued after a delete-only commit ({what}) failed on a later page: {e}"))),
          Ok(r) => {
            got.extend(r.hits.iter().map(|h| h.doc_id.clone()));
            match r.next_cursor {
              Some(nc) => cursor = Some(nc),
              None => break,
            }
          }
        }
      }
      if rejected {
        continue;
      }
      if got.iter().collect::<Vec<_>>() != expected {
        return Err((
          None,
          format!(
            "a delete-only commit removed {what} ({victims:?}); the cursor behind the first {pos} hits of {order:?} was accepted by a reader opened afterwards and the walk continued with {got:?}, but the surviving documents behind it are {expected:?}"
          ),
        ));
      }
    }
  }
  Ok(checked)
}

pub fn run(ctx: &Ctx) -> i32 {
  let mut rep = Reporter::new("C11", ctx.tier, "exploration");
  let quick = ctx.tier.is_quick();
  if let Some(path) = &ctx.replay {
    rep.set_replaying(true);
    let v: Value = serde_json::from_slice(&std::fs::read(path).expect("replay file")).expect("json");
    let cs = &v["case"];
    let world = World::from_json(&cs["world"]);
    let exec = cs["execution"].as_str().unwrap_or("bm25").to_string();
    let c = Case { world: &world, query: &cs["query"], sort: &cs["sort"], exec: &exec, page: cs["page_size"].as_u64().unwrap_or(1) as usize };
    let run = || {
      let idx = world.build();
      match check_walk(&idx, &c) {
        Err(e) => Some(e.1),
        Ok(cur) => check_misuse(&idx, &c, &cur, &sort_plans())
          .err()
          .map(|e| e.1)
          .or_else(|| if plan_uses_score(c.sort) { None } else { check_carry_over(&c).err().map(|e| e.1) }),
      }
    };
    let (a, b) = (run(), run());
    if a.is_some() != b.is_some() {
      vcore::ev::machinery_failure("NONDETERMINISM on replay");
    }
    return match a {
      Some(w) => {
        println!("VIOLATION property=C11 replay={path}\n  what: {w}");
        1
      }
      None => {
        println!("replay: no violation");
        0
      }
    };
  }
  let n_docs: Vec<usize> = if quick { vec![4] } else { vec![3, 4, 5, 6] };
  let nshapes = shapes().len();
  let mut worlds: Vec<World> = Vec::new();
  for &n in &n_docs {
    let combos: Vec<Vec<usize>> = if quick {
      // every multiset of shapes of size n (126 for n = 4)
      multisets(nshapes, n)
    } else {
      multisets(nshapes, n)
    };
    for combo in combos {
      let layouts = compositions(n);
      for lay in layouts {
        if quick && lay.len() > 3 {
          continue;
        }
        worlds.push(mk_world(&combo, &lay));
      }
    }
  }
  // family B: many tied hits spread over several segments, so that one request merges more than
  // 20 candidates (segments x (page size + 1)) - small-slice sorts hide unstable merges
  for (n, lay) in [(24usize, vec![6usize, 6, 6, 6]), (24, vec![8, 8, 8]), (24, vec![12, 12]), (22, vec![22])] {
    let idx: Vec<usize> = (0..n).map(|i| [0usize, 1, 2][i % 3]).collect();
    worlds.push(mk_world(&idx, &lay));
    if !quick {
      let idx2: Vec<usize> = (0..n).map(|i| [0usize, 3, 4, 5][i % 4]).collect();
      worlds.push(mk_world(&idx2, &lay));
    }
  }
  let plans = sort_plans();
  let qs = queries();
  let execs = ["bm25", "wand", "bmw"];
  let evals = AtomicU64::new(0);
  let nontrivial = AtomicU64::new(0);
  let misuse = AtomicU64::new(0);
  let carried = AtomicU64::new(0);
  let outcomes: Mutex<HashSet<String>> = Mutex::new(HashSet::new());
  let deadline = if quick { 40.0 } else { 1500.0 };
  let timed_out = std::sync::atomic::AtomicBool::new(false);
  worlds.par_iter().for_each(|world| {
    if rep.elapsed_s() > deadline {
      timed_out.store(true, Ordering::Relaxed);
      return;
    }
    let idx = world.build();
    let n = world.docs.len();
    for (qi, q) in qs.iter().enumerate() {
      for (pi, plan) in plans.iter().enumerate() {
        for exec in execs {
          for page in 1..=n.min(7) {
            let c = Case { world, query: q, sort: plan, exec, page };
            evals.fetch_add(1, Ordering::Relaxed);
            match check_walk(&idx, &c) {
              Err((sig, what)) => rep.fail(sig, &format!("{} q={} sort={} exec={} page={}: {}", world.describe(), q, plan, exec, page, what), c.to_json()),
              Ok(cursors) => {
                if cursors.len() >= 2 {
                  nontrivial.fetch_add(1, Ordering::Relaxed);
                  rep.sample(json!({"world": world.describe(), "query": q, "sort": plan, "execution": exec, "page_size": page, "pages": cursors.len() + 1}));
                }
                outcomes.lock().insert(format!("{}pages", cursors.len() + 1));
                // misuse on a private copy of the index (it mutates), for a reduced slice
                if exec == "bm25" && page <= 2 && (qi == 0 || pi % 3 == 0) && !cursors.is_empty() {
                  let idx2 = world.build();
                  match check_misuse(&idx2, &c, &cursors, &plans) {
                    Err((sig, what)) => rep.fail(sig, &format!("{} q={} sort={} page={}: {}", world.describe(), q, plan, page, what), c.to_json()),
                    Ok(k) => {
                      misuse.fetch_add(k, Ordering::Relaxed);
                    }
                  }
                  if !plan_uses_score(plan) {
                    match check_carry_over(&c) {
                      Err((sig, what)) => rep.fail(sig, &format!("{} q={} sort={} page={}: {}", world.describe(), q, plan, page, what), c.to_json()),
                      Ok(k) => {
                        carried.fetch_add(k, Ordering::Relaxed);
                      }
                    }
                  }
                }
              }
            }
          }
        }
      }
    }
  });
  rep.add_evals(evals.load(Ordering::Relaxed));
  let to = timed_out.load(Ordering::Relaxed);
  let cov = vcore::cov! {
    "distinct_nontrivial" => nontrivial.load(Ordering::Relaxed),
    "rule" => "worlds = every multiset of n tie-prone document shapes (equal texts, equal / missing / multi-valued sort values) x every segment layout; cases = world x 3 queries x 8 sort plans x {bm25,wand,bmw} x page size 1..n; a case is non-trivial when its cursor walk has at least 3 pages. Oracle: concatenated pages = one limit n+1 response (ids, order, scores), no duplicate, last page has no next_cursor, total_hits_estimate <= true matches (== for bm25); every cursor is rejected (Err, not panic) under every other sort plan, after a commit that adds a segment and after compaction.",
    "worlds" => worlds.len(),
    "doc_counts" => n_docs,
    "large_tie_worlds" => "24 / 22 documents cycling over tie-prone shapes in layouts [6,6,6,6], [8,8,8], [12,12], [22]",
    "cursor_misuse_presentations" => misuse.load(Ordering::Relaxed),
    "cursors_carried_over_a_delete_only_commit" => carried.load(Ordering::Relaxed),
    "carry_over_rule" => "for sort plans without _score (same reduced slice as the misuse checks): every cursor of the walk is replayed on a reader opened after a delete-only commit that removes every document of the first / last / second segment, or the first document; it must be rejected, or the continued walk must return exactly the surviving documents that followed the cursor",
    "distinct_observed_outcomes" => outcomes.lock().len(),
    "cap_hit" => if to { Some(format!("wall budget {deadline}s")) } else { None },
    "exhaustive" => !to,
  };
  rep.finish(
    cov,
    vec![
      "cursors re-used after a delete-only commit are not required to be rejected (the index generation is unchanged); under sort plans without _score they must then continue correctly; under plans with _score nothing is demanded, because deletions change the corpus statistics the scores depend on".into(),
    ],
  )
}
