//! C19 — rescoring only affects the rescore window.
//! Engine: inputmc rescore — C09 worlds x 4 initial queries x 5 rescore queries (term, phrase,
//! two function_score with min_score, non-matching) x window_size 0..limit+5 x 5 score modes x
//! limit in {2,3,n}. The expected response is computed from the complete un-rescored ranking and the
//! rescore query's own scores (separate exhaustive searches).

use std::collections::{BTreeMap, BTreeSet, HashSet};
use std::sync::atomic::{AtomicBool, AtomicU64, Ordering};

use parking_lot::Mutex;
use serde_json::{json, Value};

use searchlite_core::api::IndexReader;
use vcore::ev::Reporter;
use vcore::inp::*;
use vcore::world::*;

use crate::c09::{self, FailLog, WorldInfo, TOL};
use crate::Ctx;

pub const SIG_H19: &str = "C19-resort-window-not-shrunk-after-min-score-rejects";

const MODES: [&str; 5] = ["total", "multiply", "sum", "max", "min"];

fn initial_queries() -> Vec<Value> {
  vec![
    json!("a"),
    json!("a b c"),
    json!({"type": "match_all"}),
    json!({"type": "bool", "must": [{"type": "term", "field": "body", "value": "a"}], "should": [{"type": "term", "field": "body", "value": "b"}]}),
  ]
}

/// (rescore query, the same query without its min_score — None when it has none)
fn rescore_queries() -> Vec<(Value, Option<Value>)> {
  let fs = |weight: f64, min: Option<f64>| {
    let mut q = json!({"type": "function_score", "query": {"type": "query_string", "query": "b"}, "boost_mode": "multiply",
      "functions": [{"type": "weight", "weight": weight}]});
    if let Some(m) = min {
      q["min_score"] = json!(m);
    }
    q
  };
  vec![
    (json!({"type": "term", "field": "body", "value": "b"}), None),
    (json!({"type": "phrase", "field": "body", "terms": ["a", "b"]}), None),
    // survivors score >= 1.5: combined scores can only grow (except mode min)
    (fs(2.0, Some(1.5)), Some(fs(2.0, None))),
    // survivors score in [0.45, ~0.8]: `multiply` and `min` lower the score of a rescored hit
    (fs(0.5, Some(0.45)), Some(fs(0.5, None))),
    (json!({"type": "term", "field": "body", "value": "zzz"}), None),
  ]
}

// --- long-postings family: one segment holds more than 128 / 256 postings of the rescore term, so
// that window hits sit at every position of a long posting list (block boundaries included).

/// Document i: `x` (tf 1 or 2: two original-score classes), the rescore term `r` (tf 1..3) unless
/// i is in `skip`, and the sparse second rescore term `q` in every 7th document.
fn long_world(n: usize, layout: &[usize], skip: &[usize]) -> World {
  let docs: Vec<Value> = (0..n)
    .map(|i| {
      let mut words: Vec<&str> = vec!["x"; 1 + i % 2];
      if !skip.contains(&i) {
        words.extend(std::iter::repeat("r").take(1 + i % 3));
      }
      if i % 7 == 0 {
        words.push("q");
      }
      json!({"_id": format!("d{i:03}"), "body": words.join(" "), "pop": 1 + (i % 3)})
    })
    .collect();
  World::new("body+kw+pop+n+f", c09::schema_json(), docs).with_layout(layout.to_vec())
}

fn long_worlds() -> Vec<World> {
  let mut out = Vec::new();
  for skip in [&[][..], &[5, 200][..]] {
    for n in [130usize, 256, 257, 300] {
      out.push(long_world(n, &[n], skip));
    }
    out.push(long_world(300, &[200, 100], skip));
  }
  out
}

/// constant score for every document (ranking = document order) and a term with two score classes
fn long_initial_queries() -> Vec<Value> {
  vec![
    json!({"type": "constant_score", "filter": {"I64Range": {"field": "pop", "min": 0, "max": 1000}}}),
    json!({"type": "term", "field": "body", "value": "x"}),
  ]
}

fn long_rescore_queries() -> Vec<(Value, Option<Value>)> {
  vec![(json!({"type": "term", "field": "body", "value": "r"}), None), (json!({"type": "query_string", "query": "r q"}), None)]
}

/// windows ending just before / at / after the 128th and 256th hit, a small one, and everything
fn long_windows(n: usize) -> Vec<usize> {
  let mut w: Vec<usize> = vec![5, 127, 128, 129, 130, 255, 256, 257, 258, n, n + 5].into_iter().filter(|w| *w <= n + 5).collect();
  w.sort();
  w.dedup();
  w
}

fn combine(mode: &str, orig: f32, resc: f32) -> f32 {
  match mode {
    "total" | "sum" => orig + resc,
    "multiply" => orig * resc,
    "max" => orig.max(resc),
    _ => orig.min(resc),
  }
}

type Hits = Vec<(String, f32)>;

fn ranked(reader: &IndexReader, r: Value) -> Result<Hits, String> {
  search_caught(reader, &req(r)).map(|res| id_scores(&res))
}

/// Everything about one (world, initial query, rescore query) that does not depend on
/// window / mode / limit.
struct Base {
  full: Hits,                     // complete un-rescored ranking
  own: BTreeMap<String, f32>,     // the rescore query's own score per matching document
  rejects: BTreeSet<String>,      // match the rescore query's inner query but fall below its min_score
}

fn base(reader: &IndexReader, init: &Value, resc: &(Value, Option<Value>)) -> Result<Base, String> {
  let full = ranked(reader, json!({"query": init, "limit": 1000, "execution": "bm25"}))?;
  let own: BTreeMap<String, f32> = ranked(reader, json!({"query": resc.0, "limit": 1000, "execution": "bm25"}))?.into_iter().collect();
  let mut rejects = BTreeSet::new();
  if let Some(nomin) = &resc.1 {
    for (id, _) in ranked(reader, json!({"query": nomin, "limit": 1000, "execution": "bm25"}))? {
      if !own.contains_key(&id) {
        rejects.insert(id);
      }
    }
  }
  Ok(Base { full, own, rejects })
}

fn pos_key(info: &WorldInfo, id: &str) -> (usize, usize) {
  info.locate(id).unwrap_or((usize::MAX, usize::MAX))
}

fn sort_window(info: &WorldInfo, w: &mut [(String, f32)]) {
  w.sort_by(|a, b| b.1.total_cmp(&a.1).then_with(|| pos_key(info, &a.0).cmp(&pos_key(info, &b.0))));
}

/// The documented outcome on the candidate list `cand`: the first min(window, |cand|) hits minus
/// min_score rejects are rescored (documents the rescore query does not match keep their score) and
/// sorted by the new score (ties: segment, ordinal); everything after stays as it was.
fn expected(info: &WorldInfo, b: &Base, cand: &[(String, f32)], window: usize, mode: &str) -> (Hits, usize) {
  let w = window.min(cand.len());
  let mut head: Hits = Vec::new();
  let mut rejected = 0;
  for (id, sc) in &cand[..w] {
    if b.rejects.contains(id) {
      rejected += 1;
      continue;
    }
    let ns = match b.own.get(id) {
      Some(r) => combine(mode, *sc, *r),
      None => *sc,
    };
    head.push((id.clone(), ns));
  }
  sort_window(info, &mut head);
  head.extend(cand[w..].iter().cloned());
  (head, rejected)
}

/// What the H19 defect produces: after removing the rejects the engine sorts the first
/// min(window, remaining) hits of the *shrunk* list, pulling hits from behind the window into it.
fn h19_model(info: &WorldInfo, b: &Base, cand: &[(String, f32)], window: usize, mode: &str, limit: usize) -> Hits {
  let w = window.min(cand.len());
  let mut list: Hits = Vec::new();
  for (i, (id, sc)) in cand.iter().enumerate() {
    if i < w {
      if b.rejects.contains(id) {
        continue;
      }
      let ns = match b.own.get(id) {
        Some(r) => combine(mode, *sc, *r),
        None => *sc,
      };
      list.push((id.clone(), ns));
    } else {
      list.push((id.clone(), *sc));
    }
  }
  let sw = window.min(list.len());
  sort_window(info, &mut list[..sw]);
  list.truncate(limit);
  list
}

/// `got` must be `want[..got.len()]`: ids in order and scores within TOL; hits whose scores are
/// within TOL of each other may swap (near-tie class), bit-identical scores may not.
fn prefix_matches(got: &[(String, f32)], want: &[(String, f32)]) -> Result<(), String> {
  if got.len() > want.len() {
    return Err(format!("{} hits returned, at most {} expected", got.len(), want.len()));
  }
  let mut seen = HashSet::new();
  for (i, (id, sc)) in got.iter().enumerate() {
    if !seen.insert(id) {
      return Err(format!("{id} returned twice"));
    }
    let (wid, wsc) = &want[i];
    if !approx(*sc, *wsc, TOL) {
      return Err(format!("rank {} holds {id} with score {sc}, expected {wid} with score {wsc}", i + 1));
    }
    if id != wid {
      // near-tie permutation: the same document must be expected with (nearly) this score, and the
      // two scores must not be bit-identical (exact ties have a fixed order)
      match want.iter().find(|w| &w.0 == id) {
        Some(w) if approx(w.1, *sc, TOL) && w.1.to_bits() != wsc.to_bits() => {}
        _ => return Err(format!("rank {} holds {id} (score {sc}), expected {wid} (score {wsc})", i + 1)),
      }
    }
  }
  Ok(())
}

/// Failure texts of the long-postings family list hundreds of hits: the reason first, then the
/// head of the listing.
fn explain_first_difference(head: &str, full: &str) -> String {
  match full.rfind(": ") {
    Some(p) => format!("{} [{head} ...]", &full[p + 2..]),
    None => full.to_string(),
  }
}

#[derive(Clone)]
struct Case<'a> {
  init: &'a Value,
  resc: &'a (Value, Option<Value>),
  window: usize,
  mode: &'a str,
  limit: usize,
}

impl Case<'_> {
  fn to_json(&self, world: &World) -> Value {
    json!({"engine": "inputmc-rescore", "world": world.to_json(), "query": self.init, "rescore_query": self.resc.0, "rescore_query_without_min_score": self.resc.1,
      "window_size": self.window, "score_mode": self.mode, "limit": self.limit})
  }
}

enum Outcome {
  Held { rescored_in_window: usize, rejected: usize, reordered: bool, refill_skipped_a_hit: bool },
  NotJudged,
  Fail(Option<&'static str>, String),
}

fn check_case(reader: &IndexReader, info: &WorldInfo, b: &Base, c: &Case) -> Outcome {
  let got = match ranked(reader, json!({"query": c.init, "limit": c.limit, "execution": "bm25",
    "rescore": {"window_size": c.window, "query": c.resc.0, "score_mode": c.mode}}))
  {
    Ok(g) => g,
    Err(e) => return Outcome::Fail(None, format!("rescored search failed: {e}")),
  };
  // The engine rescans a candidate pool of limit+1 hits. Whether hits ranked below the pool take
  // part in a window that reaches beyond it is not documented: judged only when the window lies
  // inside the page or the page holds every match.
  if !(c.window <= c.limit || b.full.len() <= c.limit) {
    return Outcome::NotJudged;
  }
  let (want, rejected) = expected(info, b, &b.full, c.window, c.mode);
  let w = c.window.min(b.full.len());
  let head_len = w - rejected; // rescored window, sorted
  let verdict = (|| -> Result<bool, String> {
    // (1) the head of the response is the rescored, re-sorted window
    let k = head_len.min(got.len());
    prefix_matches(&got[..k], &want[..head_len])?;
    if got.len() < head_len.min(c.limit) {
      return Err(format!("{} hits returned but the rescored window alone holds {}", got.len(), head_len));
    }
    // (2) whatever follows are hits from behind the window: original scores, original relative order
    let tail = &got[k..];
    let behind = &b.full[w..];
    let mut pos = 0usize;
    let mut contiguous = true;
    for (id, sc) in tail {
      match behind[pos..].iter().position(|h| &h.0 == id) {
        Some(off) => {
          if off != 0 {
            contiguous = false;
          }
          let h = &behind[pos + off];
          if !approx(h.1, *sc, TOL) {
            return Err(format!("{id} lies behind the window but its score changed from {} to {sc}", h.1));
          }
          pos += off + 1;
        }
        None => {
          return Err(format!(
            "{id} (score {sc}) follows the rescored window in the response, but it is not one of the hits behind the window in their original order {:?}",
            behind
          ))
        }
      }
    }
    // (3) page length: rejects may or may not be refilled from behind the candidate pool
    let max_len = c.limit.min(want.len());
    let min_len = max_len.saturating_sub(rejected);
    if got.len() < min_len || got.len() > max_len {
      return Err(format!("{} hits returned, expected between {min_len} and {max_len}", got.len()));
    }
    Ok(contiguous)
  })();
  match verdict {
    Ok(contiguous) => {
      let rescored = b.full[..w].iter().filter(|h| b.own.contains_key(&h.0) && !b.rejects.contains(&h.0)).count();
      let orig_order: Vec<&String> = b.full[..w].iter().filter(|h| !b.rejects.contains(&h.0)).map(|h| &h.0).collect();
      let new_order: Vec<&String> = want[..orig_order.len()].iter().map(|h| &h.0).collect();
      let reordered = orig_order != new_order;
      Outcome::Held { rescored_in_window: rescored, rejected, reordered, refill_skipped_a_hit: !contiguous }
    }
    Err(why) => {
      // H19 classifier: at least one hit of the window was rejected, and the response is exactly
      // what sorting the first min(window, remaining) hits of the *shrunk* list produces. The list
      // the engine works on is the union of every segment's top limit+1 hits.
      let mut per_seg: BTreeMap<usize, usize> = BTreeMap::new();
      let pool: Hits = b
        .full
        .iter()
        .filter(|h| {
          let seg = pos_key(info, &h.0).0;
          let n = per_seg.entry(seg).or_insert(0);
          *n += 1;
          *n <= c.limit + 1
        })
        .cloned()
        .collect();
      let model = h19_model(info, b, &pool, c.window, c.mode, c.limit);
      let sig = if rejected >= 1 && model.len() == got.len() && model.iter().zip(&got).all(|(m, g)| m.0 == g.0 && approx(m.1, g.1, TOL)) {
        Some(SIG_H19)
      } else {
        None
      };
      Outcome::Fail(
        sig,
        format!(
          "un-rescored ranking {:?}; rescore query scores {:?}; rejected by its min_score {:?}; response {:?}; expected (window = first {w} hits) {:?}: {why}",
          b.full,
          b.own,
          b.rejects,
          got,
          &want[..want.len().min(c.limit)]
        ),
      )
    }
  }
}

pub fn run(ctx: &Ctx) -> i32 {
  let mut rep = Reporter::new("C19", ctx.tier, "exploration");
  let quick = ctx.tier.is_quick();
  if let Some(path) = &ctx.replay {
    rep.set_replaying(true);
    let v: Value = serde_json::from_slice(&std::fs::read(path).expect("replay file")).expect("json");
    let cs = &v["case"];
    let world = World::from_json(&cs["world"]);
    let resc = (cs["rescore_query"].clone(), if cs["rescore_query_without_min_score"].is_null() { None } else { Some(cs["rescore_query_without_min_score"].clone()) });
    let mode = cs["score_mode"].as_str().unwrap_or("total").to_string();
    let c = Case { init: &cs["query"], resc: &resc, window: cs["window_size"].as_u64().unwrap_or(0) as usize, mode: &mode, limit: cs["limit"].as_u64().unwrap_or(2) as usize };
    let run1 = || {
      let idx = world.build();
      let reader = idx.reader().expect("reader");
      let info = WorldInfo::new(&world);
      let b = match base(&reader, c.init, c.resc) {
        Ok(b) => b,
        Err(e) => return Some(format!("reference searches failed: {e}")),
      };
      match check_case(&reader, &info, &b, &c) {
        Outcome::Fail(sig, what) => Some(format!("[{}] {}", sig.unwrap_or("-"), what)),
        _ => None,
      }
    };
    let (a, b) = (run1(), run1());
    if a.is_some() != b.is_some() {
      vcore::ev::machinery_failure("NONDETERMINISM on replay");
    }
    return match a {
      Some(w) => {
        println!("VIOLATION property=C19 replay={path}\n  what: {w}");
        1
      }
      None => {
        println!("replay: no violation");
        0
      }
    };
  }

  let ws = if quick { c09::worlds(3, &[], false) } else { c09::worlds(5, &[6], false) };
  let inits = initial_queries();
  let rescs = rescore_queries();
  let deadline = c09::budget(if quick { 30.0 } else { 840.0 });
  let log = FailLog::new();
  let evals = AtomicU64::new(0);
  let nontrivial = AtomicU64::new(0);
  let not_judged = AtomicU64::new(0);
  let with_rejects = AtomicU64::new(0);
  let refill_skips = AtomicU64::new(0);
  let worlds_done = AtomicU64::new(0);
  let timed_out = AtomicBool::new(false);
  let outcomes: Mutex<BTreeSet<String>> = Mutex::new(BTreeSet::new());
  // ---- long-postings family (run first, own budget)
  let ws_l = long_worlds();
  let inits_l = long_initial_queries();
  let rescs_l = long_rescore_queries();
  let deadline_l = c09::budget(if quick { 15.0 } else { 120.0 });
  let long_cases = AtomicU64::new(0);
  let long_window_hits = AtomicU64::new(0);
  let (done_l, capped_l) = c09::par_sweep(&ws_l, &rep, deadline_l, |wi, world| {
    let idx = world.build();
    let reader = idx.reader().expect("reader");
    let info = WorldInfo::new(world);
    let n = world.docs.len();
    let mut local: BTreeSet<String> = BTreeSet::new();
    for (ii, init) in inits_l.iter().enumerate() {
      for (ri, resc) in rescs_l.iter().enumerate() {
        let b = match base(&reader, init, resc) {
          Ok(b) => b,
          Err(e) => {
            log.add(None, vec![0, wi as u64, ii as u64, ri as u64], || format!("{} documents, layout {:?} q={} rescore={}: reference searches failed: {e}", n, world.layout, init, resc.0), || json!({"engine": "inputmc-rescore/long", "world": world.to_json(), "query": init, "rescore_query": resc.0}));
            continue;
          }
        };
        for (wx, window) in long_windows(n).into_iter().enumerate() {
          for (mi, mode) in MODES.iter().enumerate() {
            let c = Case { init, resc, window, mode, limit: n };
            evals.fetch_add(1, Ordering::Relaxed);
            long_cases.fetch_add(1, Ordering::Relaxed);
            match check_case(&reader, &info, &b, &c) {
              Outcome::NotJudged => {
                not_judged.fetch_add(1, Ordering::Relaxed);
              }
              Outcome::Held { rescored_in_window, rejected, reordered, .. } => {
                if rescored_in_window >= 1 {
                  nontrivial.fetch_add(1, Ordering::Relaxed);
                  long_window_hits.fetch_add(rescored_in_window as u64, Ordering::Relaxed);
                }
                local.insert(format!("long-postings: held rescored{} rejected{} {}", if rescored_in_window > 128 { ">128" } else if rescored_in_window > 0 { "1..128" } else { "0" }, rejected.min(1), if reordered { "reordered" } else { "order-kept" }));
              }
              Outcome::Fail(sig, what) => {
                local.insert(format!("long-postings: violation[{}]", sig.unwrap_or("-")));
                let short: String = what.chars().take(600).collect();
                log.add(
                  sig,
                  vec![0, wi as u64, ii as u64, ri as u64, wx as u64, mi as u64],
                  || format!("{} documents d000.. (doc i: x^(1+i%2), r^(1+i%3){}, q if i%7=0), layout {:?} q={} rescore={{window_size:{}, score_mode:{}, query:{}}} limit={}: {}", n, if world.docs[5]["body"].as_str().unwrap_or("").contains('r') { "" } else { " except docs 5 and 200" }, world.layout, init, window, mode, resc.0, n, explain_first_difference(&short, &what)),
                  || c.to_json(world),
                );
              }
            }
          }
        }
      }
    }
    outcomes.lock().extend(local);
  });

  let (done, capped) = c09::par_sweep(&ws, &rep, deadline, |wi, world| {
    let idx = world.build();
    let reader = idx.reader().expect("reader");
    let info = WorldInfo::new(world);
    let n = world.docs.len();
    let mut limits: Vec<usize> = vec![2, 3, n];
    limits.sort();
    limits.dedup();
    let mut local: BTreeSet<String> = BTreeSet::new();
    for (ii, init) in inits.iter().enumerate() {
      for (ri, resc) in rescs.iter().enumerate() {
        let b = match base(&reader, init, resc) {
          Ok(b) => b,
          Err(e) => {
            log.add(None, vec![1, wi as u64, ii as u64, ri as u64], || format!("{} q={} rescore={}: reference searches failed: {e}", world.describe(), init, resc.0), || json!({"engine": "inputmc-rescore", "world": world.to_json(), "query": init, "rescore_query": resc.0}));
            continue;
          }
        };
        for (li, &limit) in limits.iter().enumerate() {
          for window in 0..=limit + 5 {
            for (mi, mode) in MODES.iter().enumerate() {
              let c = Case { init, resc, window, mode, limit };
              evals.fetch_add(1, Ordering::Relaxed);
              match check_case(&reader, &info, &b, &c) {
                Outcome::NotJudged => {
                  not_judged.fetch_add(1, Ordering::Relaxed);
                  local.insert("not-judged (window reaches beyond the candidate pool)".into());
                }
                Outcome::Held { rescored_in_window, rejected, reordered, refill_skipped_a_hit } => {
                  if refill_skipped_a_hit {
                    refill_skips.fetch_add(1, Ordering::Relaxed);
                    local.insert("held, but the page was refilled skipping a higher-ranked hit (per-segment candidate pools)".into());
                  }
                  if rescored_in_window >= 1 || rejected >= 1 {
                    nontrivial.fetch_add(1, Ordering::Relaxed);
                    if !rep.sample_full() && reordered && rejected >= 1 {
                      rep.sample(json!({"world": world.describe(), "query": init, "rescore_query": resc.0, "window_size": window, "score_mode": mode, "limit": limit, "rescored_in_window": rescored_in_window, "rejected": rejected}));
                    }
                  }
                  if rejected >= 1 {
                    with_rejects.fetch_add(1, Ordering::Relaxed);
                  }
                  local.insert(format!("held: rescored{} rejected{} {}", rescored_in_window.min(2), rejected.min(2), if reordered { "reordered" } else { "order-kept" }));
                }
                Outcome::Fail(sig, what) => {
                  local.insert(format!("violation[{}]", sig.unwrap_or("-")));
                  log.add(sig, vec![1, wi as u64, ii as u64, ri as u64, li as u64, window as u64, mi as u64], || format!("{} q={} rescore={{window_size:{}, score_mode:{}, query:{}}} limit={}: {}", world.describe(), init, window, mode, resc.0, limit, what), || c.to_json(world));
                }
              }
            }
          }
        }
      }
    }
    outcomes.lock().extend(local);
  });
  worlds_done.store(done, Ordering::Relaxed);
  timed_out.store(capped || capped_l, Ordering::Relaxed);
  log.flush(&rep);
  rep.add_evals(evals.load(Ordering::Relaxed));
  let to = timed_out.load(Ordering::Relaxed);
  let outs = outcomes.lock().clone();
  if outs.len() < 2 {
    vcore::ev::machinery_failure("C19: fewer than two distinct outcomes observed (vacuous)");
  }
  let cov = vcore::cov! {
    "distinct_nontrivial" => nontrivial.load(Ordering::Relaxed),
    "rule" => "a judged (world, initial query, rescore query, window, mode, limit) case is non-trivial when at least one hit of the window is matched by the rescore query (its score must change by the mode formula) or rejected by its min_score",
    "worlds" => ws.len(),
    "worlds_completed" => worlds_done.load(Ordering::Relaxed),
    "long_postings_family" => json!({"worlds": ws_l.len(), "worlds_completed": done_l, "world_space": "130, 256, 257, 300 documents in one segment and 300 documents as 200+100; the rescore term r in every document / in every document but 5 and 200 (posting index != doc id)", "initial_queries": inits_l, "rescore_queries": rescs_l.iter().map(|r| r.0.clone()).collect::<Vec<_>>(), "windows": "5, 127..130, 255..258, n, n+5 (those <= n+5)", "score_modes": MODES.to_vec(), "limit": "n", "cases": long_cases.load(Ordering::Relaxed), "window_hits_whose_combined_score_was_recomputed": long_window_hits.load(Ordering::Relaxed)}),
    "initial_queries" => inits,
    "rescore_queries" => rescs.iter().map(|r| r.0.clone()).collect::<Vec<_>>(),
    "windows" => "0..=limit+5",
    "score_modes" => MODES.to_vec(),
    "limits" => "{2, 3, n}",
    "cases_with_min_score_rejects_in_window" => with_rejects.load(Ordering::Relaxed),
    "cases_not_judged" => not_judged.load(Ordering::Relaxed),
    "observed_not_judged_refill_after_rejects_skips_a_higher_ranked_hit" => refill_skips.load(Ordering::Relaxed),
    "distinct_observed_outcomes" => outs.len(),
    "observed_outcomes" => outs.iter().cloned().collect::<Vec<_>>(),
    "failure_classes" => log.classes().iter().map(|(s, n)| json!({"signature": s, "cases": n})).collect::<Vec<_>>(),
    "cap_hit" => if to { Some(format!("wall budget {deadline}s")) } else { None },
    "exhaustive" => !to,
  };
  rep.finish(
    cov,
    vec![
      "the initial ranking is the complete un-rescored bm25 response; the rescore query's score of a document is its score in a separate exhaustive search for that query (a phrase scores 1.0 there)".into(),
      "a case is judged only when window_size <= limit or every match fits into the page: the engine rescans a candidate pool of limit+1 hits and the documentation (candidate_size) does not say whether lower-ranked hits take part in a larger window".into(),
      "after min_score rejects the page may be shorter than limit by up to the number of rejects, and the hits that refill it only have to be hits from behind the window in their original relative order with their original scores (the statement says no more); refills that skip a higher-ranked hit are counted, not failed".into(),
      "hits with scores within 1e-5 relative may swap; bit-identical scores must follow (segment, ordinal)".into(),
      "default sort, execution bm25, no deletions".into(),
    ],
  )
}
