//! C10 — hit order follows the sort spec, scores follow BM25 combined through the query tree.
//! Engine: inputmc score. Two exhaustive sweeps:
//!  (A) score sweep: C09 worlds x C09 scored trees x score-bearing sort plans x {bm25, wand}: every
//!      returned hit's score is recomputed independently (BM25 as pinned in query/bm25.rs with the
//!      segment's statistics, combined through the tree) and the order is checked;
//!  (B) sort sweep: worlds whose documents carry every combination of present / missing / multi-valued
//!      keyword, i64 and f64 sort values x every sequence of 1-3 sort keys over
//!      {_score, kw, n, f} x {asc, desc, default}: order of the returned hits, and the limited
//!      response must be the prefix of the unlimited one;
//!  (C) large-tie sweep: 24-64 documents in 1-3 classes of documents tied on every sort key, 1-3
//!      segments x every single-key plan + some multi-key plans x {plain term under bm25/wand/bmw,
//!      function_score, script_score, constant_score} x limit {1, 5, n}: every page is the prefix of
//!      the full response and tied hits come in (segment, ordinal) order.

use std::cmp::Ordering as O;
use std::collections::BTreeSet;
use std::sync::atomic::{AtomicBool, AtomicU64, Ordering};

use parking_lot::Mutex;
use serde_json::{json, Value};

use searchlite_core::api::IndexReader;
use vcore::ev::Reporter;
use vcore::inp::*;
use vcore::world::*;

use crate::c09::{self, FailLog, Sc, WorldInfo};
use crate::Ctx;

const SCORE_TOL: f64 = 1e-4;

// ---------------------------------------------------------------------------------------------
// Sort oracle

#[derive(Debug, Clone, PartialEq)]
enum SV {
  Score(f32),
  Str(String),
  I(i64),
  F(f64),
  Missing,
}

fn is_desc(key: &Value) -> bool {
  match key.get("order").and_then(|o| o.as_str()) {
    Some("desc") => true,
    Some("asc") => false,
    _ => key["field"].as_str() == Some("_score"), // default: ascending, descending for _score
  }
}

fn values_of(v: &Value) -> Vec<Value> {
  match v {
    Value::Null => vec![],
    Value::Array(a) => a.clone(),
    x => vec![x.clone()],
  }
}

/// Multi-valued: minimum for ascending, maximum for descending; absent: Missing.
fn sort_value(doc: &Value, field: &str, desc: bool, score: f32) -> SV {
  if field == "_score" {
    return SV::Score(score);
  }
  let vals = values_of(&doc[field]);
  if vals.is_empty() {
    return SV::Missing;
  }
  match field {
    "kw" => {
      let mut s: Vec<String> = vals.iter().filter_map(|x| x.as_str().map(|s| s.to_string())).collect();
      s.sort();
      SV::Str(if desc { s.last().unwrap().clone() } else { s[0].clone() })
    }
    "n" | "pop" => {
      let mut s: Vec<i64> = vals.iter().filter_map(|x| x.as_i64()).collect();
      s.sort();
      SV::I(if desc { *s.last().unwrap() } else { s[0] })
    }
    _ => {
      let mut s: Vec<f64> = vals.iter().filter_map(|x| x.as_f64()).collect();
      s.sort_by(|a, b| a.total_cmp(b));
      SV::F(if desc { *s.last().unwrap() } else { s[0] })
    }
  }
}

fn cmp_part(a: &SV, b: &SV, desc: bool) -> O {
  let nat = match (a, b) {
    (SV::Missing, SV::Missing) => return O::Equal,
    (SV::Missing, _) => return O::Greater, // missing last in both directions
    (_, SV::Missing) => return O::Less,
    (SV::Score(x), SV::Score(y)) => x.total_cmp(y),
    (SV::Str(x), SV::Str(y)) => x.cmp(y),
    (SV::I(x), SV::I(y)) => x.cmp(y),
    (SV::F(x), SV::F(y)) => x.total_cmp(y),
    _ => O::Equal,
  };
  if desc {
    nat.reverse()
  } else {
    nat
  }
}

struct Located<'a> {
  id: &'a str,
  score: f32,
  seg: usize,
  ord: usize,
  doc: &'a Value,
}

fn effective_plan(sort: &Value) -> Vec<Value> {
  let a = sort.as_array().cloned().unwrap_or_default();
  if a.is_empty() {
    vec![json!({"field": "_score"})]
  } else {
    a
  }
}

fn cmp_hits(a: &Located, b: &Located, plan: &[Value]) -> O {
  for k in plan {
    let f = k["field"].as_str().unwrap_or("");
    let d = is_desc(k);
    let o = cmp_part(&sort_value(a.doc, f, d, a.score), &sort_value(b.doc, f, d, b.score), d);
    if o != O::Equal {
      return o;
    }
  }
  (a.seg, a.ord).cmp(&(b.seg, b.ord))
}

/// Order obligation on the returned hits: strictly increasing under the plan + (segment, ordinal).
fn check_order(info: &WorldInfo, hits: &[(String, f32)], sort: &Value) -> Result<(), String> {
  let plan = effective_plan(sort);
  let mut loc: Vec<Located> = Vec::new();
  for (id, score) in hits {
    let Some((seg, ord)) = info.locate(id) else { return Err(format!("unknown document {id} returned")) };
    loc.push(Located { id, score: *score, seg, ord, doc: &info.segs[seg].docs[ord].json });
  }
  for w in loc.windows(2) {
    if cmp_hits(&w[0], &w[1], &plan) != O::Less {
      let show = |l: &Located| {
        let vals: Vec<String> = plan
          .iter()
          .map(|k| {
            let f = k["field"].as_str().unwrap_or("");
            format!("{:?}", sort_value(l.doc, f, is_desc(k), l.score))
          })
          .collect();
        format!("{}{{values [{}], segment {}, ordinal {}}}", l.id, vals.join(", "), l.seg, l.ord)
      };
      return Err(format!("{} is returned before {} although it sorts after it", show(&w[0]), show(&w[1])));
    }
  }
  Ok(())
}

// ---------------------------------------------------------------------------------------------
// Score obligation

enum ScoreJudgement {
  Ok { judged: usize, skipped: usize, multi_reading: usize },
  Bad(String),
}

fn check_scores(info: &WorldInfo, hits: &[(String, f32)], q: &Value) -> ScoreJudgement {
  let (mut judged, mut skipped, mut multi) = (0, 0, 0);
  for (id, score) in hits {
    let Some((seg, ord)) = info.locate(id) else { return ScoreJudgement::Bad(format!("unknown document {id} returned")) };
    match c09::oracle_score(info, seg, ord, q, 1.0) {
      Sc::Adm(vals) => {
        judged += 1;
        if vals.len() > 1 {
          multi += 1;
        }
        let s = *score as f64;
        let ok = vals.iter().any(|v| (v - s).abs() <= SCORE_TOL * v.abs().max(s.abs()).max(1e-6));
        if !ok {
          return ScoreJudgement::Bad(format!(
            "document {id} (segment {seg}: N={}, avgdl={:.4}, len={}, tf={:?}, df={:?}) has score {score}, expected {}",
            info.segs[seg].n,
            info.segs[seg].avgdl,
            info.segs[seg].docs[ord].len,
            info.segs[seg].docs[ord].tf,
            info.segs[seg].df,
            vals.iter().map(|v| format!("{v:.6}")).collect::<Vec<_>>().join(" or ")
          ));
        }
      }
      // returned although the oracle's matcher says no match: matching is C07's property
      Sc::NoMatch | Sc::NonScoring | Sc::Unknown => skipped += 1,
    }
  }
  ScoreJudgement::Ok { judged, skipped, multi_reading: multi }
}

// ---------------------------------------------------------------------------------------------
// Alphabets

fn score_sorts() -> Vec<Value> {
  vec![json!([]), json!([{"field": "_score", "order": "asc"}]), json!([{"field": "pop", "order": "desc"}, {"field": "_score"}])]
}

/// Sort-value shapes: present / missing / multi-valued, built to tie (v0 ties v3 ascending, v4 ties
/// v3 descending, v5 is partially missing).
fn sort_shapes() -> Vec<Value> {
  vec![
    json!({"kw": "x", "n": 1, "f": 0.5}),
    json!({"kw": "y", "n": 2, "f": 1.5}),
    json!({}),
    json!({"kw": ["x", "z"], "n": [1, 3], "f": [0.5, 2.5]}),
    json!({"kw": "z", "n": 3, "f": 2.5}),
    json!({"kw": "y", "f": -1.5}),
  ]
}

const SORT_BODIES: [[&str; 4]; 2] = [["a", "a a b", "b", "a b"], ["a b", "a", "a", "b c"]];

fn sort_world(shape_idx: &[usize], body_variant: usize, layout: &[usize]) -> World {
  let sh = sort_shapes();
  let docs: Vec<Value> = shape_idx
    .iter()
    .enumerate()
    .map(|(i, s)| {
      let mut d = sh[*s].clone();
      d["_id"] = json!(id_of(i));
      d["body"] = json!(SORT_BODIES[body_variant][i % 4]);
      d
    })
    .collect();
  World::new("body+kw+pop+n+f", c09::schema_json(), docs).with_layout(layout.to_vec())
}

fn sort_keys() -> Vec<Value> {
  let mut out = Vec::new();
  for f in ["_score", "kw", "n", "f"] {
    out.push(json!({"field": f, "order": "asc"}));
    out.push(json!({"field": f, "order": "desc"}));
    out.push(json!({"field": f}));
  }
  out
}

/// Every sequence of 1..=max_len keys; `distinct_fields_from` = length from which plans repeating a
/// field are dropped (quick-tier reduction).
fn sort_plans(max_len: usize, distinct_fields_from: usize) -> Vec<Value> {
  let keys = sort_keys();
  sequences(&keys, 1, max_len)
    .into_iter()
    .filter(|p| {
      if p.len() < distinct_fields_from {
        return true;
      }
      let fs: BTreeSet<&str> = p.iter().map(|k| k["field"].as_str().unwrap()).collect();
      fs.len() == p.len()
    })
    .map(Value::Array)
    .collect()
}

fn sort_queries() -> Vec<Value> {
  vec![json!("a"), json!({"type": "match_all"}), json!("a b")]
}

// --- large-tie family: many documents that tie on every sort key, so that the (segment, ordinal)
// tie-break decides who makes a page. Collectors that see hits out of document order (the
// exhaustive scorer iterates a hash map) only show with tens of tied documents.

/// Tie-class shapes: class 0 and 1 carry every sort value (and tie inside the class on all of
/// them, score included), class 2 misses kw / n / f.
fn tie_shapes() -> Vec<Value> {
  vec![
    json!({"body": "a", "kw": "x", "n": 1, "f": 0.5, "pop": 1}),
    json!({"body": "a a", "kw": "y", "n": 2, "f": 1.5, "pop": 2}),
    json!({"body": "a b", "pop": 3}),
  ]
}

/// `classes` tie classes dealt round-robin over `n` documents with ids d00, d01, ... committed in
/// `segs` nearly equal consecutive chunks.
fn tie_world(n: usize, classes: usize, segs: usize) -> World {
  let sh = tie_shapes();
  let docs: Vec<Value> = (0..n)
    .map(|i| {
      let mut d = sh[i % classes].clone();
      d["_id"] = json!(format!("d{i:02}"));
      d
    })
    .collect();
  let mut layout = vec![n / segs; segs];
  *layout.last_mut().unwrap() += n - (n / segs) * segs;
  World::new("body+kw+pop+n+f", c09::schema_json(), docs).with_layout(layout)
}

fn tie_classes_of(world: &World) -> usize {
  let bodies: BTreeSet<&str> = world.docs.iter().filter_map(|d| d["body"].as_str()).collect();
  bodies.len()
}

fn tie_worlds(sizes: &[usize]) -> Vec<World> {
  let mut out = Vec::new();
  for &n in sizes {
    for classes in 1..=3 {
      for segs in 1..=3 {
        out.push(tie_world(n, classes, segs));
      }
    }
  }
  out
}

/// every single-key plan + a few multi-key plans
fn tie_plans() -> Vec<Value> {
  let mut v: Vec<Value> = sort_keys().into_iter().map(|k| json!([k])).collect();
  v.push(json!([{"field": "kw", "order": "asc"}, {"field": "n", "order": "desc"}]));
  v.push(json!([{"field": "n"}, {"field": "_score"}]));
  v.push(json!([{"field": "_score", "order": "asc"}, {"field": "kw", "order": "desc"}]));
  v.push(json!([{"field": "f", "order": "desc"}, {"field": "kw"}, {"field": "n"}]));
  v.push(json!([]));
  v
}

/// (query, execution): a plain term under all three strategies; custom-scored trees (scored
/// exhaustively whatever the request says) under the default and the explicit exhaustive strategy.
fn tie_queries() -> Vec<(Value, &'static str)> {
  let term = json!({"type": "term", "field": "body", "value": "a"});
  let fs = json!({"type": "function_score", "query": term, "boost_mode": "multiply", "functions": [{"type": "weight", "weight": 2.0}]});
  let script = json!({"type": "script_score", "query": term, "script": "_score + pop"});
  let cs = json!({"type": "bool", "must": [term], "should": [{"type": "constant_score", "filter": {"I64Range": {"field": "pop", "min": 1, "max": 1000}}, "boost": 2.0}]});
  vec![
    (json!("a"), "bm25"),
    (json!("a"), "wand"),
    (json!("a"), "bmw"),
    (fs.clone(), "wand"),
    (fs, "bm25"),
    (script.clone(), "wand"),
    (script, "bm25"),
    (cs, "wand"),
  ]
}

/// Trees in which one term key feeds two scoring leaves (H9). In assertion builds search_segment
/// panics on them (C16's concern); they are only judged here when a response comes back.
fn dup_term_trees() -> Vec<Value> {
  vec![
    json!({"type": "dis_max", "tie_breaker": 0.4, "queries": [{"type": "term", "field": "body", "value": "a"}, {"type": "query_string", "query": "a b"}]}),
    json!({"type": "bool", "should": [{"type": "term", "field": "body", "value": "a"}, {"type": "term", "field": "body", "value": "a", "boost": 2.0}]}),
  ]
}

// ---------------------------------------------------------------------------------------------

fn ranked(reader: &IndexReader, r: Value) -> Result<Vec<(String, f32)>, String> {
  search_caught(reader, &req(r)).map(|res| id_scores(&res))
}

fn case_json(engine: &str, world: &World, q: &Value, sort: &Value, exec: &str, limit: usize) -> Value {
  json!({"engine": engine, "world": world.to_json(), "query": q, "sort": sort, "execution": exec, "limit": limit})
}

/// One case of either sweep. Returns Err((signature, what)).
fn check_case(reader: &IndexReader, info: &WorldInfo, q: &Value, sort: &Value, exec: &str, limit: usize, judge_scores: bool) -> Result<(usize, usize, usize, usize), (Option<&'static str>, String)> {
  let hits = ranked(reader, json!({"query": q, "sort": sort, "execution": exec, "limit": limit})).map_err(|e| (None, format!("search failed: {e}")))?;
  let uses_score = effective_plan(sort).iter().any(|k| k["field"].as_str() == Some("_score"));
  let (mut judged, mut skipped, mut multi) = (0, 0, 0);
  if judge_scores && uses_score {
    match check_scores(info, &hits, q) {
      ScoreJudgement::Bad(w) => return Err((None, format!("hits {:?}: {}", hits, w))),
      ScoreJudgement::Ok { judged: j, skipped: s, multi_reading: m } => {
        judged = j;
        skipped = s;
        multi = m;
      }
    }
  }
  check_order(info, &hits, sort).map_err(|w| (None, format!("hits {:?}: {}", hits, w)))?;
  if limit < 100 {
    let full = ranked(reader, json!({"query": q, "sort": sort, "execution": exec, "limit": 100})).map_err(|e| (None, format!("search failed: {e}")))?;
    let want: Vec<&String> = full.iter().take(limit).map(|h| &h.0).collect();
    let got: Vec<&String> = hits.iter().map(|h| &h.0).collect();
    if want != got {
      return Err((None, format!("limit {limit} returned {:?} but the first {limit} hits of the unlimited response are {:?}", got, want)));
    }
  }
  Ok((hits.len(), judged, skipped, multi))
}

pub fn run(ctx: &Ctx) -> i32 {
  let mut rep = Reporter::new("C10", ctx.tier, "exploration");
  let quick = ctx.tier.is_quick();
  if let Some(path) = &ctx.replay {
    rep.set_replaying(true);
    let v: Value = serde_json::from_slice(&std::fs::read(path).expect("replay file")).expect("json");
    let cs = &v["case"];
    let world = World::from_json(&cs["world"]);
    let exec = cs["execution"].as_str().unwrap_or("bm25").to_string();
    let limit = cs["limit"].as_u64().unwrap_or(100) as usize;
    let judge = cs["engine"].as_str() != Some("inputmc-score/sort");
    let run1 = || {
      let idx = world.build();
      let reader = idx.reader().expect("reader");
      let info = WorldInfo::new(&world);
      check_case(&reader, &info, &cs["query"], &cs["sort"], &exec, limit, judge).err().map(|e| e.1)
    };
    let (a, b) = (run1(), run1());
    if a.is_some() != b.is_some() {
      vcore::ev::machinery_failure("NONDETERMINISM on replay");
    }
    return match a {
      Some(w) => {
        println!("VIOLATION property=C10 replay={path}\n  what: {w}");
        1
      }
      None => {
        println!("replay: no violation");
        0
      }
    };
  }

  let log = FailLog::new();
  let evals = AtomicU64::new(0);
  let nontrivial = AtomicU64::new(0);
  let judged_scores = AtomicU64::new(0);
  let skipped_scores = AtomicU64::new(0);
  let multi_reading = AtomicU64::new(0);
  let h9_panics = AtomicU64::new(0);
  let h9_answers = AtomicU64::new(0);
  let timed_out = AtomicBool::new(false);
  let outcomes: Mutex<BTreeSet<String>> = Mutex::new(BTreeSet::new());

  // ---- (C) large-tie sweep (small and run first, so that a busy machine never caps it away)
  let tie_sizes: Vec<usize> = if quick { vec![24, 64] } else { vec![24, 32, 40, 48, 56, 64] };
  let ws_c = tie_worlds(&tie_sizes);
  let plans_c = tie_plans();
  let qs_c = tie_queries();
  let deadline_c = c09::budget(if quick { 10.0 } else { 120.0 });
  let tie_cases = AtomicU64::new(0);
  let (done_c, capped_c) = c09::par_sweep(&ws_c, &rep, deadline_c, |wi, world| {
    let idx = world.build();
    let reader = idx.reader().expect("reader");
    let info = WorldInfo::new(world);
    let n = world.docs.len();
    let mut local: BTreeSet<String> = BTreeSet::new();
    for (qi, (q, exec)) in qs_c.iter().enumerate() {
      for (pi, plan) in plans_c.iter().enumerate() {
        for (li, limit) in [1usize, 5, n].iter().enumerate() {
          evals.fetch_add(1, Ordering::Relaxed);
          tie_cases.fetch_add(1, Ordering::Relaxed);
          match check_case(&reader, &info, q, plan, exec, *limit, true) {
            Ok((hits, j, s, m)) => {
              judged_scores.fetch_add(j as u64, Ordering::Relaxed);
              skipped_scores.fetch_add(s as u64, Ordering::Relaxed);
              multi_reading.fetch_add(m as u64, Ordering::Relaxed);
              if *limit < n {
                // the page is cut inside a tie class: the tie-break decides who is on it
                nontrivial.fetch_add(1, Ordering::Relaxed);
              }
              local.insert(format!("tie-sweep: {}", if hits < n { "page cut inside a tie class" } else { "all returned" }));
            }
            Err((sig, what)) => {
              local.insert(format!("tie-sweep: violation[{}]", sig.unwrap_or("-")));
              log.add(sig, vec![2, wi as u64, qi as u64, pi as u64, li as u64], || format!("{} documents in {} tie class(es), layout {:?} (doc i = shape i mod classes of {}) q={} sort={} exec={} limit={}: {}", n, tie_classes_of(world), world.layout, json!(tie_shapes()), q, plan, exec, limit, what), || case_json("inputmc-score/tie", world, q, plan, exec, *limit));
            }
          }
        }
      }
    }
    outcomes.lock().extend(local);
  });

  // ---- (A) score sweep
  let ws_a = if quick { c09::worlds(3, &[], false) } else { c09::worlds(4, &[5, 6], false) };
  let trees = c09::scored_trees();
  let dups = dup_term_trees();
  let sorts_a = score_sorts();
  let deadline_a = c09::budget(if quick { 15.0 } else { 420.0 });
  let (done_a, capped_a) = c09::par_sweep(&ws_a, &rep, deadline_a, |wi, world| {
    let idx = world.build();
    let reader = idx.reader().expect("reader");
    let info = WorldInfo::new(world);
    let mut local: BTreeSet<String> = BTreeSet::new();
    for (qi, q) in trees.iter().enumerate() {
      for (si, sort) in sorts_a.iter().enumerate() {
        for (ei, exec) in ["bm25", "wand"].iter().enumerate() {
          evals.fetch_add(1, Ordering::Relaxed);
          match check_case(&reader, &info, q, sort, exec, 100, true) {
            Ok((n, j, s, m)) => {
              judged_scores.fetch_add(j as u64, Ordering::Relaxed);
              skipped_scores.fetch_add(s as u64, Ordering::Relaxed);
              multi_reading.fetch_add(m as u64, Ordering::Relaxed);
              if n >= 2 && j >= 1 {
                nontrivial.fetch_add(1, Ordering::Relaxed);
                if !rep.sample_full() && qi % 13 == 5 {
                  rep.sample(json!({"sweep": "score", "world": world.describe(), "query": q, "sort": sort, "execution": exec, "hits": n, "scores_judged": j}));
                }
              }
              local.insert(format!("score-sweep: hits{} judged{}", n.min(3), if j == n { "all" } else if j == 0 { "none" } else { "some" }));
            }
            Err((sig, what)) => {
              local.insert(format!("score-sweep: violation[{}]", sig.unwrap_or("-")));
              log.add(sig, vec![0, wi as u64, qi as u64, si as u64, ei as u64], || format!("{} q={} sort={} exec={}: {}", world.describe(), q, sort, exec, what), || case_json("inputmc-score/score", world, q, sort, exec, 100));
            }
          }
        }
      }
    }
    // H9: one term key in two scoring leaves
    for (qi, q) in dups.iter().enumerate() {
      match ranked(&reader, json!({"query": q, "execution": "bm25", "limit": 100})) {
        Err(e) if e.starts_with("PANIC") => {
          h9_panics.fetch_add(1, Ordering::Relaxed);
          local.insert("duplicate-term-key: panic (C16)".into());
        }
        Err(_) => {}
        Ok(hits) => {
          h9_answers.fetch_add(1, Ordering::Relaxed);
          evals.fetch_add(1, Ordering::Relaxed);
          if let ScoreJudgement::Bad(w) = check_scores(&info, &hits, q) {
            log.add(Some("C10-duplicate-term-key-weight-lands-in-first-leaf"), vec![0, wi as u64, 1000 + qi as u64], || format!("{} q={}: {}", world.describe(), q, w), || case_json("inputmc-score/score", world, q, &json!([]), "bm25", 100));
          }
        }
      }
    }
    outcomes.lock().extend(local);
  });

  // ---- (B) sort sweep
  let nshape = sort_shapes().len();
  let sidx: Vec<usize> = (0..nshape).collect();
  let mut ws_b: Vec<World> = Vec::new();
  for s in sequences(&sidx, 2, if quick { 3 } else { 4 }) {
    for bv in 0..(if quick { 1 } else { 2 }) {
      for lay in c09::layouts_1_2(s.len()) {
        ws_b.push(sort_world(&s, bv, &lay));
      }
    }
  }
  let plans = if quick { sort_plans(2, 2) } else { sort_plans(3, 99) };
  let plans3_quick = if quick { sort_plans(3, 3).into_iter().filter(|p| p.as_array().unwrap().len() == 3).collect::<Vec<_>>() } else { vec![] };
  let qs_b = sort_queries();
  let deadline_b = c09::budget(if quick { 28.0 } else { 850.0 });
  let (done_b, capped_b) = c09::par_sweep(&ws_b, &rep, deadline_b, |wi, world| {
    let idx = world.build();
    let reader = idx.reader().expect("reader");
    let info = WorldInfo::new(world);
    let mut local: BTreeSet<String> = BTreeSet::new();
    for (qi, q) in qs_b.iter().enumerate() {
      // quick: the 3-key plans (distinct fields) only for the first query
      let extra: &[Value] = if qi == 0 { &plans3_quick } else { &[] };
      for (pi, plan) in plans.iter().chain(extra.iter()).enumerate() {
        for (li, limit) in [100usize, 2].iter().enumerate() {
          if *limit == 2 && world.docs.len() < 3 {
            continue;
          }
          evals.fetch_add(1, Ordering::Relaxed);
          match check_case(&reader, &info, q, plan, "bm25", *limit, false) {
            Ok((n, ..)) => {
              if n >= 2 {
                nontrivial.fetch_add(1, Ordering::Relaxed);
                if !rep.sample_full() && pi % 97 == 41 {
                  rep.sample(json!({"sweep": "sort", "world": world.describe(), "query": q, "sort": plan, "limit": limit, "hits": n}));
                }
              }
              local.insert(format!("sort-sweep: hits{}", n.min(3)));
            }
            Err((sig, what)) => {
              local.insert(format!("sort-sweep: violation[{}]", sig.unwrap_or("-")));
              log.add(sig, vec![1, wi as u64, qi as u64, pi as u64, li as u64], || format!("{} q={} sort={} limit={}: {}", world.describe(), q, plan, limit, what), || case_json("inputmc-score/sort", world, q, plan, "bm25", *limit));
            }
          }
        }
      }
    }
    outcomes.lock().extend(local);
  });

  timed_out.store(capped_a || capped_b || capped_c, Ordering::Relaxed);
  log.flush(&rep);
  rep.add_evals(evals.load(Ordering::Relaxed));
  let to = timed_out.load(Ordering::Relaxed);
  let outs = outcomes.lock().clone();
  if outs.len() < 2 || judged_scores.load(Ordering::Relaxed) == 0 {
    vcore::ev::machinery_failure("C10: vacuous (fewer than two outcomes or no score judged)");
  }
  let cov = vcore::cov! {
    "distinct_nontrivial" => nontrivial.load(Ordering::Relaxed),
    "rule" => "score sweep: a (world, tree, sort plan, execution) case is non-trivial when at least 2 hits come back and at least one score was recomputed; sort sweep: a (world, query, sort plan, limit) case is non-trivial when at least 2 hits come back (so the comparator is exercised); tie sweep: a case is non-trivial when limit < number of matches, so the page is cut inside a class of documents tied on every sort key",
    "score_sweep" => json!({"worlds": ws_a.len(), "worlds_completed": done_a, "trees": trees.len(), "sort_plans": sorts_a, "executions": ["bm25", "wand"], "hit_scores_recomputed": judged_scores.load(Ordering::Relaxed), "hit_scores_not_judged_docs_silent": skipped_scores.load(Ordering::Relaxed), "hit_scores_with_two_admissible_readings": multi_reading.load(Ordering::Relaxed)}),
    "sort_sweep" => json!({"worlds": ws_b.len(), "worlds_completed": done_b, "world_space": format!("every sequence of {} of {} sort-value shapes x {} body assignment(s) x every 1-2 segment layout", if quick { "2..3" } else { "2..4" }, nshape, if quick { 1 } else { 2 }), "sort_plans": plans.len() + plans3_quick.len(), "plan_space": if quick { "all sequences of 1-2 keys over {_score,kw,n,f} x {asc,desc,default}; 3-key plans with pairwise distinct fields for the first query only" } else { "all sequences of 1-3 keys over {_score,kw,n,f} x {asc,desc,default}" }, "queries": qs_b, "limits": [100, 2]}),
    "tie_sweep" => json!({"worlds": ws_c.len(), "worlds_completed": done_c, "world_space": format!("{:?} documents x {{1,2,3}} tie classes (identical documents per class; class 3 misses kw/n/f) x {{1,2,3}} segments", tie_sizes), "sort_plans": plans_c, "queries_x_execution": qs_c.iter().map(|(q, e)| json!({"query": q, "execution": e})).collect::<Vec<_>>(), "limits": "{1, 5, n}", "cases": tie_cases.load(Ordering::Relaxed), "oracle": "every page is the prefix of the limit-100 response of the same request; hits strictly ordered by the plan then (segment, ordinal); scores recomputed when the plan contains _score"}),
    "duplicate_term_key_trees" => json!({"panicked_debug_assert": h9_panics.load(Ordering::Relaxed), "answered": h9_answers.load(Ordering::Relaxed)}),
    "distinct_observed_outcomes" => outs.len(),
    "observed_outcomes" => outs.iter().cloned().collect::<Vec<_>>(),
    "failure_classes" => log.classes().iter().map(|(s, n)| json!({"signature": s, "cases": n})).collect::<Vec<_>>(),
    "cap_hit" => if to { Some(format!("wall budget (score sweep until {deadline_a}s, sort sweep until {deadline_b}s, tie sweep until {deadline_c}s; worlds are processed simplest-first)")) } else { None },
    "exhaustive" => !to,
  };
  rep.finish(
    cov,
    vec![
      "scores are judged only when the sort plan contains _score (with field-only plans the engine does not compute scores; the documentation does not say what the score field holds then)".into(),
      "order is judged with the scores the response itself reports, compared exactly".into(),
      "not judged (documentation silent): function_score over a zero or non-scoring base, default score_mode with several functions, boosts on bool/dis_max/function_score/script_score nodes, reciprocal/log modifiers at their singular points".into(),
      "two readings admitted: a function_score none of whose functions applies to the document (base unchanged, or neutral function value 1 under the boost mode); max_boost (cap on the combined score, or cap on the function value)".into(),
      "which documents match is C07's property: a returned hit the oracle's matcher would not return is not judged here".into(),
      "trees where one term key feeds two scoring leaves panic in assertion builds (debug_assert_eq! in search_segment): counted, left to C16".into(),
      "worlds have no deletions, so N, df and avgdl of a segment are unambiguous".into(),
    ],
  )
}
