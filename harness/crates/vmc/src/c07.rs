//! C07 — query matching follows the documented query semantics.
//! Engine: inputmc query. Small worlds (schema x corpus x segment layout x one optional deletion)
//! x enumerated query trees; the hit-id SET of the real search (execution=bm25, limit=100) is
//! compared with an independent boolean evaluator working on the real analyzer's token streams.
//!
//! Three fully enumerated slices (see `rule` in the evidence):
//!  A  leaf semantics   : full text alphabet x full leaf alphabet (+ unary wrappers)
//!  B  combinators      : core texts x all trees up to a leaf/depth bound over the core leaves
//!  C  fuzzy            : slice-A worlds x fuzzy options x positive term-bearing leaves / pairs
//! plus the second obligation: every token the index analyzer emits for a live document finds it.
//!
//! Failures are classified by narrow predicates (`classify`): each models one defect of the code
//! and must reproduce the observed hit set exactly; anything else is reported unexplained.
//! Cases the documentation does not decide are skipped and counted, never judged.
//! Test aid: VERIF_C07_BUDGET_S overrides the wall budget (33 s quick / 870 s thorough).

use std::collections::{BTreeMap, BTreeSet, HashMap};
use std::sync::atomic::{AtomicBool, AtomicU64, Ordering};

use parking_lot::Mutex;
use rayon::prelude::*;
use searchlite_core::analysis::analyzer::Analyzer;
use searchlite_core::api::types::SearchRequest;
use serde::{Deserialize, Serialize};
use serde_json::{json, Value};

use vcore::ev::Reporter;
use vcore::inp::*;
use vcore::world::*;

use crate::Ctx;

// ---------------------------------------------------------------------------------------------
// Query alphabet

#[derive(Clone, Debug, Serialize, Deserialize, PartialEq)]
enum Msm {
  Count(usize),
  Pct(u32),
}

type Scoped = (Option<String>, String);

#[derive(Clone, Debug, Serialize, Deserialize)]
enum Leaf {
  MatchAll,
  Term { field: String, value: String },
  /// `text` is what is sent; terms / nots / phrases is the structure the text was written from
  /// (the oracle never parses `text`).
  Qs { text: String, legacy: bool, fields: Option<Vec<String>>, terms: Vec<Scoped>, nots: Vec<Scoped>, phrases: Vec<(Option<String>, Vec<String>)> },
  Phrase { field: Option<String>, terms: Vec<String>, slop: u32 },
  Prefix { field: String, value: String },
  Wildcard { field: String, value: String },
  Regex { field: String, value: String },
  MultiMatch { terms: Vec<String>, fields: Vec<String>, mtype: String, and: Option<bool>, msm: Option<Msm> },
  ConstScore { field: String, value: String },
  RankFeature { field: String },
}

impl Leaf {
  fn to_json(&self) -> Value {
    match self {
      Leaf::MatchAll => json!({"type": "match_all"}),
      Leaf::Term { field, value } => json!({"type": "term", "field": field, "value": value}),
      Leaf::Qs { text, legacy, fields, .. } => {
        if *legacy {
          json!(text)
        } else if let Some(f) = fields {
          json!({"type": "query_string", "query": text, "fields": f})
        } else {
          json!({"type": "query_string", "query": text})
        }
      }
      Leaf::Phrase { field, terms, slop } => {
        let mut v = json!({"type": "phrase", "terms": terms});
        if let Some(f) = field {
          v["field"] = json!(f);
        }
        if *slop > 0 {
          v["slop"] = json!(slop);
        }
        v
      }
      Leaf::Prefix { field, value } => json!({"type": "prefix", "field": field, "value": value}),
      Leaf::Wildcard { field, value } => json!({"type": "wildcard", "field": field, "value": value}),
      Leaf::Regex { field, value } => json!({"type": "regex", "field": field, "value": value}),
      Leaf::MultiMatch { terms, fields, mtype, and, msm } => {
        let mut v = json!({"type": "multi_match", "query": terms.join(" "), "fields": fields, "match_type": mtype});
        if let Some(a) = and {
          v["operator"] = json!(if *a { "and" } else { "or" });
        }
        match msm {
          Some(Msm::Count(k)) => v["minimum_should_match"] = json!(k),
          Some(Msm::Pct(p)) => v["minimum_should_match"] = json!(format!("{p}%")),
          None => {}
        }
        v
      }
      Leaf::ConstScore { field, value } => json!({"type": "constant_score", "filter": {"KeywordEq": {"field": field, "value": value}}}),
      Leaf::RankFeature { field } => json!({"type": "rank_feature", "field": field}),
    }
  }
  /// May this leaf be sent together with a request-level `fuzzy` option? (Only leaves made of
  /// positive terms: the docs do not say how fuzzy interacts with negation, phrases or patterns.)
  fn fuzzy_ok(&self) -> bool {
    match self {
      Leaf::MatchAll | Leaf::Term { .. } => true,
      Leaf::Qs { nots, phrases, .. } => nots.is_empty() && phrases.is_empty(),
      Leaf::MultiMatch { .. } => true,
      _ => false,
    }
  }
}

#[derive(Clone, Debug, Serialize, Deserialize)]
enum Tree {
  L(usize),
  Bool { must: Vec<Tree>, should: Vec<Tree>, must_not: Vec<Tree>, filter: Option<(String, String)>, msm: Option<usize> },
  DisMax(Vec<Tree>),
  /// function_score(inner, functions=[weight 2], boost_mode=replace, min_score)
  Fs { inner: Box<Tree>, min_score: Option<f32> },
  /// script_score(inner, "_score + 1")
  Ss(Box<Tree>),
}

impl Tree {
  fn to_json(&self, leaves: &[Leaf]) -> Value {
    match self {
      Tree::L(i) => leaves[*i].to_json(),
      Tree::Bool { must, should, must_not, filter, msm } => {
        let mut v = json!({"type": "bool"});
        let arr = |ts: &Vec<Tree>| Value::Array(ts.iter().map(|t| t.to_json(leaves)).collect());
        if !must.is_empty() {
          v["must"] = arr(must);
        }
        if !should.is_empty() {
          v["should"] = arr(should);
        }
        if !must_not.is_empty() {
          v["must_not"] = arr(must_not);
        }
        if let Some((f, val)) = filter {
          v["filter"] = json!([{"KeywordEq": {"field": f, "value": val}}]);
        }
        if let Some(m) = msm {
          v["minimum_should_match"] = json!(m);
        }
        v
      }
      Tree::DisMax(ts) => json!({"type": "dis_max", "queries": ts.iter().map(|t| t.to_json(leaves)).collect::<Vec<_>>()}),
      Tree::Fs { inner, min_score } => {
        let mut v = json!({"type": "function_score", "query": inner.to_json(leaves), "functions": [{"type": "weight", "weight": 2.0}], "boost_mode": "replace"});
        if let Some(m) = min_score {
          v["min_score"] = json!(m);
        }
        v
      }
      Tree::Ss(inner) => json!({"type": "script_score", "query": inner.to_json(leaves), "script": "_score + 1"}),
    }
  }
  fn n_leaves(&self) -> usize {
    match self {
      Tree::L(_) => 1,
      Tree::Bool { must, should, must_not, .. } => must.iter().chain(should).chain(must_not).map(|t| t.n_leaves()).sum(),
      Tree::DisMax(ts) => ts.iter().map(|t| t.n_leaves()).sum(),
      Tree::Fs { inner, .. } => inner.n_leaves(),
      Tree::Ss(inner) => inner.n_leaves(),
    }
  }
  fn depth(&self) -> usize {
    match self {
      Tree::L(_) => 0,
      Tree::Bool { must, should, must_not, .. } => 1 + must.iter().chain(should).chain(must_not).map(|t| t.depth()).max().unwrap_or(0),
      Tree::DisMax(ts) => 1 + ts.iter().map(|t| t.depth()).max().unwrap_or(0),
      Tree::Fs { inner, .. } => 1 + inner.depth(),
      Tree::Ss(inner) => 1 + inner.depth(),
    }
  }
  fn leaf_ids(&self, out: &mut Vec<usize>) {
    match self {
      Tree::L(i) => out.push(*i),
      Tree::Bool { must, should, must_not, .. } => must.iter().chain(should).chain(must_not).for_each(|t| t.leaf_ids(out)),
      Tree::DisMax(ts) => ts.iter().for_each(|t| t.leaf_ids(out)),
      Tree::Fs { inner, .. } => inner.leaf_ids(out),
      Tree::Ss(inner) => inner.leaf_ids(out),
    }
  }
  fn remap(&self, map: &HashMap<usize, usize>) -> Tree {
    let rm = |ts: &Vec<Tree>| ts.iter().map(|t| t.remap(map)).collect::<Vec<_>>();
    match self {
      Tree::L(i) => Tree::L(map[i]),
      Tree::Bool { must, should, must_not, filter, msm } => Tree::Bool { must: rm(must), should: rm(should), must_not: rm(must_not), filter: filter.clone(), msm: *msm },
      Tree::DisMax(ts) => Tree::DisMax(rm(ts)),
      Tree::Fs { inner, min_score } => Tree::Fs { inner: Box::new(inner.remap(map)), min_score: *min_score },
      Tree::Ss(inner) => Tree::Ss(Box::new(inner.remap(map))),
    }
  }
}

#[derive(Clone, Debug, Serialize, Deserialize, PartialEq)]
struct Fuzzy {
  max_edits: u8,
  prefix_length: usize,
  min_length: usize,
}

impl Fuzzy {
  fn to_json(&self) -> Value {
    json!({"max_edits": self.max_edits, "prefix_length": self.prefix_length, "min_length": self.min_length, "max_expansions": 50})
  }
}

fn fuzzy_options() -> Vec<Fuzzy> {
  vec![
    Fuzzy { max_edits: 1, prefix_length: 0, min_length: 1 },
    Fuzzy { max_edits: 1, prefix_length: 1, min_length: 1 },
    Fuzzy { max_edits: 2, prefix_length: 0, min_length: 1 },
    Fuzzy { max_edits: 2, prefix_length: 1, min_length: 2 },
    Fuzzy { max_edits: 1, prefix_length: 0, min_length: 3 },
  ]
}

// ---------------------------------------------------------------------------------------------
// Schema specs: schema, document shapes, token / phrase / pattern alphabets.

struct Spec {
  name: &'static str,
  schema: Value,
  text_fields: Vec<&'static str>,
  kw: bool,
  /// document shapes of slice A / C (without `_id`)
  docs_full: Vec<Value>,
  /// document shapes of slice B
  docs_core: Vec<Value>,
  tokens: Vec<&'static str>,
  phrases: Vec<Vec<&'static str>>,
  prefixes: Vec<&'static str>,
  wildcards: Vec<&'static str>,
  regexes: Vec<&'static str>,
  /// tokens used by the core leaves (a, b) and the third token of the 3-term phrase
  core: (&'static str, &'static str, &'static str),
}

fn bodies(texts: &[&str]) -> Vec<Value> {
  texts.iter().map(|t| json!({"body": t})).collect()
}

fn one_text_schema(analyzer_def: Option<Value>, analyzer: &str) -> Value {
  let mut s = json!({"doc_id_field": "_id",
    "text_fields": [{"name": "body", "analyzer": analyzer, "stored": true, "indexed": true}],
    "keyword_fields": [], "numeric_fields": []});
  if let Some(d) = analyzer_def {
    s["analyzers"] = json!([d]);
  }
  s
}

fn specs() -> Vec<Spec> {
  vec![
    Spec {
      name: "S0-default",
      schema: one_text_schema(None, "default"),
      text_fields: vec!["body"],
      kw: false,
      docs_full: bodies(&["a", "b", "a b", "b a", "ab", "a c b", "a c c b", "abc a", "A,B", "", "b ab", "c"]),
      docs_core: bodies(&["a", "b", "a b", "b a", "c"]),
      tokens: vec!["a", "b", "ab", "abc", "c", "A"],
      phrases: vec![vec!["a", "b"], vec!["b", "a"], vec!["a", "c", "b"], vec!["a"]],
      prefixes: vec!["a", "ab", "b", "A"],
      wildcards: vec!["a*", "?b", "a*c", "a?", "*", "a*b*"],
      regexes: vec!["a.*", "ab?c?", "(a|b)c", "a(b|bc)", "[ab]"],
      core: ("a", "b", "c"),
    },
    Spec {
      name: "S1-whitespace",
      schema: one_text_schema(Some(json!({"name": "ws", "tokenizer": "whitespace"})), "ws"),
      text_fields: vec!["body"],
      kw: false,
      docs_full: bodies(&["a", "A", "a b", "b a", "a,b", "a  b", "ab", "A b", "b", "", "a-b c", "a c b"]),
      docs_core: bodies(&["a", "b", "a b", "b a", "A"]),
      tokens: vec!["a", "A", "b", "a,b", "ab", "c"],
      phrases: vec![vec!["a", "b"], vec!["A", "b"], vec!["a", "c", "b"], vec!["a"]],
      prefixes: vec!["a", "A", "a,"],
      wildcards: vec!["a*", "?b", "a?b"],
      regexes: vec!["a.*", "[aA]"],
      core: ("a", "b", "c"),
    },
    Spec {
      name: "S1-unicode",
      schema: one_text_schema(Some(json!({"name": "uni", "tokenizer": "unicode"})), "uni"),
      text_fields: vec!["body"],
      kw: false,
      docs_full: bodies(&["a", "b", "a b", "É", "é a", "ﬁ", "fi b", "a.b", "ab", "", "b a", "A"]),
      docs_core: bodies(&["a", "b", "a b", "b a", "É"]),
      tokens: vec!["a", "b", "é", "É", "fi", "ﬁ", "ab"],
      phrases: vec![vec!["a", "b"], vec!["é", "a"], vec!["fi", "b"], vec!["a"]],
      prefixes: vec!["a", "f", "é", "É"],
      wildcards: vec!["a*", "f?", "a*b"],
      regexes: vec!["a.*", "f.*", "(a|é)"],
      core: ("a", "b", "é"),
    },
    Spec {
      name: "S2-stop+stem",
      schema: one_text_schema(Some(json!({"name": "english", "tokenizer": "default", "filters": [{"stopwords": "en"}, {"stemmer": "english"}]})), "english"),
      text_fields: vec!["body"],
      kw: false,
      docs_full: bodies(&["run", "running", "the run", "run the fox", "fox", "foxes run", "the", "fox run", "runs", "", "the fox", "run fox"]),
      docs_core: bodies(&["run", "fox", "run the fox", "foxes running", "the"]),
      tokens: vec!["run", "running", "runs", "fox", "foxes", "the"],
      phrases: vec![vec!["run", "fox"], vec!["run", "the", "fox"], vec!["fox", "run"], vec!["running", "foxes"], vec!["the"]],
      prefixes: vec!["run", "fo", "ru", "f"],
      wildcards: vec!["ru*", "f?x", "r*n"],
      regexes: vec!["r.*", "fox(es)?", "(run|fox)"],
      core: ("run", "fox", "the"),
    },
    Spec {
      name: "S2-synonyms",
      schema: one_text_schema(Some(json!({"name": "syn", "tokenizer": "default", "filters": [{"synonyms": [{"from": ["car"], "to": ["auto"]}]}]})), "syn"),
      text_fields: vec!["body"],
      kw: false,
      docs_full: bodies(&["car", "auto", "a car", "car b", "auto b", "a", "b", "a auto", "car auto", "", "b car a", "a b"]),
      docs_core: bodies(&["car", "auto", "car b", "b auto", "b"]),
      tokens: vec!["car", "auto", "a", "b"],
      phrases: vec![vec!["a", "car"], vec!["a", "auto"], vec!["car", "b"], vec!["auto", "b"], vec!["car", "auto"], vec!["car"]],
      prefixes: vec!["ca", "au", "a"],
      wildcards: vec!["c*r", "au*", "?ar"],
      regexes: vec!["(car|auto)", "ca.*"],
      core: ("car", "b", "auto"),
    },
    Spec {
      name: "S3-text+kw",
      schema: json!({"doc_id_field": "_id",
        "text_fields": [{"name": "body", "analyzer": "default", "stored": true, "indexed": true},
                        {"name": "title", "analyzer": "default", "stored": true, "indexed": true}],
        "keyword_fields": [{"name": "kw", "stored": true, "indexed": true, "fast": true}],
        "numeric_fields": [{"name": "n", "i64": true, "fast": true, "stored": true}]}),
      text_fields: vec!["body", "title"],
      kw: true,
      docs_full: vec![
        json!({"body": "a", "title": "b", "kw": "x", "n": 1}),
        json!({"body": "b", "title": "a", "kw": "y", "n": 2}),
        json!({"body": ["a", "b"], "title": "c", "kw": "x", "n": 2}),
        json!({"body": ["a b", "c"], "title": "a", "kw": "y", "n": 1}),
        json!({"body": "a b", "title": "", "kw": "x", "n": 1}),
        json!({"body": "b a", "title": "a b", "kw": "y", "n": 2}),
        json!({"body": ["b", "a"], "title": "b", "kw": "x", "n": 1}),
        json!({"body": "c", "title": "c", "kw": "y", "n": 1}),
        json!({"body": ["a", "", "b"], "title": "ab", "kw": "x", "n": 2}),
        json!({"body": ["c", "a b"], "title": "b a", "kw": "y", "n": 2}),
      ],
      docs_core: vec![
        json!({"body": "a", "title": "b", "kw": "x", "n": 1}),
        json!({"body": "b", "title": "a", "kw": "y", "n": 2}),
        json!({"body": ["a", "b"], "title": "c", "kw": "x", "n": 2}),
        json!({"body": "c", "title": "c", "kw": "y", "n": 1}),
      ],
      tokens: vec!["a", "b", "c"],
      phrases: vec![vec!["a", "b"], vec!["b", "a"], vec!["a"]],
      prefixes: vec!["a"],
      wildcards: vec!["a*b"],
      regexes: vec!["(a|b)"],
      core: ("a", "b", "c"),
    },
  ]
}

fn s(x: &str) -> String {
  x.to_string()
}

/// The full leaf alphabet of a spec, followed by the indices of the core leaves (slice B) and the
/// indices usable under a fuzzy option (slice C).
fn leaf_alphabet(sp: &Spec) -> (Vec<Leaf>, Vec<usize>) {
  let mut l: Vec<Leaf> = Vec::new();
  let f0 = sp.text_fields[0];
  let (a, b, c) = sp.core;
  // --- core leaves first (indices 0..)
  l.push(Leaf::MatchAll);
  l.push(Leaf::Term { field: s(f0), value: s(a) });
  l.push(Leaf::Term { field: s(f0), value: s(b) });
  l.push(Leaf::Phrase { field: Some(s(f0)), terms: vec![s(a), s(b)], slop: 0 });
  l.push(Leaf::Prefix { field: s(f0), value: sp.prefixes[0].to_string() });
  let mut core: Vec<usize> = (0..5).collect();
  if sp.kw {
    l.push(Leaf::ConstScore { field: s("kw"), value: s("x") });
    core.push(5);
  }
  // --- terms
  for f in &sp.text_fields {
    for t in &sp.tokens {
      if *f == f0 && (*t == a || *t == b) {
        continue;
      }
      l.push(Leaf::Term { field: s(f), value: s(t) });
    }
  }
  // --- query_string variants
  let qs = |text: String, legacy: bool, fields: Option<Vec<String>>, terms: Vec<Scoped>, nots: Vec<Scoped>, phrases: Vec<(Option<String>, Vec<String>)>| Leaf::Qs { text, legacy, fields, terms, nots, phrases };
  for legacy in [false, true] {
    l.push(qs(s(a), legacy, None, vec![(None, s(a))], vec![], vec![]));
    l.push(qs(format!("{a} {b}"), legacy, None, vec![(None, s(a)), (None, s(b))], vec![], vec![]));
    l.push(qs(format!("{a} -{b}"), legacy, None, vec![(None, s(a))], vec![(None, s(b))], vec![]));
    l.push(qs(format!("\"{a} {b}\""), legacy, None, vec![], vec![], vec![(None, vec![s(a), s(b)])]));
  }
  l.push(qs(format!("{b} {c}"), false, None, vec![(None, s(b)), (None, s(c))], vec![], vec![]));
  l.push(qs(format!("{b} -{a}"), false, None, vec![(None, s(b))], vec![(None, s(a))], vec![]));
  l.push(qs(format!("{a} {b} -{c}"), false, None, vec![(None, s(a)), (None, s(b))], vec![(None, s(c))], vec![]));
  for f in &sp.text_fields {
    l.push(qs(format!("{f}:{a}"), false, None, vec![(Some(s(f)), s(a))], vec![], vec![]));
    l.push(qs(format!("{f}:{a} -{f}:{b}"), false, None, vec![(Some(s(f)), s(a))], vec![(Some(s(f)), s(b))], vec![]));
    l.push(qs(format!("\"{f}:{a} {b}\""), false, None, vec![], vec![], vec![(Some(s(f)), vec![s(a), s(b)])]));
    l.push(qs(s(a), false, Some(vec![s(f)]), vec![(None, s(a))], vec![], vec![]));
    l.push(qs(format!("{b} -{a}"), false, Some(vec![s(f)]), vec![(None, s(b))], vec![(None, s(a))], vec![]));
  }
  // --- phrases
  for (pi, p) in sp.phrases.iter().enumerate() {
    let terms: Vec<String> = p.iter().map(|x| s(x)).collect();
    for slop in [0u32, 1, 2] {
      if p.len() == 1 && slop > 0 {
        continue;
      }
      if pi == 0 && slop == 0 {
        continue; // core leaf
      }
      l.push(Leaf::Phrase { field: Some(s(f0)), terms: terms.clone(), slop });
    }
    if pi < 2 {
      l.push(Leaf::Phrase { field: None, terms: terms.clone(), slop: 0 });
      l.push(Leaf::Phrase { field: None, terms: terms.clone(), slop: 1 });
      if sp.text_fields.len() > 1 {
        l.push(Leaf::Phrase { field: Some(s(sp.text_fields[1])), terms: terms.clone(), slop: 0 });
      }
    }
  }
  // --- patterns
  for (i, p) in sp.prefixes.iter().enumerate() {
    if i > 0 {
      l.push(Leaf::Prefix { field: s(f0), value: s(p) });
    }
  }
  if sp.text_fields.len() > 1 {
    l.push(Leaf::Prefix { field: s(sp.text_fields[1]), value: s(sp.prefixes[0]) });
  }
  for p in &sp.wildcards {
    l.push(Leaf::Wildcard { field: s(f0), value: s(p) });
  }
  for p in &sp.regexes {
    l.push(Leaf::Regex { field: s(f0), value: s(p) });
  }
  // --- multi_match: 3 types x operator x minimum_should_match
  let fields: Vec<String> = sp.text_fields.iter().map(|f| s(f)).collect();
  for mtype in ["best_fields", "most_fields", "cross_fields"] {
    for terms in [vec![s(a)], vec![s(a), s(b)]] {
      let n = terms.len();
      let mut variants: Vec<(Option<bool>, Option<Msm>)> = vec![(None, None), (Some(false), None), (Some(true), None)];
      if n == 2 {
        variants.push((None, Some(Msm::Count(1))));
        variants.push((None, Some(Msm::Count(2))));
        variants.push((Some(false), Some(Msm::Pct(50))));
        variants.push((Some(false), Some(Msm::Pct(100))));
      }
      for (and, msm) in variants {
        l.push(Leaf::MultiMatch { terms: terms.clone(), fields: fields.clone(), mtype: s(mtype), and, msm });
      }
    }
    if sp.text_fields.len() > 1 {
      l.push(Leaf::MultiMatch { terms: vec![s(a), s(b)], fields: vec![s(sp.text_fields[1])], mtype: s(mtype), and: Some(true), msm: None });
    }
  }
  if sp.kw {
    l.push(Leaf::ConstScore { field: s("kw"), value: s("y") });
    l.push(Leaf::RankFeature { field: s("n") });
  }
  (l, core)
}

// ---------------------------------------------------------------------------------------------
// Oracle: an independent boolean evaluator over the analyzer's token streams.
//
// Rules and where they are pinned (R = /repo/README.md, P = property statement, D = DESIGN §C07):
//  term          a document matches when the field holds one of the tokens the field's search
//                analyzer produces for the value (P "every indexed word of a document finds that
//                document"; R synonyms "expanded at the same position"). Values that analyze to
//                nothing or to several positions are not demanded.
//  query_string  R "supports field:term, phrases in quotes ("field:exact phrase"), and negation with
//                a leading -term"; bare terms are OR-ed over the default fields (D; schema text
//                "null or omitted means schema defaults"), a quoted phrase must occur, -t excludes.
//  phrase        R "phrase now accepts slop (positions of wiggle room)", "allows one gap between
//                terms": tokens at increasing positions whose gaps sum to <= slop.
//  prefix/wildcard/regex  R "analyzes the input with the field's search analyzer, expands against
//                the segment term dictionary ..., and ORs the resulting terms": any indexed term of
//                the field that starts with / matches the pattern.
//  multi_match   R "cross_fields (treat fields as one blended field)", "operator", "minimum_should_
//                match accepts counts or percentages".
//  bool          P "should clauses are optional whenever it has a must or filter clause and no
//                minimum_should_match"; D: all must, no must_not, all filter, should >= msm,
//                msm defaults to 1 only without must and filter.
//  dis_max       R "picks the best-scoring child query": any child.
//  constant_score R "wraps a filter-only query ... when the filter matches"; KeywordEq is R
//                "Keyword filters are case-insensitive".
//  function_score R example with min_score; D: the inner query minus documents scoring below it.
//  script_score / rank_feature  R "Numeric boosts", "guarded script score": scoring only.

type Tok = (String, u32);

struct Ana {
  index: HashMap<String, Analyzer>,
  search: HashMap<String, Analyzer>,
  text_fields: Vec<String>,
}

impl Ana {
  fn new(schema_json: &Value) -> Ana {
    let sch = schema(schema_json.clone());
    let an = sch.build_analyzers().expect("analyzers");
    let mut index = HashMap::new();
    let mut search = HashMap::new();
    let mut text_fields = Vec::new();
    for f in sch.text_fields.iter() {
      text_fields.push(f.name.clone());
      index.insert(f.name.clone(), an.index_analyzer(&f.name).expect("index analyzer").clone());
      search.insert(f.name.clone(), an.search_analyzer(&f.name).expect("search analyzer").clone());
    }
    Ana { index, search, text_fields }
  }
  fn index_toks(&self, field: &str, text: &str) -> Vec<Tok> {
    self.index[field].analyze(text).into_iter().map(|t| (t.text, t.position)).collect()
  }
  fn search_toks(&self, field: &str, text: &str) -> Vec<Tok> {
    match self.search.get(field) {
      Some(a) => a.analyze(text).into_iter().map(|t| (t.text, t.position)).collect(),
      None => Vec::new(),
    }
  }
}

/// Per-document view: for every text field the token stream of every value; keyword values.
struct DocView {
  text: HashMap<String, Vec<Vec<Tok>>>,
  kw: HashMap<String, Vec<String>>,
}

struct View<'a> {
  ana: &'a Ana,
  docs: Vec<DocView>,
  ids: Vec<String>,
  live: u8,
}

fn values_of(v: &Value) -> Vec<String> {
  match v {
    Value::String(s) => vec![s.clone()],
    Value::Array(a) => a.iter().filter_map(|x| x.as_str().map(|s| s.to_string())).collect(),
    _ => vec![],
  }
}

impl<'a> View<'a> {
  fn new(ana: &'a Ana, world: &World) -> View<'a> {
    let mut docs = Vec::new();
    let mut ids = Vec::new();
    let mut live = 0u8;
    for (i, d) in world.docs.iter().enumerate() {
      let id = d["_id"].as_str().unwrap().to_string();
      if !world.deleted.contains(&id) {
        live |= 1 << i;
      }
      ids.push(id);
      let mut text = HashMap::new();
      let mut kw = HashMap::new();
      for (k, v) in d.as_object().unwrap() {
        if ana.index.contains_key(k) {
          let vals: Vec<Vec<Tok>> = values_of(v).iter().map(|t| ana.index_toks(k, t)).collect();
          text.insert(k.clone(), vals);
        } else if k != "_id" && (v.is_string() || v.is_array()) {
          kw.insert(k.clone(), values_of(v));
        }
      }
      docs.push(DocView { text, kw });
    }
    View { ana, docs, ids, live }
  }
  fn n(&self) -> usize {
    self.docs.len()
  }
  fn all(&self) -> u8 {
    ((1u16 << self.n()) - 1) as u8
  }
  fn field_tokens(&self, d: usize, field: &str) -> Vec<&str> {
    match self.docs[d].text.get(field) {
      Some(vals) => vals.iter().flat_map(|v| v.iter().map(|t| t.0.as_str())).collect(),
      None => vec![],
    }
  }
}

fn lev(a: &str, b: &str) -> usize {
  let a: Vec<char> = a.chars().collect();
  let b: Vec<char> = b.chars().collect();
  let mut d = vec![vec![0usize; b.len() + 1]; a.len() + 1];
  for i in 0..=a.len() {
    d[i][0] = i;
  }
  for j in 0..=b.len() {
    d[0][j] = j;
  }
  for i in 1..=a.len() {
    for j in 1..=b.len() {
      let c = if a[i - 1] == b[j - 1] { 0 } else { 1 };
      d[i][j] = (d[i - 1][j] + 1).min(d[i][j - 1] + 1).min(d[i - 1][j - 1] + c);
    }
  }
  d[a.len()][b.len()]
}

/// Does query token `t` select indexed token `u`? None = not defined by the docs.
fn tok_eq(t: &str, u: &str, fz: Option<&Fuzzy>) -> Option<bool> {
  if t == u {
    return Some(true);
  }
  let Some(f) = fz else { return Some(false) };
  let tl = t.chars().count();
  if tl < f.prefix_length {
    return None;
  }
  if tl < f.min_length {
    return Some(false);
  }
  let tp: String = t.chars().take(f.prefix_length).collect();
  let up: String = u.chars().take(f.prefix_length).collect();
  if tp != up {
    return Some(false);
  }
  Some(lev(t, u) <= f.max_edits as usize)
}

fn wildcard_match(p: &[char], t: &[char]) -> bool {
  match p.first() {
    None => t.is_empty(),
    Some('*') => (0..=t.len()).any(|k| wildcard_match(&p[1..], &t[k..])),
    Some('?') => !t.is_empty() && wildcard_match(&p[1..], &t[1..]),
    Some(c) => !t.is_empty() && t[0] == *c && wildcard_match(&p[1..], &t[1..]),
  }
}

/// Is there an assignment of increasing positions, one per query position, whose gaps sum to <= slop?
fn phrase_in_stream(alts: &[Vec<String>], stream: &[Tok], slop: u32) -> bool {
  fn rec(alts: &[Vec<String>], stream: &[Tok], i: usize, prev: u32, left: i64) -> bool {
    if i == alts.len() {
      return true;
    }
    for (txt, pos) in stream {
      if *pos > prev && alts[i].contains(txt) {
        let gap = (*pos - prev - 1) as i64;
        if gap <= left && rec(alts, stream, i + 1, *pos, left - gap) {
          return true;
        }
      }
    }
    false
  }
  stream.iter().any(|(txt, pos)| alts[0].contains(txt) && rec(alts, stream, 1, *pos, slop as i64))
}

/// Result of evaluating one leaf over a world.
#[derive(Clone, Copy, Default, Debug)]
struct LeafEval {
  /// documents that satisfy the leaf; None = the documentation does not decide this leaf here
  mask: Option<u8>,
  /// documents that hold at least one term the leaf contributes to scoring (classifier input)
  scored: u8,
  /// leaf produces scored terms at all (term, query_string terms, multi_match, patterns)
  term_bearing: bool,
  /// classifier input: the mask if a wildcard/regex pattern is replaced by the single token the
  /// search analyzer reduces it to
  alt: Option<u8>,
  /// classifier input: the mask if a regex only sees dictionary terms that start with the pattern's
  /// leading literal characters even though the last of them is quantified (`ab?` scans `ab...`)
  alt_prefix: Option<u8>,
  /// leaf installs its own score node (constant_score, rank_feature)
  custom_score: bool,
  /// documents that hold >= 2 distinct alternatives of one phrase position for which the search
  /// analyzer emits several tokens (evidence counter of slice P)
  multi_alt: u8,
}

impl<'a> View<'a> {
  /// Query-side alternatives for a term value in a field: Some(tokens) iff the search analyzer
  /// yields at least one token and all of them sit at one position.
  fn term_alts(&self, field: &str, value: &str) -> Option<Vec<String>> {
    let toks = self.ana.search_toks(field, value);
    if toks.is_empty() || toks.iter().any(|t| t.1 != toks[0].1) {
      return None;
    }
    Some(toks.into_iter().map(|t| t.0).collect())
  }

  fn doc_has_term(&self, d: usize, field: &str, value: &str, fz: Option<&Fuzzy>) -> Option<bool> {
    if !self.ana.index.contains_key(field) {
      return None;
    }
    let alts = self.term_alts(field, value)?;
    let mut hit = false;
    for u in self.field_tokens(d, field) {
      for t in &alts {
        if tok_eq(t, u, fz)? {
          hit = true;
        }
      }
    }
    Some(hit)
  }

  fn doc_has_scoped(&self, d: usize, sc: &Scoped, default_fields: &[String], fz: Option<&Fuzzy>) -> Option<bool> {
    match &sc.0 {
      Some(f) => self.doc_has_term(d, f, &sc.1, fz),
      None => {
        let mut any = false;
        for f in default_fields {
          any |= self.doc_has_term(d, f, &sc.1, fz)?;
        }
        Some(any)
      }
    }
  }

  /// Does document d hold at least two distinct alternatives of one query position of the phrase?
  fn phrase_multi_alt(&self, d: usize, field: &str, terms: &[String]) -> bool {
    let q = self.ana.search_toks(field, &terms.join(" "));
    let mut by_pos: BTreeMap<u32, BTreeSet<String>> = BTreeMap::new();
    for (t, p) in q {
      by_pos.entry(p).or_default().insert(t);
    }
    let toks: BTreeSet<&str> = self.field_tokens(d, field).into_iter().collect();
    by_pos.values().any(|alts| alts.len() >= 2 && alts.iter().filter(|a| toks.contains(a.as_str())).count() >= 2)
  }

  fn doc_has_phrase(&self, d: usize, field: &str, terms: &[String], slop: u32) -> Option<bool> {
    let q = self.ana.search_toks(field, &terms.join(" "));
    if q.is_empty() {
      return None;
    }
    let maxp = q.iter().map(|t| t.1).max().unwrap();
    let mut alts: Vec<Vec<String>> = vec![Vec::new(); maxp as usize + 1];
    for (t, p) in q {
      alts[p as usize].push(t);
    }
    if alts.iter().any(|a| a.is_empty()) {
      return None;
    }
    let Some(vals) = self.docs[d].text.get(field) else { return Some(false) };
    // reading 1: the phrase lies inside one value
    let inside = vals.iter().any(|v| phrase_in_stream(&alts, v, slop));
    // reading 2: values form one stream without position gaps
    let mut cat: Vec<Tok> = Vec::new();
    let mut off = 0u32;
    for v in vals {
      let mut mx = None;
      for (t, p) in v {
        cat.push((t.clone(), off + p));
        mx = Some(mx.map_or(*p, |m: u32| m.max(*p)));
      }
      if let Some(m) = mx {
        off += m + 1;
      }
    }
    let across = phrase_in_stream(&alts, &cat, slop);
    if inside == across {
      Some(inside)
    } else {
      None
    }
  }

  fn eval_leaf(&self, leaf: &Leaf, fz: Option<&Fuzzy>) -> LeafEval {
    let n = self.n();
    let mut out = LeafEval { mask: Some(0), scored: 0, term_bearing: false, alt: None, alt_prefix: None, custom_score: false, multi_alt: 0 };
    if fz.is_some() && !leaf.fuzzy_ok() {
      out.mask = None;
      return out;
    }
    let per_doc = |f: &dyn Fn(usize) -> Option<bool>| -> Option<u8> {
      let mut m = 0u8;
      for d in 0..n {
        if f(d)? {
          m |= 1 << d;
        }
      }
      Some(m)
    };
    match leaf {
      Leaf::MatchAll => out.mask = Some(self.all()),
      Leaf::RankFeature { .. } => {
        out.mask = Some(self.all());
        out.custom_score = true;
      }
      Leaf::Term { field, value } => {
        out.term_bearing = true;
        out.mask = per_doc(&|d| self.doc_has_term(d, field, value, fz));
        out.scored = out.mask.unwrap_or(0);
      }
      Leaf::Qs { fields, terms, nots, phrases, .. } => {
        let defaults: Vec<String> = fields.clone().unwrap_or_else(|| self.ana.text_fields.clone());
        out.term_bearing = !terms.is_empty();
        for (pf, pt) in phrases {
          let fs: Vec<String> = pf.clone().map_or_else(|| defaults.clone(), |f| vec![f]);
          for d in 0..n {
            if fs.iter().any(|f| self.phrase_multi_alt(d, f, pt)) {
              out.multi_alt |= 1 << d;
            }
          }
        }
        let pos = per_doc(&|d| {
          let mut any = false;
          for t in terms {
            any |= self.doc_has_scoped(d, t, &defaults, fz)?;
          }
          Some(any)
        });
        out.scored = pos.unwrap_or(0);
        out.mask = per_doc(&|d| {
          let mut ok = true;
          for t in nots {
            if self.doc_has_scoped(d, t, &defaults, None)? {
              ok = false;
            }
          }
          for (pf, pt) in phrases {
            let fs: Vec<String> = match pf {
              Some(f) => vec![f.clone()],
              None => defaults.clone(),
            };
            let mut any = false;
            for f in &fs {
              any |= self.doc_has_phrase(d, f, pt, 0)?;
            }
            ok &= any;
          }
          if !terms.is_empty() {
            let mut any = false;
            for t in terms {
              any |= self.doc_has_scoped(d, t, &defaults, fz)?;
            }
            ok &= any;
          }
          Some(ok)
        });
        if pos.is_none() {
          out.mask = None;
        }
      }
      Leaf::Phrase { field, terms, slop } => {
        let fs: Vec<String> = match field {
          Some(f) => vec![f.clone()],
          None => self.ana.text_fields.clone(),
        };
        for d in 0..n {
          if fs.iter().any(|f| self.phrase_multi_alt(d, f, terms)) {
            out.multi_alt |= 1 << d;
          }
        }
        out.mask = per_doc(&|d| {
          let mut any = false;
          for f in &fs {
            any |= self.doc_has_phrase(d, f, terms, *slop)?;
          }
          Some(any)
        });
      }
      Leaf::Prefix { field, value } => {
        out.term_bearing = true;
        let toks = self.ana.search_toks(field, value);
        if toks.len() != 1 {
          out.mask = None;
        } else {
          let p = toks[0].0.clone();
          out.mask = per_doc(&|d| Some(self.field_tokens(d, field).iter().any(|u| u.starts_with(p.as_str()))));
        }
        out.scored = out.mask.unwrap_or(0);
      }
      Leaf::Wildcard { field, value } => {
        out.term_bearing = true;
        let p: Vec<char> = value.chars().collect();
        out.mask = per_doc(&|d| Some(self.field_tokens(d, field).iter().any(|u| wildcard_match(&p, &u.chars().collect::<Vec<_>>()))));
        out.scored = out.mask.unwrap_or(0);
        let toks = self.ana.search_toks(field, value);
        if toks.len() == 1 && toks[0].0 != *value {
          let t = toks[0].0.clone();
          out.alt = per_doc(&|d| Some(self.field_tokens(d, field).iter().any(|u| *u == t.as_str())));
        }
      }
      Leaf::Regex { field, value } => {
        out.term_bearing = true;
        let anch = regex::Regex::new(&format!("^(?:{value})$")).expect("regex");
        let free = regex::Regex::new(value).expect("regex");
        out.mask = per_doc(&|d| {
          let toks = self.field_tokens(d, field);
          let a = toks.iter().any(|u| anch.is_match(u));
          let b = toks.iter().any(|u| free.is_match(u));
          if a == b {
            Some(a)
          } else {
            None
          }
        });
        out.scored = out.mask.unwrap_or(0);
        let toks = self.ana.search_toks(field, value);
        if toks.len() == 1 && toks[0].0 != *value {
          let t = toks[0].0.clone();
          out.alt = per_doc(&|d| Some(self.field_tokens(d, field).iter().any(|u| *u == t.as_str())));
        }
        let lit: String = value.chars().take_while(|c| !".*+?()[]{}|$\\^".contains(*c)).collect();
        let next = value.chars().nth(lit.chars().count());
        if !lit.is_empty() && matches!(next, Some('?') | Some('*') | Some('{')) {
          out.alt_prefix = per_doc(&|d| Some(self.field_tokens(d, field).iter().any(|u| u.starts_with(lit.as_str()) && anch.is_match(u))));
        }
      }
      Leaf::MultiMatch { terms, fields, mtype, and, msm } => {
        out.term_bearing = true;
        let nt = terms.len();
        let required: Option<usize> = if *and == Some(true) {
          if msm.is_some() {
            None
          } else {
            Some(nt)
          }
        } else {
          match msm {
            None => Some(1),
            Some(Msm::Count(k)) if *k >= 1 && *k <= nt => Some(*k),
            Some(Msm::Count(_)) => None,
            Some(Msm::Pct(p)) => {
              if (*p as usize * nt) % 100 == 0 && *p > 0 {
                Some(*p as usize * nt / 100)
              } else {
                None
              }
            }
          }
        };
        let anyterm = per_doc(&|d| {
          let mut any = false;
          for t in terms {
            for f in fields {
              any |= self.doc_has_term(d, f, t, fz)?;
            }
          }
          Some(any)
        });
        out.scored = anyterm.unwrap_or(0);
        out.mask = match (required, anyterm) {
          (Some(req), Some(_)) => per_doc(&|d| {
            let mut blended = 0;
            let mut best_field = 0;
            for t in terms {
              let mut any = false;
              for f in fields {
                any |= self.doc_has_term(d, f, t, fz)?;
              }
              if any {
                blended += 1;
              }
            }
            for f in fields {
              let mut c = 0;
              for t in terms {
                if self.doc_has_term(d, f, t, fz)? {
                  c += 1;
                }
              }
              best_field = best_field.max(c);
            }
            let bl = blended >= req;
            let pf = best_field >= req;
            if mtype == "cross_fields" || bl == pf {
              Some(bl)
            } else {
              None
            }
          }),
          _ => None,
        };
      }
      Leaf::ConstScore { field, value } => {
        out.custom_score = true;
        out.mask = per_doc(&|d| Some(self.docs[d].kw.get(field).map_or(false, |vs| vs.iter().any(|v| v.to_lowercase() == value.to_lowercase()))));
      }
    }
    out
  }
}

/// Per-node evaluation result.
#[derive(Clone, Copy)]
struct TreeEval {
  mask: u8,
  /// documents holding a scored term of a leaf in scoring position (not under must_not)
  scored: u8,
  term_bearing: bool,
}

const ALT_REDUCED: u8 = 1;
const ALT_PREFIX: u8 = 2;
const ALT_MIN_SCORE_HOOK: u8 = 4;

/// Evaluate a tree. `alt` = 0 is the documented semantics; the ALT_* bits select readings that model
/// one known defect each and are only used to classify a failure.
fn eval_tree(t: &Tree, le: &[LeafEval], v: &View, alt: u8) -> Option<TreeEval> {
  eval_node(t, le, v, alt, true)
}

/// Model of the scoring hook for ALT_MIN_SCORE_HOOK: (node is empty, documents for which the score
/// tree yields a score). A function_score yields no score for a document that matches its inner
/// query but falls below min_score; a sum / dis_max yields a score if any part does.
fn score_some(t: &Tree, le: &[LeafEval], v: &View, alt: u8, scoring: bool) -> Option<(bool, u8)> {
  let all = v.all();
  Some(match t {
    Tree::L(i) => {
      let e = &le[*i];
      if e.custom_score || (e.term_bearing && scoring) {
        (false, all)
      } else {
        (true, all)
      }
    }
    Tree::Bool { must, should, must_not, .. } => combine_some(must.iter().chain(should).map(|c| (c, scoring)).chain(must_not.iter().map(|c| (c, false))), le, v, alt)?,
    Tree::DisMax(ts) => combine_some(ts.iter().map(|c| (c, scoring)), le, v, alt)?,
    Tree::Fs { inner, min_score } => {
      let m = eval_node(inner, le, v, alt, false)?.mask;
      let (be, bs) = score_some(inner, le, v, alt, scoring)?;
      let base = if be { all } else { bs };
      let keep = if min_score.map_or(false, |x| x > 2.0) { 0 } else { all };
      (false, (!m & all) | (base & keep))
    }
    Tree::Ss(inner) => {
      let m = eval_node(inner, le, v, alt, false)?.mask;
      let (be, bs) = score_some(inner, le, v, alt, scoring)?;
      (false, (!m & all) | if be { all } else { bs })
    }
  })
}

fn combine_some<'t>(kids: impl Iterator<Item = (&'t Tree, bool)>, le: &[LeafEval], v: &View, alt: u8) -> Option<(bool, u8)> {
  let mut n = 0;
  let mut some = 0u8;
  for (c, sc) in kids {
    let (e, s) = score_some(c, le, v, alt, sc)?;
    if !e {
      n += 1;
      some |= s;
    }
  }
  Some(if n == 0 { (true, v.all()) } else { (false, some) })
}

fn eval_node(t: &Tree, le: &[LeafEval], v: &View, alt: u8, _root: bool) -> Option<TreeEval> {
  let eval_tree = |t: &Tree, le: &[LeafEval], v: &View, alt: u8| eval_node(t, le, v, alt, false);
  Some(match t {
    Tree::L(i) => {
      let e = &le[*i];
      let (m, changed) = if alt & ALT_REDUCED != 0 && e.alt.is_some() {
        (e.alt, true)
      } else if alt & ALT_PREFIX != 0 && e.alt_prefix.is_some() {
        (e.alt_prefix, true)
      } else {
        (e.mask, false)
      };
      let m = m?;
      TreeEval { mask: m, scored: if changed { m } else { e.scored }, term_bearing: e.term_bearing }
    }
    Tree::Bool { must, should, must_not, filter, msm } => {
      let mut mask = v.all();
      let mut scored = 0;
      let mut tb = false;
      for c in must {
        let e = eval_tree(c, le, v, alt)?;
        mask &= e.mask;
        scored |= e.scored;
        tb |= e.term_bearing;
      }
      for c in must_not {
        let e = eval_tree(c, le, v, alt)?;
        mask &= !e.mask;
      }
      if let Some((f, val)) = filter {
        let mut fm = 0u8;
        for d in 0..v.n() {
          if v.docs[d].kw.get(f).map_or(false, |vs| vs.iter().any(|x| x.to_lowercase() == val.to_lowercase())) {
            fm |= 1 << d;
          }
        }
        mask &= fm;
      }
      let mut counts = [0usize; 8];
      for c in should {
        let e = eval_tree(c, le, v, alt)?;
        scored |= e.scored;
        tb |= e.term_bearing;
        for d in 0..v.n() {
          if e.mask & (1 << d) != 0 {
            counts[d] += 1;
          }
        }
      }
      let need = match msm {
        Some(m) => *m,
        None => {
          if !should.is_empty() && must.is_empty() && filter.is_none() {
            1
          } else {
            0
          }
        }
      };
      for d in 0..v.n() {
        if counts[d] < need {
          mask &= !(1 << d);
        }
      }
      TreeEval { mask, scored, term_bearing: tb }
    }
    Tree::DisMax(ts) => {
      let mut r = TreeEval { mask: 0, scored: 0, term_bearing: false };
      for c in ts {
        let e = eval_tree(c, le, v, alt)?;
        r.mask |= e.mask;
        r.scored |= e.scored;
        r.term_bearing |= e.term_bearing;
      }
      r
    }
    Tree::Fs { inner, min_score } => {
      let mut e = eval_tree(inner, le, v, alt)?;
      // functions=[weight 2], boost_mode=replace: every matching document scores 2
      if let Some(m) = min_score {
        if 2.0 < *m && alt & ALT_MIN_SCORE_HOOK == 0 {
          e.mask = 0;
        }
      }
      e
    }
    Tree::Ss(inner) => eval_tree(inner, le, v, alt)?,
  })
}

// ---------------------------------------------------------------------------------------------
// Tree enumeration (exhaustive inside the stated bounds; children of one clause list are kept in
// non-decreasing alphabet order because clause lists are unordered by the documented semantics).

const ROLES: usize = 3; // must, should, must_not

fn msm_options(n_should: usize) -> Vec<Option<usize>> {
  // {none, 0, 1, 2, #should}; 2 is also used with a single should clause (count >= 2 is then
  // unsatisfiable: the rule "should needs minimum_should_match matches" is plain arithmetic)
  let mut v = vec![None];
  if n_should >= 1 {
    v.push(Some(0));
    v.push(Some(1));
    v.push(Some(2));
  }
  if n_should >= 3 {
    v.push(Some(n_should));
  }
  v
}

/// All bool nodes whose children are a multiset of (role, pool item) with 1..=max_children children
/// and at most max_leaves leaves, x filter options x minimum_should_match options.
fn gen_bools(pool: &[Tree], max_children: usize, max_leaves: usize, filters: &[Option<(String, String)>], all_msm: bool, keep: &dyn Fn(&[usize]) -> bool) -> Vec<Tree> {
  let combos = ROLES * pool.len();
  let sizes: Vec<usize> = pool.iter().map(|t| t.n_leaves()).collect();
  let mut out = Vec::new();
  fn rec(start: usize, combos: usize, cur: &mut Vec<usize>, leaves: usize, max_children: usize, max_leaves: usize, sizes: &[usize], npool: usize, sink: &mut Vec<Vec<usize>>) {
    if !cur.is_empty() {
      sink.push(cur.clone());
    }
    if cur.len() == max_children {
      return;
    }
    for c in start..combos {
      let sz = sizes[c % npool];
      if leaves + sz > max_leaves {
        continue;
      }
      cur.push(c);
      rec(c, combos, cur, leaves + sz, max_children, max_leaves, sizes, npool, sink);
      cur.pop();
    }
  }
  let mut sel = Vec::new();
  rec(0, combos, &mut Vec::new(), 0, max_children, max_leaves, &sizes, pool.len(), &mut sel);
  sel.sort_by(|a, b| (a.len(), a.as_slice()).cmp(&(b.len(), b.as_slice())));
  for s in sel {
    let items: Vec<usize> = s.iter().map(|c| c % pool.len()).collect();
    if !keep(&items) {
      continue;
    }
    let mut parts: [Vec<Tree>; 3] = [vec![], vec![], vec![]];
    for c in &s {
      parts[c / pool.len()].push(pool[c % pool.len()].clone());
    }
    let msms = if all_msm { msm_options(parts[1].len()) } else { vec![None] };
    for f in filters {
      for m in &msms {
        out.push(Tree::Bool { must: parts[0].clone(), should: parts[1].clone(), must_not: parts[2].clone(), filter: f.clone(), msm: *m });
      }
    }
  }
  out
}

fn gen_dismax(pool: &[Tree], max_children: usize, max_leaves: usize, keep: &dyn Fn(&[usize]) -> bool) -> Vec<Tree> {
  let mut out = Vec::new();
  for k in 1..=max_children {
    for ms in multisets(pool.len(), k) {
      let leaves: usize = ms.iter().map(|i| pool[*i].n_leaves()).sum();
      if leaves > max_leaves || !keep(&ms) {
        continue;
      }
      out.push(Tree::DisMax(ms.iter().map(|i| pool[*i].clone()).collect()));
    }
  }
  out
}

fn unary_wrappers(t: &Tree) -> Vec<Tree> {
  let b = |t: &Tree| Box::new(t.clone());
  vec![
    Tree::Fs { inner: b(t), min_score: None },
    Tree::Fs { inner: b(t), min_score: Some(1.0) },
    Tree::Fs { inner: b(t), min_score: Some(3.0) },
    Tree::Ss(b(t)),
    Tree::Bool { must: vec![t.clone()], should: vec![], must_not: vec![], filter: None, msm: None },
    Tree::Bool { must: vec![], should: vec![t.clone()], must_not: vec![], filter: None, msm: None },
    Tree::Bool { must: vec![], should: vec![], must_not: vec![t.clone()], filter: None, msm: None },
    Tree::DisMax(vec![t.clone()]),
  ]
}

fn chain_wrappers(t: &Tree) -> Vec<Tree> {
  let b = |t: &Tree| Box::new(t.clone());
  vec![
    Tree::Bool { must: vec![t.clone()], should: vec![], must_not: vec![], filter: None, msm: None },
    Tree::Bool { must: vec![], should: vec![t.clone()], must_not: vec![], filter: None, msm: None },
    Tree::Bool { must: vec![], should: vec![], must_not: vec![t.clone()], filter: None, msm: None },
    Tree::Fs { inner: b(t), min_score: Some(3.0) },
  ]
}

/// Slice A: every leaf of the full alphabet alone and under each unary wrapper.
fn trees_slice_a(leaves: &[Leaf], kw: bool, quick: bool) -> Vec<Tree> {
  let nleaves = leaves.len();
  let mut out: Vec<Tree> = (0..nleaves).map(Tree::L).collect();
  for i in 0..nleaves {
    if matches!(leaves[i], Leaf::Qs { legacy: true, .. }) {
      continue; // a bare string is only accepted as the root query
    }
    if quick {
      // quick: function_score(min_score below the score), script_score, should, must_not
      let w = unary_wrappers(&Tree::L(i));
      out.extend([1usize, 3, 5, 6].iter().map(|k| w[*k].clone()));
    } else {
      out.extend(unary_wrappers(&Tree::L(i)));
    }
    if kw {
      out.push(Tree::Bool { must: vec![Tree::L(i)], should: vec![], must_not: vec![], filter: Some((s("kw"), s("x"))), msm: None });
      out.push(Tree::Bool { must: vec![], should: vec![Tree::L(i)], must_not: vec![], filter: Some((s("kw"), s("y"))), msm: None });
    }
  }
  out
}

/// Slice B: all trees over the core leaves up to the tier's leaf / depth bound.
fn trees_slice_b(core: &[usize], kw: bool, quick: bool) -> (Vec<Tree>, String) {
  let core: Vec<usize> = if quick { core.iter().cloned().filter(|i| *i != 4).collect() } else { core.to_vec() };
  let atoms: Vec<Tree> = core.iter().map(|i| Tree::L(*i)).collect();
  let filters: Vec<Option<(String, String)>> = if kw { vec![None, Some((s("kw"), s("x")))] } else { vec![None] };
  let any = |_: &[usize]| true;
  let mut out: Vec<Tree> = Vec::new();
  // depth 1, flat
  let flat3 = gen_bools(&atoms, 3, 3, &filters, true, &any);
  let dm3 = gen_dismax(&atoms, 3, 3, &any);
  out.extend(flat3.iter().cloned());
  out.extend(dm3.iter().cloned());
  // wrappers over atoms (depth 1) and chains of single-child wrappers
  let mut chain: Vec<Tree> = atoms.clone();
  let chain_depth = if quick { 2 } else { 4 };
  for d in 1..=chain_depth {
    let mut next = Vec::new();
    for t in &chain {
      next.extend(chain_wrappers(t));
    }
    if d >= 2 {
      out.extend(next.iter().cloned());
    }
    chain = next;
  }
  for a in &atoms {
    for w in unary_wrappers(a) {
      if !matches!(w, Tree::Bool { .. } | Tree::DisMax(_)) {
        out.push(w);
      }
    }
  }
  // function_score (keeping / dropping min_score) next to a leaf, in every pair of roles
  for (i, a) in atoms.iter().enumerate() {
    for m in [1.0f32, 3.0] {
      let fs = Tree::Fs { inner: Box::new(a.clone()), min_score: Some(m) };
      for b in atoms.iter().skip(if quick { i } else { 0 }) {
        let pool = vec![fs.clone(), b.clone()];
        let both = |items: &[usize]| items.len() == 2 && items[0] != items[1];
        out.extend(gen_bools(&pool, 2, 2, &[None], false, &both));
        out.push(Tree::DisMax(vec![fs.clone(), b.clone()]));
      }
    }
  }
  // depth 2: unary wrappers over every 2-leaf compound
  let two: Vec<Tree> = flat3.iter().chain(dm3.iter()).filter(|t| t.n_leaves() == 2).cloned().collect();
  for c in &two {
    out.extend(unary_wrappers(c));
  }
  let mut desc = format!(
    "core leaves {} ; bool with <=3 leaf children (multiset of role x leaf) x filter {} x minimum_should_match {{none,0,1,2,#should}}, dis_max with <=3 leaf children, 4 unary scoring wrappers over leaves, single-child chains (must/should/must_not/function_score min_score>score) to depth {}, 8 unary wrappers over every 2-leaf compound, function_score(leaf, min_score below/above the score) beside a leaf in every pair of clause roles and in dis_max",
    core.len(),
    filters.len(),
    chain_depth
  );
  if !quick {
    // 3 leaves, depth 2: a 2-leaf compound (minimum_should_match none) next to a leaf
    let two_plain: Vec<Tree> = two.iter().filter(|t| !matches!(t, Tree::Bool { msm: Some(_), .. } | Tree::Bool { filter: Some(_), .. })).cloned().collect();
    for c in &two_plain {
      for rc in 0..ROLES {
        for ra in 0..ROLES {
          for a in &atoms {
            let mut parts: [Vec<Tree>; 3] = [vec![], vec![], vec![]];
            parts[rc].push(c.clone());
            parts[ra].push(a.clone());
            for m in msm_options(parts[1].len()) {
              out.push(Tree::Bool { must: parts[0].clone(), should: parts[1].clone(), must_not: parts[2].clone(), filter: None, msm: m });
            }
          }
        }
      }
      for a in &atoms {
        out.push(Tree::DisMax(vec![c.clone(), a.clone()]));
      }
    }
    // 4 leaves flat over the first four core leaves
    let four: Vec<Tree> = atoms.iter().take(4).cloned().collect();
    let exactly4 = |items: &[usize]| items.len() == 4;
    out.extend(gen_bools(&four, 4, 4, &[None], true, &exactly4));
    out.extend(gen_dismax(&four, 4, 4, &exactly4));
    desc.push_str(" ; 3-leaf depth-2 trees (bool / dis_max holding one 2-leaf compound and one leaf) ; flat 4-leaf bool / dis_max over the first 4 core leaves");
  }
  (out, desc)
}

/// Slice N (nested compounds under a counting parent): every parent bool that holds ONE 2-leaf
/// compound child (bool-should with minimum_should_match none / 1 / 2, bool-must, dis_max, over
/// every unordered pair of core leaves) in each of the roles must / should / must_not, together with
/// a multiset of `min_leaf_children..=max_leaf_children` (role x leaf) children, x every
/// minimum_should_match in {none, 0, 1, 2, #should}.
fn trees_slice_n(atoms: &[usize], min_leaf_children: usize, max_leaf_children: usize) -> Vec<Tree> {
  let mut compounds: Vec<Tree> = Vec::new();
  for (x, i) in atoms.iter().enumerate() {
    for j in atoms.iter().skip(x) {
      let pair = vec![Tree::L(*i), Tree::L(*j)];
      for m in [None, Some(1), Some(2)] {
        compounds.push(Tree::Bool { must: vec![], should: pair.clone(), must_not: vec![], filter: None, msm: m });
      }
      compounds.push(Tree::Bool { must: pair.clone(), should: vec![], must_not: vec![], filter: None, msm: None });
      compounds.push(Tree::DisMax(pair.clone()));
    }
  }
  let combos = ROLES * atoms.len();
  let mut out = Vec::new();
  for k in min_leaf_children..=max_leaf_children {
    for ms in multisets(combos, k) {
      for c in &compounds {
        for rc in 0..ROLES {
          let mut parts: [Vec<Tree>; 3] = [vec![], vec![], vec![]];
          parts[rc].push(c.clone());
          for x in &ms {
            parts[x / atoms.len()].push(Tree::L(atoms[x % atoms.len()]));
          }
          for m in msm_options(parts[1].len()) {
            out.push(Tree::Bool { must: parts[0].clone(), should: parts[1].clone(), must_not: parts[2].clone(), filter: None, msm: m });
          }
        }
      }
    }
  }
  out
}

/// Slice C: trees sent together with a fuzzy option.
fn trees_slice_c(leaves: &[Leaf]) -> Vec<Tree> {
  let ok: Vec<usize> = (0..leaves.len()).filter(|i| leaves[*i].fuzzy_ok() && !matches!(leaves[*i], Leaf::MatchAll)).collect();
  // legacy strings are root-only; pairs below are built from term leaves only
  let mut out: Vec<Tree> = ok.iter().map(|i| Tree::L(*i)).collect();
  let terms: Vec<usize> = ok.iter().cloned().filter(|i| matches!(leaves[*i], Leaf::Term { .. })).take(5).collect();
  for (x, i) in terms.iter().enumerate() {
    for j in terms.iter().skip(x + 1) {
      out.push(Tree::Bool { must: vec![Tree::L(*i), Tree::L(*j)], should: vec![], must_not: vec![], filter: None, msm: None });
      out.push(Tree::Bool { must: vec![], should: vec![Tree::L(*i), Tree::L(*j)], must_not: vec![], filter: None, msm: None });
      out.push(Tree::DisMax(vec![Tree::L(*i), Tree::L(*j)]));
    }
  }
  out
}

// ---------------------------------------------------------------------------------------------
// Slice P: phrases over schemas whose SEARCH analyzer emits several tokens at one position.
// README: synonyms are "expanded at the same position"; "You can also roll your own by defining an
// analyzer with an edge_ngram filter"; phrase + slop as for every other schema. A phrase position
// matches when ANY of the alternatives the search analyzer emits for it stands at that position of
// the document (document tokens from the index analyzer) - the generic rule of `doc_has_phrase`.

struct PSpec {
  name: &'static str,
  schema: Value,
  /// document token alphabet: start token, the alternatives, filler
  alphabet: Vec<&'static str>,
  start: &'static str,
  filler: &'static str,
  /// query terms for which the search analyzer emits several tokens
  multis: Vec<&'static str>,
  max_len_quick: usize,
  max_len_thorough: usize,
}

fn pspecs() -> Vec<PSpec> {
  let syn_schema = |rules: Value| {
    json!({"doc_id_field": "_id",
      "analyzers": [{"name": "syn", "tokenizer": "default", "filters": [{"synonyms": rules}]}],
      "text_fields": [{"name": "body", "analyzer": "default", "search_analyzer": "syn", "stored": true, "indexed": true}],
      "keyword_fields": [], "numeric_fields": []})
  };
  vec![
    PSpec { name: "P-search-synonym-one-way", schema: syn_schema(json!([{"from": ["f"], "to": ["q"]}])), alphabet: vec!["r", "f", "q", "x"], start: "r", filler: "x", multis: vec!["f"], max_len_quick: 6, max_len_thorough: 6 },
    PSpec { name: "P-search-synonym-two-way", schema: syn_schema(json!([{"from": ["f"], "to": ["q"]}, {"from": ["q"], "to": ["f"]}])), alphabet: vec!["r", "f", "q", "x"], start: "r", filler: "x", multis: vec!["f", "q"], max_len_quick: 5, max_len_thorough: 6 },
    PSpec { name: "P-search-synonym-multi-target", schema: syn_schema(json!([{"from": ["f"], "to": ["q", "s"]}])), alphabet: vec!["r", "f", "q", "s", "x"], start: "r", filler: "x", multis: vec!["f"], max_len_quick: 5, max_len_thorough: 6 },
    PSpec {
      name: "P-edge-ngram-index-and-search",
      schema: json!({"doc_id_field": "_id",
        "analyzers": [{"name": "ng", "tokenizer": "default", "filters": [{"edge_ngram": {"min": 1, "max": 2}}]}],
        "text_fields": [{"name": "body", "analyzer": "ng", "stored": true, "indexed": true}],
        "keyword_fields": [], "numeric_fields": []}),
      alphabet: vec!["r", "ab", "a", "x"],
      start: "r",
      filler: "x",
      multis: vec!["ab"],
      max_len_quick: 5,
      max_len_thorough: 6,
    },
  ]
}

/// Leaves of slice P: phrases of 2..3 terms with the multi-token term at each slot x slop 0..3 as
/// phrase node, the same phrases as query-string phrase (slop 0), and the start term.
fn p_leaves(ps: &PSpec) -> Vec<Leaf> {
  let (r, x) = (ps.start, ps.filler);
  let mut phrases: Vec<Vec<&str>> = Vec::new();
  for m in &ps.multis {
    phrases.extend([vec![r, *m], vec![*m, r], vec![x, *m], vec![*m, x], vec![*m, *m]]);
    phrases.extend([vec![*m, r, x], vec![r, *m, x], vec![r, x, *m], vec![r, *m, r]]);
  }
  let mut l = vec![Leaf::Term { field: s("body"), value: s(r) }];
  for p in &phrases {
    let terms: Vec<String> = p.iter().map(|t| s(t)).collect();
    for slop in 0..=3u32 {
      l.push(Leaf::Phrase { field: Some(s("body")), terms: terms.clone(), slop });
    }
    l.push(Leaf::Qs { text: format!("\"{}\"", p.join(" ")), legacy: false, fields: None, terms: vec![], nots: vec![], phrases: vec![(None, terms.clone())] });
  }
  l
}

/// Trees of slice P: every leaf alone; every phrase node under bool must / should / must_not and as
/// a must clause next to the scored start term.
fn trees_slice_p(leaves: &[Leaf]) -> Vec<Tree> {
  let mut out: Vec<Tree> = (0..leaves.len()).map(Tree::L).collect();
  for i in 0..leaves.len() {
    if !matches!(leaves[i], Leaf::Phrase { .. }) {
      continue;
    }
    let b = |must: Vec<Tree>, should: Vec<Tree>, must_not: Vec<Tree>| Tree::Bool { must, should, must_not, filter: None, msm: None };
    out.push(b(vec![Tree::L(i)], vec![], vec![]));
    out.push(b(vec![], vec![Tree::L(i)], vec![]));
    out.push(b(vec![], vec![], vec![Tree::L(i)]));
    out.push(b(vec![Tree::L(i), Tree::L(0)], vec![], vec![]));
  }
  out
}

/// Worlds of slice P: EVERY document of 3..=max_len tokens over the alphabet, eight consecutive
/// documents per world, each world as one segment and as two segments.
fn worlds_slice_p(ps: &PSpec, max_len: usize) -> Vec<World> {
  let texts: Vec<String> = sequences(&ps.alphabet, 3, max_len).into_iter().map(|t| t.join(" ")).collect();
  let mut out = Vec::new();
  for chunk in texts.chunks(8) {
    let docs: Vec<Value> = chunk.iter().enumerate().map(|(i, t)| json!({"_id": id_of(i), "body": t})).collect();
    let n = docs.len();
    out.push(World::new(ps.name, ps.schema.clone(), docs.clone()));
    if n >= 2 {
      out.push(World::new(ps.name, ps.schema.clone(), docs).with_layout(vec![n / 2, n - n / 2]));
    }
  }
  out
}

// ---------------------------------------------------------------------------------------------
// Worlds

fn gen_worlds(sp: &Spec, shapes: &[Value], max_docs: usize) -> Vec<World> {
  let idx: Vec<usize> = (0..shapes.len()).collect();
  let mut out = Vec::new();
  for seq in sequences(&idx, 1, max_docs) {
    let docs: Vec<Value> = seq
      .iter()
      .enumerate()
      .map(|(i, sidx)| {
        let mut d = shapes[*sidx].clone();
        d["_id"] = json!(id_of(i));
        d
      })
      .collect();
    for lay in compositions(docs.len()) {
      for del in 0..=docs.len() {
        let mut w = World::new(sp.name, sp.schema.clone(), docs.clone()).with_layout(lay.clone());
        if del > 0 {
          w.deleted = vec![id_of(del - 1)];
        }
        out.push(w);
      }
    }
  }
  out
}

// ---------------------------------------------------------------------------------------------
// Judging one case, classification of failures

const SIG_H6_SHOULD: &str = "C07-should-clause-required-when-scored-terms";
const SIG_H6_OTHER: &str = "C07-unscored-alternative-dropped-when-scored-terms";
const SIG_REDUCED: &str = "C07-wildcard-regex-pattern-reduced-by-analyzer";
const SIG_PREFIX: &str = "C07-regex-prefix-scan-includes-quantified-char";
const SIG_MIN_SCORE_HOOK: &str = "C07-function-score-min-score-applied-by-score-hook-not-matcher";
const SIG_H6_SUFFIX: &str = "+scored-terms-candidates";
const H9_PANIC: &str = "Inconsistent leaf for term key";

enum Outcome {
  Pass { expected: u8 },
  Undetermined,
  /// debug assertion of H9 (same term key in two scoring leaves): owned by C10 / C16, not judged
  H9Panic,
  Fail { sig: Option<String>, what: String, expected: u8, actual: Option<u8> },
}

fn ids_of(mask: u8, v: &View) -> Vec<String> {
  (0..v.n()).filter(|d| mask & (1 << d) != 0).map(|d| v.ids[d].clone()).collect()
}

/// Static: is there a term-bearing leaf in scoring position inside `t`?
fn term_bearing(t: &Tree, le: &[LeafEval]) -> bool {
  match t {
    Tree::L(i) => le[*i].term_bearing,
    Tree::Bool { must, should, .. } => must.iter().chain(should).any(|c| term_bearing(c, le)),
    Tree::DisMax(ts) => ts.iter().any(|c| term_bearing(c, le)),
    Tree::Fs { inner, .. } => term_bearing(inner, le),
    Tree::Ss(inner) => term_bearing(inner, le),
  }
}

/// The shape named in the property: a bool with a must or filter clause, no (or zero)
/// minimum_should_match, and a should clause that contributes scored terms.
fn has_optional_should_with_terms(t: &Tree, le: &[LeafEval]) -> bool {
  match t {
    Tree::L(_) => false,
    Tree::Bool { must, should, must_not: _, filter, msm } => {
      let here = (!must.is_empty() || filter.is_some()) && matches!(msm, None | Some(0)) && should.iter().any(|c| term_bearing(c, le));
      here || must.iter().chain(should).any(|c| has_optional_should_with_terms(c, le))
    }
    Tree::DisMax(ts) => ts.iter().any(|c| has_optional_should_with_terms(c, le)),
    Tree::Fs { inner, .. } => has_optional_should_with_terms(inner, le),
    Tree::Ss(inner) => has_optional_should_with_terms(inner, le),
  }
}

fn has_dropping_fs(t: &Tree) -> bool {
  match t {
    Tree::L(_) => false,
    Tree::Bool { must, should, must_not, .. } => must.iter().chain(should).chain(must_not).any(has_dropping_fs),
    Tree::DisMax(ts) => ts.iter().any(has_dropping_fs),
    Tree::Fs { inner, min_score } => min_score.map_or(false, |m| m > 2.0) || has_dropping_fs(inner),
    Tree::Ss(inner) => has_dropping_fs(inner),
  }
}

/// Narrow classifiers; each models ONE defect of the code and must reproduce the observed set
/// exactly, otherwise the failure stays unexplained.
///  * scored-terms candidates (H6): when the query has scored terms, candidates are the postings
///    of those terms only: observed = expected ∩ {documents holding a scored term}.
///  * pattern reduced: a wildcard / regex pattern that the search analyzer reduces to one different
///    token is executed as that literal token.
///  * regex prefix: the dictionary scan uses the leading literal characters of a regex although the
///    last one is quantified (? * {).
///  * min_score in the scoring hook: a function_score matches like its inner query; min_score only
///    makes the score tree yield no score, and a document is dropped when the whole score tree
///    yields none (so a sibling's score rescues it and an optional clause can veto it).
fn classify(t: &Tree, le: &[LeafEval], v: &View, e: &TreeEval, actual: u8) -> Option<String> {
  let exp = e.mask & v.live;
  let h6 = |t: &Tree| if has_optional_should_with_terms(t, le) { SIG_H6_SHOULD } else { SIG_H6_OTHER };
  if e.term_bearing && actual != exp && actual == exp & e.scored {
    return Some(h6(t).to_string());
  }
  let mut ids = Vec::new();
  t.leaf_ids(&mut ids);
  let mut kinds = 0u8;
  if ids.iter().any(|i| le[*i].alt.is_some()) {
    kinds |= ALT_REDUCED;
  }
  if ids.iter().any(|i| le[*i].alt_prefix.is_some()) {
    kinds |= ALT_PREFIX;
  }
  if has_dropping_fs(t) {
    kinds |= ALT_MIN_SCORE_HOOK;
  }
  let mut subsets: Vec<u8> = (1u8..8).filter(|sub| sub & !kinds == 0).collect();
  subsets.sort_by_key(|x| x.count_ones());
  for sub in subsets {
    let Some(ea) = eval_tree(t, le, v, sub) else { continue };
    let mut ex2 = ea.mask & v.live;
    if sub & ALT_MIN_SCORE_HOOK != 0 {
      let Some((empty, some)) = score_some(t, le, v, sub, true) else { continue };
      if !empty {
        ex2 &= some;
      }
    }
    let mut name: Vec<&str> = Vec::new();
    for (bit, nm) in [(ALT_REDUCED, SIG_REDUCED), (ALT_PREFIX, SIG_PREFIX), (ALT_MIN_SCORE_HOOK, SIG_MIN_SCORE_HOOK)] {
      if sub & bit != 0 {
        name.push(nm);
      }
    }
    if actual == ex2 {
      return Some(name.join("+"));
    }
    if ea.term_bearing && actual == ex2 & ea.scored {
      return Some(format!("{}{}", name.join("+"), SIG_H6_SUFFIX));
    }
  }
  None
}

fn judge(t: &Tree, le: &[LeafEval], v: &View, res: &Result<searchlite_core::api::SearchResult, String>, obligation: bool) -> Outcome {
  let Some(e) = eval_tree(t, le, v, 0) else { return Outcome::Undetermined };
  let expected = e.mask & v.live;
  let r = match res {
    Ok(r) => r,
    Err(msg) => {
      if msg.contains(H9_PANIC) {
        return Outcome::H9Panic;
      }
      return Outcome::Fail { sig: None, what: format!("search failed: {msg}"), expected, actual: None };
    }
  };
  let mut actual = 0u8;
  for h in &r.hits {
    match v.ids.iter().position(|x| *x == h.doc_id) {
      Some(d) => {
        if actual & (1 << d) != 0 {
          return Outcome::Fail { sig: None, what: format!("document {} returned twice", h.doc_id), expected, actual: None };
        }
        actual |= 1 << d;
      }
      None => return Outcome::Fail { sig: None, what: format!("unknown document id {} returned", h.doc_id), expected, actual: None },
    }
  }
  if r.next_cursor.is_some() {
    return Outcome::Fail { sig: None, what: "limit 100 does not cover the corpus (next_cursor present)".into(), expected, actual: Some(actual) };
  }
  if obligation {
    if expected & !actual != 0 {
      return Outcome::Fail { sig: None, what: format!("an indexed word does not find its document: missing {:?}", ids_of(expected & !actual, v)), expected, actual: Some(actual) };
    }
    return Outcome::Pass { expected };
  }
  if actual == expected {
    return Outcome::Pass { expected };
  }
  let sig = classify(t, le, v, &e, actual);
  let what = format!("returned {:?}, documented semantics give {:?} (missing {:?}, unexpected {:?})", ids_of(actual, v), ids_of(expected, v), ids_of(expected & !actual, v), ids_of(actual & !expected, v));
  Outcome::Fail { sig, what, expected, actual: Some(actual) }
}

fn build_request(query: &Value, fz: Option<&Fuzzy>) -> SearchRequest {
  let mut r = json!({"query": query, "limit": 100, "execution": "bm25"});
  if let Some(f) = fz {
    r["fuzzy"] = f.to_json();
  }
  match try_req(r) {
    Ok(r) => r,
    Err(e) => vcore::ev::machinery_failure(&format!("query alphabet produced an unparsable request {query}: {e:#}")),
  }
}

/// Self-contained description of a case (replay input).
fn case_json(world: &World, leaves: &[Leaf], t: &Tree, fz: Option<&Fuzzy>, obligation: bool, expected: Vec<String>, observed: Option<Vec<String>>) -> Value {
  let mut ids = Vec::new();
  t.leaf_ids(&mut ids);
  let uniq: Vec<usize> = ids.iter().cloned().collect::<BTreeSet<_>>().into_iter().collect();
  let map: HashMap<usize, usize> = uniq.iter().enumerate().map(|(n, o)| (*o, n)).collect();
  let used: Vec<Leaf> = uniq.iter().map(|i| leaves[*i].clone()).collect();
  let tr = t.remap(&map);
  json!({"engine": "inputmc-query", "world": world.to_json(), "leaves": used, "tree": tr, "fuzzy": fz,
    "obligation": obligation, "query": tr.to_json(&used), "expected": expected, "observed": observed})
}

/// Run one self-contained case from scratch (replay, and double-run of witnesses).
fn run_case(cs: &Value) -> Result<Option<(Option<String>, String)>, String> {
  Ok(run_case_full(cs)?.map(|f| (f.0, f.1)))
}

/// (signature, what, expected ids, observed ids) of a failing case.
type CaseFail = (Option<String>, String, Vec<String>, Option<Vec<String>>);

fn run_case_full(cs: &Value) -> Result<Option<CaseFail>, String> {
  let world = World::from_json(&cs["world"]);
  let leaves: Vec<Leaf> = serde_json::from_value(cs["leaves"].clone()).map_err(|e| format!("leaves: {e}"))?;
  let tree: Tree = serde_json::from_value(cs["tree"].clone()).map_err(|e| format!("tree: {e}"))?;
  let fz: Option<Fuzzy> = serde_json::from_value(cs["fuzzy"].clone()).map_err(|e| format!("fuzzy: {e}"))?;
  let obligation = cs["obligation"].as_bool().unwrap_or(false);
  let ana = Ana::new(&world.schema_json);
  let view = View::new(&ana, &world);
  let le: Vec<LeafEval> = leaves.iter().map(|l| view.eval_leaf(l, fz.as_ref())).collect();
  let idx = world.build();
  let reader = idx.reader().map_err(|e| format!("reader: {e:#}"))?;
  let rq = build_request(&tree.to_json(&leaves), fz.as_ref());
  let res = search_caught(&reader, &rq);
  Ok(match judge(&tree, &le, &view, &res, obligation) {
    Outcome::Fail { sig, what, expected, actual } => Some((sig, what, ids_of(expected, &view), actual.map(|a| ids_of(a, &view)))),
    _ => None,
  })
}

/// Witness minimisation: if the same failure class shows on a corpus reduced to ONE of the
/// documents the two sides disagree on, report that single-document case instead.
fn shrink_witness(sig: Option<&str>, what: &str, case: &Value) -> (String, Value) {
  let docs = case["world"]["docs"].as_array().cloned().unwrap_or_default();
  if docs.len() > 1 {
    let ids = |v: &Value| -> Vec<String> { v.as_array().map(|a| a.iter().filter_map(|x| x.as_str().map(|s| s.to_string())).collect()).unwrap_or_default() };
    let (exp, obs) = (ids(&case["expected"]), ids(&case["observed"]));
    for d in &docs {
      let id = d["_id"].as_str().unwrap_or("").to_string();
      if exp.contains(&id) == obs.contains(&id) {
        continue;
      }
      let mut c = case.clone();
      c["world"]["docs"] = json!([d]);
      c["world"]["layout"] = json!([1]);
      c["world"]["deleted"] = json!([]);
      if let Ok(Some((s2, w2, e2, o2))) = run_case_full(&c) {
        if s2.as_deref() == sig {
          c["expected"] = json!(e2);
          c["observed"] = json!(o2);
          let w = World::from_json(&c["world"]);
          return (format!("{} query={}: {} [shrunk from a {}-document corpus]", w.describe(), c["query"], w2, docs.len()), c);
        }
      }
    }
  }
  (what.to_string(), case.clone())
}

// ---------------------------------------------------------------------------------------------
// Accumulation: per signature a count and the smallest witnesses (rank = simplest first).

type Rank = (usize, usize, usize, usize, usize, usize, usize, usize);

struct SigAcc {
  count: u64,
  best: Vec<(Rank, String, Value)>,
}

struct Acc {
  evals: AtomicU64,
  nontrivial: AtomicU64,
  undetermined: AtomicU64,
  h9: AtomicU64,
  obligations: AtomicU64,
  /// judged cases in which a live document holds >= 2 alternatives of one multi-token phrase position
  multi_alt_cases: AtomicU64,
  worlds_done: AtomicU64,
  outcomes: Mutex<BTreeSet<String>>,
  fails: Mutex<BTreeMap<String, SigAcc>>,
  per_slice: Mutex<BTreeMap<String, (u64, u64)>>,
  /// triage aid: unexplained failures grouped by (schema, query), bounded
  unexplained: Mutex<BTreeMap<String, u64>>,
  /// per spec, per leaf: was the leaf decided by the oracle in at least one world?
  decided: Vec<Vec<AtomicBool>>,
}

impl Acc {
  fn record_fail(&self, sig: Option<String>, rank: Rank, mk: &dyn Fn() -> (String, Value)) {
    let key = sig.unwrap_or_else(|| "-".to_string());
    let mut f = self.fails.lock();
    let e = f.entry(key).or_insert_with(|| SigAcc { count: 0, best: Vec::new() });
    e.count += 1;
    let keep = 3;
    if e.best.len() < keep || rank < e.best.last().unwrap().0 {
      let (what, case) = mk();
      e.best.push((rank, what, case));
      e.best.sort_by(|a, b| a.0.cmp(&b.0));
      e.best.truncate(keep);
    }
  }
}

struct Prepared {
  tree: Tree,
  req: SearchRequest,
  n_leaves: usize,
  depth: usize,
  fuzzy: Option<usize>,
  leaf_ids: Vec<usize>,
}

struct Slice {
  name: &'static str,
  ord: usize,
  spec: usize,
  trees: Vec<Prepared>,
  worlds: Vec<World>,
  obligations: bool,
}

fn prepare(trees: Vec<Tree>, leaves: &[Leaf], fz: Option<(usize, &Fuzzy)>) -> Vec<Prepared> {
  trees
    .into_par_iter()
    .map(|t| {
      let q = t.to_json(leaves);
      let mut leaf_ids = Vec::new();
      t.leaf_ids(&mut leaf_ids);
      Prepared { req: build_request(&q, fz.map(|f| f.1)), n_leaves: t.n_leaves(), depth: t.depth(), fuzzy: fz.map(|f| f.0), leaf_ids, tree: t }
    })
    .collect()
}

// ---------------------------------------------------------------------------------------------

fn run_world(acc: &Acc, sl: &Slice, widx: usize, sp_leaves: &[Leaf], ana: &Ana, fz_opts: &[Fuzzy]) {
  let world = &sl.worlds[widx];
  let view = View::new(ana, world);
  let idx = world.build();
  let reader = match idx.reader() {
    Ok(r) => r,
    Err(e) => vcore::ev::machinery_failure(&format!("reader for {}: {e:#}", world.describe())),
  };
  // leaf evaluations: index 0 = no fuzzy, 1.. = fuzzy options
  let mut les: Vec<Option<Vec<LeafEval>>> = vec![None; fz_opts.len() + 1];
  let nlive = view.live.count_ones() as usize;
  let mut evals = 0u64;
  let mut nontrivial = 0u64;
  let mut undetermined = 0u64;
  let mut h9 = 0u64;
  let mut multi_alt = 0u64;
  let mut local_outcomes: BTreeSet<(u32, usize)> = BTreeSet::new();
  for (tidx, p) in sl.trees.iter().enumerate() {
    let slot = p.fuzzy.map_or(0, |f| f + 1);
    if les[slot].is_none() {
      let fz = p.fuzzy.map(|f| &fz_opts[f]);
      let ev: Vec<LeafEval> = sp_leaves.iter().map(|l| view.eval_leaf(l, fz)).collect();
      if slot == 0 {
        for (i, e) in ev.iter().enumerate() {
          if e.mask.is_some() {
            acc.decided[sl.spec][i].store(true, Ordering::Relaxed);
          }
        }
      }
      les[slot] = Some(ev);
    }
    let le = les[slot].as_ref().unwrap();
    // cheap pre-check: skip undetermined cases without searching
    if eval_tree(&p.tree, le, &view, 0).is_none() {
      undetermined += 1;
      continue;
    }
    let res = search_caught(&reader, &p.req);
    evals += 1;
    if p.leaf_ids.iter().any(|i| le[*i].multi_alt & view.live != 0) {
      multi_alt += 1;
    }
    match judge(&p.tree, le, &view, &res, false) {
      Outcome::Pass { expected } => {
        let k = expected.count_ones();
        if k > 0 && (k as usize) < nlive {
          nontrivial += 1;
        }
        local_outcomes.insert((k, nlive));
      }
      Outcome::Undetermined => undetermined += 1,
      Outcome::H9Panic => h9 += 1,
      // README shows function_score.min_score only by example and does not say how a clause that
      // drops documents through min_score composes inside bool / must_not. Cases that are
      // explained exactly by the "min_score acts on the final score, not on matching" reading are
      // therefore not demanded (two admissible readings), not reported.
      Outcome::Fail { sig: Some(ref s), .. } if s.contains(SIG_MIN_SCORE_HOOK) => undetermined += 1,
      Outcome::Fail { sig, what, expected, actual } => {
        let rank: Rank = (world.docs.len(), p.n_leaves, p.depth, world.layout.len(), world.deleted.len(), sl.ord, widx, tidx);
        let fz = p.fuzzy.map(|f| &fz_opts[f]);
        if sig.is_none() {
          let mut u = acc.unexplained.lock();
          if u.len() < 400 {
            *u.entry(format!("{} {}{}", world.schema_name, p.tree.to_json(sp_leaves), fz.map(|f| format!(" fuzzy={}", f.to_json())).unwrap_or_default())).or_insert(0) += 1;
          }
        }
        acc.record_fail(sig, rank, &|| {
          let cs = case_json(world, sp_leaves, &p.tree, fz, false, ids_of(expected, &view), actual.map(|a| ids_of(a, &view)));
          let w = format!("{} query={}{}: {}", world.describe(), cs["query"], fz.map(|f| format!(" fuzzy={}", f.to_json())).unwrap_or_default(), what);
          (w, cs)
        });
      }
    }
  }
  // second obligation: every token the index analyzer emits for a live document finds it
  if sl.obligations {
    let mut seen: BTreeSet<(String, String)> = BTreeSet::new();
    for d in 0..view.n() {
      if view.live & (1 << d) == 0 {
        continue;
      }
      for f in &ana.text_fields {
        for tok in view.field_tokens(d, f) {
          if !seen.insert((f.clone(), tok.to_string())) {
            continue;
          }
          // only where index and search analyzers agree on the token
          let agrees = view.term_alts(f, tok).map_or(false, |a| a.iter().any(|x| x == tok));
          if !agrees {
            continue;
          }
          let leaf = Leaf::Term { field: f.clone(), value: tok.to_string() };
          let le = vec![view.eval_leaf(&leaf, None)];
          let tree = Tree::L(0);
          let rq = build_request(&leaf.to_json(), None);
          let res = search_caught(&reader, &rq);
          acc.obligations.fetch_add(1, Ordering::Relaxed);
          if let Outcome::Fail { sig, what, expected, actual } = judge(&tree, &le, &view, &res, true) {
            let rank: Rank = (world.docs.len(), 1, 0, world.layout.len(), world.deleted.len(), sl.ord, widx, usize::MAX);
            let leaves = vec![leaf.clone()];
            acc.record_fail(sig, rank, &|| {
              let cs = case_json(world, &leaves, &tree, None, true, ids_of(expected, &view), actual.map(|a| ids_of(a, &view)));
              (format!("{} query={}: {}", world.describe(), cs["query"], what), cs)
            });
          }
        }
      }
    }
  }
  acc.evals.fetch_add(evals, Ordering::Relaxed);
  acc.nontrivial.fetch_add(nontrivial, Ordering::Relaxed);
  acc.undetermined.fetch_add(undetermined, Ordering::Relaxed);
  acc.h9.fetch_add(h9, Ordering::Relaxed);
  acc.multi_alt_cases.fetch_add(multi_alt, Ordering::Relaxed);
  acc.worlds_done.fetch_add(1, Ordering::Relaxed);
  {
    let mut o = acc.outcomes.lock();
    for (k, n) in local_outcomes {
      o.insert(format!("{k}of{n}"));
    }
  }
  {
    let mut ps = acc.per_slice.lock();
    let e = ps.entry(format!("{}:{}", sl.name, world.schema_name)).or_insert((0, 0));
    e.0 += 1;
    e.1 += evals;
  }
}

fn replay(path: &str) -> i32 {
  let v: Value = serde_json::from_slice(&std::fs::read(path).expect("replay file")).expect("json");
  let cs = &v["case"];
  let (a, b) = (run_case(cs), run_case(cs));
  let (a, b) = match (a, b) {
    (Ok(a), Ok(b)) => (a, b),
    (Err(e), _) | (_, Err(e)) => vcore::ev::machinery_failure(&format!("replay: {e}")),
  };
  if a.is_some() != b.is_some() || a.as_ref().map(|x| &x.1) != b.as_ref().map(|x| &x.1) {
    vcore::ev::machinery_failure("NONDETERMINISM on replay");
  }
  match a {
    Some((sig, what)) => {
      println!("VIOLATION property=C07 replay={path}\n  signature: {}\n  what: query={} {}", sig.unwrap_or_else(|| "-".into()), cs["query"], what);
      1
    }
    None => {
      println!("replay: no violation");
      0
    }
  }
}

pub fn run(ctx: &Ctx) -> i32 {
  if let Some(path) = &ctx.replay {
    return replay(path);
  }
  let rep = Reporter::new("C07", ctx.tier, "exploration");
  let quick = ctx.tier.is_quick();
  let sps = specs();
  let fz_opts = fuzzy_options();
  let anas: Vec<Ana> = sps.iter().map(|sp| Ana::new(&sp.schema)).collect();
  let alphabets: Vec<(Vec<Leaf>, Vec<usize>)> = sps.iter().map(leaf_alphabet).collect();
  let mut slices: Vec<Slice> = Vec::new();
  let mut bounds: Vec<Value> = Vec::new();
  for (si, sp) in sps.iter().enumerate() {
    let (leaves, core) = &alphabets[si];
    // slice A
    let a_docs = if quick { 2 } else { 3 };
    let ta = trees_slice_a(leaves, sp.kw, quick);
    // quick: 2-document corpora over the first 9 shapes
    let mut wa = if quick {
      let nine: Vec<Value> = sp.docs_full.iter().take(9).cloned().collect();
      let mut w = gen_worlds(sp, &sp.docs_full, 1);
      w.extend(gen_worlds(sp, &nine, 2).into_iter().filter(|w| w.docs.len() == 2));
      w
    } else {
      gen_worlds(sp, &sp.docs_full, 2)
    };
    if !quick {
      // 3-document corpora over the first 8 shapes
      let eight: Vec<Value> = sp.docs_full.iter().take(8).cloned().collect();
      wa.extend(gen_worlds(sp, &eight, 3).into_iter().filter(|w| w.docs.len() == 3));
    }
    if std::env::var("VERIF_C07_TIMING").is_ok() {
      println!("  setup {} slice A generated at {:.1}s", sp.name, rep.elapsed_s());
    }
    bounds.push(json!({"slice": "A-leaf-semantics", "schema": sp.name, "doc_shapes": sp.docs_full.len(), "max_docs": a_docs, "doc_shapes_for_3_doc_corpora": 8, "worlds": wa.len(), "leaves": leaves.len(), "trees": ta.len()}));
    slices.push(Slice { name: "A", ord: 3, spec: si, trees: prepare(ta, leaves, None), worlds: wa, obligations: true });
    // slice B
    // quick: S0 gets corpora of <= 2 documents over 4 shapes + 3-document corpora over 3 shapes,
    // S3 <= 2 documents over 3 shapes, the analyzer variants <= 2 documents over 2 shapes
    let (b_shapes, b_docs): (Vec<Value>, usize) = if quick {
      (sp.docs_core.iter().take(if si == 0 { 4 } else if sp.kw { 3 } else { 2 }).cloned().collect(), 2)
    } else {
      (sp.docs_core.clone(), 3)
    };
    // the full thorough tree set runs on the default-analyzer schemas (S0, S3); the analyzer
    // variants get the quick tree set (combinator logic does not depend on the analyzer)
    let full_b = !quick && (si == 0 || sp.kw);
    let (tb, desc) = trees_slice_b(core, sp.kw, !full_b);
    let mut wb = gen_worlds(sp, &b_shapes, b_docs);
    if std::env::var("VERIF_C07_TIMING").is_ok() {
      println!("  setup {} trees/worlds generated at {:.1}s", sp.name, rep.elapsed_s());
    }
    if quick && si == 0 {
      let three: Vec<Value> = sp.docs_core.iter().take(3).cloned().collect();
      wb.extend(gen_worlds(sp, &three, 3).into_iter().filter(|w| w.docs.len() == 3));
    }
    if !quick && !sp.kw {
      // 4-document corpora over the first two core shapes
      let two: Vec<Value> = sp.docs_core.iter().take(2).cloned().collect();
      wb.extend(gen_worlds(sp, &two, 4).into_iter().filter(|w| w.docs.len() == 4));
    }
    bounds.push(json!({"slice": "B-combinators", "schema": sp.name, "doc_shapes": b_shapes.len(), "max_docs": if quick { if si == 0 { 3 } else { 2 } } else if sp.kw { 3 } else { 4 }, "doc_shapes_for_3_doc_corpora_quick_S0": 3, "doc_shapes_for_4_doc_corpora": 2, "worlds": wb.len(), "trees": tb.len(), "tree_bound": desc}));
    slices.push(Slice { name: "B", ord: 1, spec: si, trees: prepare(tb, leaves, None), worlds: wb, obligations: false });
    // slice N (schema S0): compound children under a counting parent bool
    if si == 0 {
      let atoms: Vec<usize> = if quick { core.iter().cloned().filter(|i| *i != 4).collect() } else { core.to_vec() };
      let four: Vec<Value> = sp.docs_core.iter().take(4).cloned().collect();
      // N1: parent with the compound and <= 1 leaf child (quick) / <= 2 leaf children (thorough)
      let tn1 = trees_slice_n(&atoms, 0, if quick { 1 } else { 2 });
      let wn1 = if quick { gen_worlds(sp, &four, 2) } else { gen_worlds(sp, &sp.docs_core, 2) };
      bounds.push(json!({"slice": "N-nested-compound-children", "schema": sp.name, "core_leaves": atoms.len(), "leaf_children": if quick { "0..=1" } else { "0..=2" }, "doc_shapes": if quick { 4 } else { sp.docs_core.len() }, "max_docs": 2, "worlds": wn1.len(), "trees": tn1.len()}));
      slices.push(Slice { name: "N1", ord: 0, spec: si, trees: prepare(tn1, leaves, None), worlds: wn1, obligations: false });
      // N2: the 3-children parents (compound + 2 leaf children) over the first 4 core leaves
      let atoms4: Vec<usize> = core.iter().cloned().filter(|i| *i != 4).collect();
      let tn2 = trees_slice_n(&atoms4, 2, 2);
      let wn2: Vec<World> = if quick { gen_worlds(sp, &four, 1) } else { gen_worlds(sp, &four, 3).into_iter().filter(|w| w.docs.len() == 3).collect() };
      bounds.push(json!({"slice": "N-nested-compound-children", "schema": sp.name, "core_leaves": atoms4.len(), "leaf_children": "2", "doc_shapes": 4, "docs": if quick { 1 } else { 3 }, "worlds": wn2.len(), "trees": tn2.len()}));
      slices.push(Slice { name: "N2", ord: 0, spec: si, trees: prepare(tn2, leaves, None), worlds: wn2, obligations: false });
    }
    // slice C
    let tc = trees_slice_c(leaves);
    let mut pc = Vec::new();
    let nfz = if quick { 3 } else { fz_opts.len() };
    for (fi, f) in fz_opts.iter().enumerate().take(nfz) {
      pc.extend(prepare(tc.clone(), leaves, Some((fi, f))));
    }
    let wc: Vec<World> = gen_worlds(sp, &sp.docs_full, 2);
    bounds.push(json!({"slice": "C-fuzzy", "schema": sp.name, "doc_shapes": sp.docs_full.len(), "max_docs": 2, "worlds": wc.len(), "fuzzy_options": nfz, "trees": pc.len()}));
    slices.push(Slice { name: "C", ord: 2, spec: si, trees: pc, worlds: wc, obligations: false });
  }
  // slice P: schemas whose search analyzer emits several tokens per position
  let mut anas = anas;
  let mut alphabets = alphabets;
  let mut spec_names: Vec<String> = sps.iter().map(|sp| sp.name.to_string()).collect();
  for ps in pspecs() {
    let si = anas.len();
    anas.push(Ana::new(&ps.schema));
    let leaves = p_leaves(&ps);
    let tp = trees_slice_p(&leaves);
    let max_len = if quick { ps.max_len_quick } else { ps.max_len_thorough };
    let wp = worlds_slice_p(&ps, max_len);
    bounds.push(json!({"slice": "P-phrase-alternatives", "schema": ps.name, "alphabet": ps.alphabet, "doc_tokens": format!("3..={max_len}"), "docs_per_world": 8, "layouts": "1 and 2 segments", "worlds": wp.len(), "leaves": leaves.len(), "trees": tp.len()}));
    slices.push(Slice { name: "P", ord: 0, spec: si, trees: prepare(tp, &leaves, None), worlds: wp, obligations: false });
    alphabets.push((leaves, vec![]));
    spec_names.push(ps.name.to_string());
  }
  let acc = Acc {
    evals: AtomicU64::new(0),
    nontrivial: AtomicU64::new(0),
    undetermined: AtomicU64::new(0),
    h9: AtomicU64::new(0),
    obligations: AtomicU64::new(0),
    multi_alt_cases: AtomicU64::new(0),
    worlds_done: AtomicU64::new(0),
    outcomes: Mutex::new(BTreeSet::new()),
    fails: Mutex::new(BTreeMap::new()),
    per_slice: Mutex::new(BTreeMap::new()),
    unexplained: Mutex::new(BTreeMap::new()),
    decided: alphabets.iter().map(|(l, _)| l.iter().map(|_| AtomicBool::new(false)).collect()).collect(),
  };
  // tasks: (slice, world), smallest worlds first
  let mut tasks: Vec<(usize, usize)> = Vec::new();
  for (sli, sl) in slices.iter().enumerate() {
    for w in 0..sl.worlds.len() {
      tasks.push((sli, w));
    }
  }
  // slices with ord 0 (N, P) come first as a whole so that a wall-clock cap cannot skip them
  tasks.sort_by_key(|(sli, w)| (if slices[*sli].ord == 0 { 0 } else { slices[*sli].worlds[*w].docs.len() }, slices[*sli].ord, slices[*sli].spec, *w));
  let total_worlds = tasks.len();
  let deadline = std::env::var("VERIF_C07_BUDGET_S").ok().and_then(|s| s.parse::<f64>().ok()).unwrap_or(if quick { 33.0 } else { 870.0 });
  let timed_out = AtomicBool::new(false);
  println!("C07 {}: {} worlds, setup {:.1}s", ctx.tier.name(), total_worlds, rep.elapsed_s());
  // in-order work queue (smallest worlds first), so that a wall-clock cap cuts off the largest worlds
  let next = AtomicU64::new(0);
  (0..vcore::threads()).into_par_iter().for_each(|_| loop {
    let i = next.fetch_add(1, Ordering::Relaxed) as usize;
    if i >= tasks.len() {
      break;
    }
    if rep.elapsed_s() > deadline {
      timed_out.store(true, Ordering::Relaxed);
      break;
    }
    let (sli, w) = tasks[i];
    let sl = &slices[sli];
    run_world(&acc, sl, w, &alphabets[sl.spec].0, &anas[sl.spec], &fz_opts);
  });
  rep.add_evals(acc.evals.load(Ordering::Relaxed) + acc.obligations.load(Ordering::Relaxed));
  // a sample of judged cases, written out
  {
    let sp = &sps[0];
    let (leaves, _) = &alphabets[0];
    let w = World::new(sp.name, sp.schema.clone(), vec![json!({"_id": "A", "body": "a b"}), json!({"_id": "B", "body": "b"})]).with_layout(vec![1, 1]);
    let view = View::new(&anas[0], &w);
    for t in [Tree::L(3), Tree::Bool { must: vec![Tree::L(2)], should: vec![], must_not: vec![Tree::L(1)], filter: None, msm: None }] {
      let le: Vec<LeafEval> = leaves.iter().map(|l| view.eval_leaf(l, None)).collect();
      let e = eval_tree(&t, &le, &view, 0).map(|e| ids_of(e.mask & view.live, &view));
      rep.sample(json!({"world": w.describe(), "query": t.to_json(leaves), "oracle": e}));
    }
  }
  // report failures: unexplained first, then one minimal witness per signature, then the counts
  let fails = acc.fails.lock();
  let mut classes = serde_json::Map::new();
  let mut order: Vec<&String> = fails.keys().collect();
  order.sort_by_key(|k| (k.as_str() != "-", (*k).clone()));
  // pass 1: the minimal witnesses (re-run from scratch twice each), one replay file per class
  let wdir = vcore::ev::verif_dir().join("replays").join("C07");
  let _ = std::fs::create_dir_all(&wdir);
  for k in &order {
    let sa = &fails[*k];
    let sig: Option<&str> = if k.as_str() == "-" { None } else { Some(k.as_str()) };
    let take = if sig.is_none() { 3 } else { 1 };
    for (n, (_, what0, case0)) in sa.best.iter().take(take).enumerate() {
      let (what, case) = shrink_witness(sig, what0, case0);
      let (what, case) = (&what, &case);
      let (r1, r2) = (run_case(case), run_case(case));
      match (&r1, &r2) {
        (Ok(Some(a)), Ok(Some(b))) if a.1 == b.1 => {}
        _ => vcore::ev::machinery_failure(&format!("NONDETERMINISM: witness does not reproduce identically: {what}")),
      }
      let wpath = wdir.join(format!("witness-{}-{}.json", if sig.is_none() { "unexplained" } else { k.as_str() }, n));
      let _ = std::fs::write(&wpath, serde_json::to_string_pretty(&json!({"property": "C07", "signature": sig, "what": what, "case": case})).unwrap());
      println!("FAILURE-CLASS property=C07 signature={} cases={} replay={}", k, sa.count, wpath.display());
      rep.fail(sig, what, case.clone());
    }
    classes.insert((*k).clone(), json!({"cases": sa.count, "minimal_witness": sa.best.first().map(|b| json!({"what": b.1, "query": b.2["query"], "world": {"docs": b.2["world"]["docs"], "layout": b.2["world"]["layout"], "deleted": b.2["world"]["deleted"]}, "expected": b.2["expected"], "observed": b.2["observed"]}))}));
  }
  // pass 2: the remaining cases of each class are counted (replayable through the class witness)
  for k in &order {
    let sa = &fails[*k];
    let sig: Option<&str> = if k.as_str() == "-" { None } else { Some(k.as_str()) };
    let reported = sa.best.len().min(if sig.is_none() { 3 } else { 1 }) as u64;
    let (w, c) = sa.best.first().map(|b| (format!("[further case of this class] {}", b.1), b.2.clone())).unwrap_or_default();
    let known = sig.map_or(false, |x| rep.is_known_open(x));
    for _ in reported..sa.count {
      let case = if !known && rep.violations() < 5 { c.clone() } else { Value::Null };
      rep.fail(sig, &w, case);
    }
  }
  let distinct = acc.outcomes.lock().len();
  let to = timed_out.load(Ordering::Relaxed);
  if distinct < 2 && !to {
    vcore::ev::machinery_failure("C07 vacuous: fewer than 2 distinct outcomes observed");
  }
  let per_slice: BTreeMap<String, Value> = acc.per_slice.lock().iter().map(|(k, v)| (k.clone(), json!({"worlds": v.0, "searches": v.1}))).collect();
  let cov = vcore::cov! {
    "distinct_nontrivial" => acc.nontrivial.load(Ordering::Relaxed),
    "rule" => "a case = (world, query tree[, fuzzy option]); world = schema x sequence of document shapes x every segment layout (composition) x {no deletion, delete one document}; non-trivial = the oracle's hit set is a non-empty proper subset of the live documents and the search agreed. Slice A: all corpora over the full shape alphabet x every leaf alone and under 8 unary wrappers (+2 filter wrappers with a keyword field) + second obligation (term(field, token) for every token the index analyzer emits for a live document). Slice B: core shapes x ALL trees inside tree_bound. Slice N (S0): every parent bool holding one 2-leaf compound child (bool-should with minimum_should_match none/1/2, bool-must, dis_max over every pair of core leaves) in each role plus 0..2 (role x leaf) children x minimum_should_match {none,0,1,2,#should}. Slice C: fuzzy options x positive term leaves and pairs. Slice P: schemas whose search analyzer emits several tokens per position (search-time synonyms one-way / two-way / multi-target, edge_ngram) x EVERY document of 3..max tokens over {start, alternatives, filler} (8 per world, 1 and 2 segments) x phrases of 2..3 terms with the multi-token term at each slot x slop 0..3 as phrase node, query-string phrase and under bool must / should / must_not / must next to a scored term. Oracle: independent boolean evaluator over Analyzer::analyze token streams; cases the documentation does not decide are skipped and counted (undetermined).",
    "bounds" => bounds,
    "worlds" => total_worlds,
    "worlds_completed" => acc.worlds_done.load(Ordering::Relaxed),
    "searches_judged" => acc.evals.load(Ordering::Relaxed),
    "second_obligation_searches" => acc.obligations.load(Ordering::Relaxed),
    "undetermined_not_demanded" => acc.undetermined.load(Ordering::Relaxed),
    "h9_debug_assert_panics_not_judged" => acc.h9.load(Ordering::Relaxed),
    "cases_with_two_alternatives_of_one_phrase_position_in_a_document" => acc.multi_alt_cases.load(Ordering::Relaxed),
    "per_slice" => per_slice,
    "leaves_never_decided_by_the_documentation" => {
      let mut v: Vec<String> = Vec::new();
      for (si, name) in spec_names.iter().enumerate() {
        for (i, l) in alphabets[si].0.iter().enumerate() {
          if !acc.decided[si][i].load(Ordering::Relaxed) {
            v.push(format!("{} {}", name, l.to_json()));
          }
        }
      }
      v
    },
    "failure_classes" => Value::Object(classes),
    "unexplained_by_query" => {
      let u = acc.unexplained.lock();
      let mut v: Vec<(u64, String)> = u.iter().map(|(k, n)| (*n, k.clone())).collect();
      v.sort_by(|a, b| b.0.cmp(&a.0));
      v.truncate(40);
      v
    },
    "distinct_observed_outcomes" => distinct,
    "traces_validated_against_impl" => acc.evals.load(Ordering::Relaxed),
    "cap_hit" => if to { Some(format!("wall budget {deadline}s")) } else { None },
    "exhaustive" => !to,
  };
  rep.finish(cov, assumptions())
}

fn assumptions() -> Vec<String> {
  [
    "tokenisation is not under test: documents are tokenised with the schema's index analyzer and query text with its search analyzer through the public Analyzer::analyze",
    "query_string: bare terms are OR-ed over the default (text) fields, a quoted phrase must occur, -term excludes (README names the three syntaxes; OR is DESIGN §C07's reading); a pure-negative string and strings mixing phrases with bare terms are not in the alphabet",
    "term values that analyze to nothing (stop words) or to several positions are not demanded",
    "phrases across the values of a multi-valued text field: demanded only when 'inside one value' and 'values concatenated without a gap' agree",
    "regex: demanded only when anchored and unanchored readings agree on the document; wildcard is a full-term match with * and ?; only lower-case patterns",
    "multi_match best_fields / most_fields with operator=and or minimum_should_match>1: demanded only when per-field and blended counting agree; operator=and together with minimum_should_match, counts above the number of terms and percentages that are not whole numbers of terms are not in the alphabet",
    "bool minimum_should_match is one of {none,0,1,2,#should}; the only value above the number of should clauses is 2 with one clause, read arithmetically (nothing matches); bool filter / constant_score use KeywordEq on a lower-case single-valued keyword only (filter semantics belong to C08)",
    "function_score is used with functions=[weight 2], boost_mode=replace so the score is 2 for every match; min_score 1 keeps, 3 drops, equality is not in the alphabet; script_score uses the finite script '_score + 1'; rank_feature only where every document has a positive value",
    "fuzzy: Levenshtein distance <= max_edits (1,2) on terms of at least min_length characters sharing prefix_length characters; token alphabet has no transposition pairs; fuzzy is combined only with positive term leaves (no negation, phrase or pattern leaves)",
    "expansion caps stay at their defaults and are never reached (<= 7 distinct terms per field)",
    "requests that hit the debug assertion 'Inconsistent leaf for term key' (same term in two scoring leaves; hypothesis H9, owned by C10/C16) are counted and not judged here",
    "term / query_string on keyword fields, search_as_you_type, cross_fields scoring, request-level `fields`, boosts and tie_breaker values are not in the alphabet",
  ]
  .iter()
  .map(|s| s.to_string())
  .collect()
}
