//! C26 — the C search entry point stays within the caller's buffer.
//! Engine: frontmc --ffi (isolated). For a fixed small index, every (query, limit, cursor, aggs)
//! combination is called through `searchlite_ffi::searchlite_search` with EVERY buffer capacity
//! 0..=len(full)+16, plus null / invalid argument families. The output buffer lives between two
//! 64-byte canary zones inside an mmap'ed region whose last page (right behind the trailing
//! canary) is PROT_NONE, so an overrun of up to 64 bytes trips the canary and anything longer
//! faults. Every family runs in a forked child that reports through a pipe; a child killed by a
//! signal is a violation attributed to the call it had announced last.
//!
//! Contract demanded (searchlite-ffi/src/lib.rs `# Safety` comments + searchlite.h + README):
//! handle from searchlite_index_open (or null), query a C string (or null), cursor null or a C
//! string produced by a previous response, aggs_json null or `aggs_len` readable bytes,
//! out_json_buf null or `buf_cap` writable bytes. Inputs outside that contract (cursor strings
//! never produced by a response, buf_cap larger than the real buffer, dangling handles) are not
//! in the alphabet.

use std::collections::{BTreeMap, BTreeSet};
use std::ffi::CString;
use std::os::raw::c_char;
use std::path::{Path, PathBuf};

use serde_json::{json, Value};

use searchlite_core::api::types::{IndexOptions, StorageType};
use searchlite_core::api::Index;
use searchlite_ffi::{searchlite_add_json, searchlite_commit, searchlite_index_close, searchlite_index_open, searchlite_search, IndexHandle};
use vcore::ev::Reporter;
use vcore::world::{schema, Scratch};

use crate::Ctx;

const CANARY: usize = 64;
const BIG: usize = 1 << 17;
const MARGIN: usize = 16;

// ---------------------------------------------------------------------------------------------
// Worlds

fn world_schema() -> Value {
  json!({"doc_id_field": "_id",
    "text_fields": [{"name": "body", "analyzer": "default", "stored": true, "indexed": true}],
    "keyword_fields": [{"name": "kw", "stored": true, "indexed": true, "fast": true}],
    "numeric_fields": [{"name": "n", "i64": true, "fast": true, "stored": true}]})
}

fn world_docs(which: usize) -> Vec<Value> {
  match which {
    // multi-byte text so that truncation points fall inside UTF-8 sequences and JSON escapes
    0 => vec![
      json!({"_id": "A", "body": "a b", "kw": "x", "n": 1}),
      json!({"_id": "B", "body": "a caf\u{e9} \u{65e5}\u{672c} \"q\" \\ \n", "kw": ["x", "y"], "n": 2}),
      json!({"_id": "C", "body": "b a a", "kw": "y"}),
    ],
    // a response of several pages of memory: the buffer and its capacities cross page boundaries
    2 => (0..12)
      .map(|i| json!({"_id": format!("big{i}"), "body": format!("a {} caf\u{e9} \u{65e5}\u{672c} end{i}", "lorem ipsum b ".repeat(40 + i)), "kw": if i % 3 == 0 { "x" } else { "y" }, "n": i}))
      .collect(),
    _ => (0..7)
      .map(|i| json!({"_id": format!("d{i}"), "body": format!("a {} \u{1F600} z{}", "b ".repeat(i), "\u{e9}".repeat(i * 3)), "kw": if i % 2 == 0 { "x" } else { "y" }, "n": i}))
      .collect(),
  }
}

fn ffi_opts(path: &Path) -> IndexOptions {
  let mut o = vcore::world::opts(path, StorageType::Filesystem);
  o.bm25_k1 = 0.9;
  o.bm25_b = 0.4;
  o
}

/// Create the index directory (schema via the library, documents via the FFI).
fn prepare_world(dir: &Path, which: usize) -> Result<(), String> {
  Index::create(dir, schema(world_schema()), ffi_opts(dir)).map_err(|e| format!("create: {e:#}"))?;
  let p = CString::new(dir.to_string_lossy().to_string()).unwrap();
  unsafe {
    let h = searchlite_index_open(p.as_ptr(), false);
    if h.is_null() {
      return Err("searchlite_index_open returned null for a freshly created index".into());
    }
    for d in world_docs(which) {
      let s = CString::new(d.to_string()).unwrap();
      let rc = searchlite_add_json(h, s.as_ptr(), s.as_bytes().len());
      if rc < 0 {
        searchlite_index_close(h);
        return Err(format!("searchlite_add_json({d}) = {rc}"));
      }
    }
    if searchlite_commit(h) != 0 {
      searchlite_index_close(h);
      return Err("searchlite_commit != 0".into());
    }
    searchlite_index_close(h);
  }
  Ok(())
}

// ---------------------------------------------------------------------------------------------
// Calls

#[derive(Debug, Clone, PartialEq)]
enum CursorSpec {
  Null,
  /// next_cursor after walking this many pages of (same query, same limit, no aggs)
  Pages(usize),
  /// next_cursor of the response to (query, limit 1): a cursor "produced by a previous response"
  /// that belongs to another request
  Other(String),
}

#[derive(Debug, Clone, PartialEq)]
enum AggsLen {
  Full,
  Zero,
  Short(usize),
}

#[derive(Debug, Clone)]
struct Combo {
  name: &'static str,
  /// query bytes (no interior NUL); None = null pointer
  query: Option<Vec<u8>>,
  limit: usize,
  cursor: CursorSpec,
  /// aggs bytes; None = null pointer
  aggs: Option<String>,
  aggs_len: AggsLen,
  /// aggs_len passed with a null aggs pointer
  null_aggs_len: usize,
  null_handle: bool,
  null_out: bool,
  /// what the documented contract says about the outcome with a large buffer
  expect: Expect,
}

#[derive(Debug, Clone, Copy, PartialEq)]
enum Expect {
  /// valid arguments: a JSON document with a `hits` array
  Ok,
  /// null / invalid arguments: status 0, nothing written outside the buffer
  Zero,
  /// contract is silent on success vs. error (e.g. foreign cursor): only buffer safety
  Any,
}

impl Combo {
  fn new(name: &'static str, query: &str, limit: usize) -> Combo {
    Combo { name, query: Some(query.as_bytes().to_vec()), limit, cursor: CursorSpec::Null, aggs: None, aggs_len: AggsLen::Full, null_aggs_len: 0, null_handle: false, null_out: false, expect: Expect::Ok }
  }
  fn cursor(mut self, c: CursorSpec) -> Combo {
    self.cursor = c;
    self
  }
  fn aggs(mut self, a: &str) -> Combo {
    self.aggs = Some(a.to_string());
    self
  }
  fn aggs_len(mut self, l: AggsLen) -> Combo {
    self.aggs_len = l;
    self
  }
  fn expect(mut self, e: Expect) -> Combo {
    self.expect = e;
    self
  }
  fn to_json(&self) -> Value {
    json!({
      "name": self.name,
      "query_bytes": self.query,
      "query_lossy": self.query.as_ref().map(|q| String::from_utf8_lossy(q).to_string()),
      "limit": self.limit,
      "cursor": match &self.cursor { CursorSpec::Null => json!(null), CursorSpec::Pages(n) => json!({"pages": n}), CursorSpec::Other(q) => json!({"other": q}) },
      "aggs": self.aggs,
      "aggs_len": match self.aggs_len { AggsLen::Full => json!("full"), AggsLen::Zero => json!(0), AggsLen::Short(n) => json!(n) },
      "null_aggs_len": self.null_aggs_len,
      "null_handle": self.null_handle,
      "null_out": self.null_out,
      "expect": match self.expect { Expect::Ok => "ok", Expect::Zero => "zero", Expect::Any => "any" },
    })
  }
  fn from_json(v: &Value) -> Combo {
    Combo {
      name: "replay",
      query: v["query_bytes"].as_array().map(|a| a.iter().map(|b| b.as_u64().unwrap() as u8).collect()),
      limit: v["limit"].as_u64().unwrap_or(0) as usize,
      cursor: match &v["cursor"] {
        Value::Null => CursorSpec::Null,
        o if o["pages"].is_u64() => CursorSpec::Pages(o["pages"].as_u64().unwrap() as usize),
        o => CursorSpec::Other(o["other"].as_str().unwrap_or("").to_string()),
      },
      aggs: v["aggs"].as_str().map(|s| s.to_string()),
      aggs_len: match &v["aggs_len"] {
        Value::String(_) => AggsLen::Full,
        n if n.as_u64() == Some(0) => AggsLen::Zero,
        n => AggsLen::Short(n.as_u64().unwrap_or(0) as usize),
      },
      null_aggs_len: v["null_aggs_len"].as_u64().unwrap_or(0) as usize,
      null_handle: v["null_handle"].as_bool().unwrap_or(false),
      null_out: v["null_out"].as_bool().unwrap_or(false),
      expect: match v["expect"].as_str() {
        Some("ok") => Expect::Ok,
        Some("zero") => Expect::Zero,
        _ => Expect::Any,
      },
    }
  }
}

const AGGS_TERMS: &str = r#"{"k":{"type":"terms","field":"kw","size":5}}"#;
const AGGS_TWO: &str = r#"{"k":{"type":"terms","field":"kw"},"s":{"type":"stats","field":"n"}}"#;

fn combos(thorough: bool) -> Vec<Combo> {
  let mut v = vec![
    // the 8 (query, cursor, aggs) combinations of the quick tier
    Combo::new("qs", "a", 10),
    Combo::new("qs-none", "zzz", 10),
    Combo::new("node-match-all", r#"{"type":"match_all"}"#, 10),
    Combo::new("qs-page1", "a", 1),
    Combo::new("qs-page2", "a", 1).cursor(CursorSpec::Pages(1)),
    Combo::new("qs-aggs", "a", 10).aggs(AGGS_TERMS),
    Combo::new("page2-aggs", r#"{"type":"match_all"}"#, 2).cursor(CursorSpec::Pages(1)).aggs(AGGS_TWO),
    Combo::new("limit0-aggs", "a", 0).aggs(AGGS_TWO).expect(Expect::Any),
    // limit 0 without aggregations
    Combo::new("limit0", "a", 0).expect(Expect::Any),
    // cursor produced by a response to another request
    Combo::new("foreign-cursor", "b", 2).cursor(CursorSpec::Other("a".into())).expect(Expect::Any),
    // aggs_len variants
    Combo::new("aggs-len0", "a", 10).aggs(AGGS_TERMS).aggs_len(AggsLen::Zero),
    Combo::new("aggs-short1", "a", 10).aggs(AGGS_TERMS).aggs_len(AggsLen::Short(1)).expect(Expect::Zero),
    Combo::new("aggs-short-half", "a", 10).aggs(AGGS_TERMS).aggs_len(AggsLen::Short(AGGS_TERMS.len() / 2)).expect(Expect::Zero),
    Combo::new("aggs-short-last", "a", 10).aggs(AGGS_TERMS).aggs_len(AggsLen::Short(AGGS_TERMS.len() - 1)).expect(Expect::Zero),
    Combo::new("aggs-invalid", "a", 10).aggs("not valid json").expect(Expect::Zero),
    Combo::new("aggs-unknown-field", "a", 10).aggs(r#"{"k":{"type":"terms","field":"nope"}}"#).expect(Expect::Any),
  ];
  // null in each pointer argument
  let mut c = Combo::new("null-handle", "a", 10).expect(Expect::Zero);
  c.null_handle = true;
  v.push(c);
  let mut c = Combo::new("null-query", "a", 10).expect(Expect::Zero);
  c.query = None;
  v.push(c);
  let mut c = Combo::new("null-out", "a", 10).expect(Expect::Zero);
  c.null_out = true;
  v.push(c);
  // null cursor is the documented "no cursor"; null aggs with a non-zero length must not be read
  let mut c = Combo::new("null-aggs-len7", "a", 10);
  c.null_aggs_len = 7;
  v.push(c);
  let mut c = Combo::new("null-everything", "a", 10).expect(Expect::Zero);
  c.null_handle = true;
  c.query = None;
  c.null_out = true;
  v.push(c);
  if thorough {
    v.extend(vec![
      Combo::new("qs-two-terms", "a b", 10),
      Combo::new("qs-field", "body:b", 10),
      Combo::new("qs-negation", "a -b", 10),
      Combo::new("qs-phrase", "\"a b\"", 10),
      Combo::new("qs-empty", "", 10).expect(Expect::Any),
      Combo::new("qs-unicode", "caf\u{e9}", 10).expect(Expect::Any),
      Combo::new("node-term", r#"{"type":"term","field":"body","value":"b"}"#, 10),
      Combo::new("node-bool", r#"{"type":"bool","must":[{"type":"term","field":"body","value":"a"}],"must_not":[{"type":"term","field":"body","value":"b"}]}"#, 10),
      Combo::new("node-unknown-field", r#"{"type":"term","field":"nope","value":"b"}"#, 10).expect(Expect::Any),
      Combo::new("json-not-a-node", r#"{"type":"nope"}"#, 10).expect(Expect::Any),
      Combo::new("qs-page3", r#"{"type":"match_all"}"#, 1).cursor(CursorSpec::Pages(2)),
      Combo::new("limit-huge", "a", usize::MAX).expect(Expect::Any),
      Combo::new("limit-100k", "a", 100_000).expect(Expect::Any),
      Combo::new("aggs-empty-object", "a", 10).aggs("{}"),
      Combo::new("aggs-array", "a", 10).aggs("[]").expect(Expect::Zero),
      Combo::new("aggs-nested", "a", 10).aggs(r#"{"k":{"type":"terms","field":"kw","aggs":{"s":{"type":"stats","field":"n"},"t":{"type":"top_hits","size":2}}}}"#),
      Combo::new("aggs-len0-invalid", "a", 10).aggs("not valid json").aggs_len(AggsLen::Zero),
    ]);
    let mut c = Combo::new("query-invalid-utf8", "a", 10).expect(Expect::Any);
    c.query = Some(vec![0xff, 0xfe, b' ', b'a']);
    v.push(c);
    let mut c = Combo::new("aggs-invalid-utf8", "a", 10).aggs(AGGS_TERMS).expect(Expect::Zero);
    c.aggs = Some(String::from_utf8_lossy(&[b'{', 0xc3]).to_string());
    v.push(c);
    // every proper prefix length of the aggregation JSON
    for n in 2..AGGS_TWO.len() {
      v.push(Combo::new("aggs-prefix", "a", 10).aggs(AGGS_TWO).aggs_len(AggsLen::Short(n)).expect(Expect::Zero));
    }
  }
  v
}

// ---------------------------------------------------------------------------------------------
// Guarded buffer

struct Guarded {
  base: *mut u8,
  map_len: usize,
  /// start of the leading canary
  lead: *mut u8,
  cap: usize,
}

fn page() -> usize {
  unsafe { libc::sysconf(libc::_SC_PAGESIZE) as usize }
}

impl Guarded {
  /// [PROT_NONE page][padding][canary 64][buffer cap][canary 64][PROT_NONE page]
  fn new(cap: usize) -> Guarded {
    let pg = page();
    let inner = (CANARY * 2 + cap).div_ceil(pg) * pg;
    let map_len = inner + 2 * pg;
    unsafe {
      let base = libc::mmap(std::ptr::null_mut(), map_len, libc::PROT_READ | libc::PROT_WRITE, libc::MAP_PRIVATE | libc::MAP_ANONYMOUS, -1, 0);
      if base == libc::MAP_FAILED {
        libc::_exit(97);
      }
      let base = base as *mut u8;
      if libc::mprotect(base as *mut _, pg, libc::PROT_NONE) != 0 || libc::mprotect(base.add(pg + inner) as *mut _, pg, libc::PROT_NONE) != 0 {
        libc::_exit(97);
      }
      let lead = base.add(pg + inner - (CANARY * 2 + cap));
      std::ptr::write_bytes(lead, 0xC5, CANARY);
      std::ptr::write_bytes(lead.add(CANARY), 0xA7, cap);
      std::ptr::write_bytes(lead.add(CANARY + cap), 0x5C, CANARY);
      Guarded { base, map_len, lead, cap }
    }
  }
  fn buf(&self) -> *mut u8 {
    unsafe { self.lead.add(CANARY) }
  }
  fn canaries_intact(&self) -> Result<(), String> {
    unsafe {
      let a = std::slice::from_raw_parts(self.lead, CANARY);
      let b = std::slice::from_raw_parts(self.lead.add(CANARY + self.cap), CANARY);
      if let Some(i) = a.iter().position(|x| *x != 0xC5) {
        return Err(format!("leading canary byte {} (buffer offset -{}) overwritten with {:#04x}", i, CANARY - i, a[i]));
      }
      if let Some(i) = b.iter().position(|x| *x != 0x5C) {
        return Err(format!("trailing canary byte {} (buffer offset buf_cap+{}) overwritten with {:#04x}", i, i, b[i]));
      }
    }
    Ok(())
  }
  fn bytes(&self) -> &[u8] {
    unsafe { std::slice::from_raw_parts(self.buf(), self.cap) }
  }
}

impl Drop for Guarded {
  fn drop(&mut self) {
    unsafe {
      libc::munmap(self.base as *mut _, self.map_len);
    }
  }
}

// ---------------------------------------------------------------------------------------------
// Child side

struct Resolved {
  query: Option<CString>,
  cursor: Option<CString>,
  aggs: Option<Vec<u8>>,
  aggs_len: usize,
}

unsafe fn raw_search(h: *mut IndexHandle, query: &[u8], limit: usize, cursor: Option<&CString>) -> Option<Value> {
  let q = CString::new(query.to_vec()).ok()?;
  let mut buf = vec![0u8; BIG];
  let n = searchlite_search(h, q.as_ptr(), limit, cursor.map(|c| c.as_ptr()).unwrap_or(std::ptr::null()), std::ptr::null(), 0, buf.as_mut_ptr() as *mut c_char, buf.len());
  if n == 0 {
    return None;
  }
  serde_json::from_slice(&buf[..n]).ok()
}

/// Cursor after `pages` pages of (query, limit).
unsafe fn cursor_after(h: *mut IndexHandle, query: &[u8], limit: usize, pages: usize) -> Result<CString, String> {
  let mut cur: Option<CString> = None;
  for p in 0..pages {
    let v = raw_search(h, query, limit, cur.as_ref()).ok_or_else(|| format!("setup: page {p} of the cursor walk returned 0"))?;
    let c = v["next_cursor"].as_str().ok_or_else(|| format!("setup: page {p} has no next_cursor"))?;
    cur = Some(CString::new(c).unwrap());
  }
  cur.ok_or_else(|| "setup: no pages".to_string())
}

unsafe fn resolve(h: *mut IndexHandle, c: &Combo) -> Result<Resolved, String> {
  let query = c.query.as_ref().map(|q| CString::new(q.clone()).unwrap());
  let cursor = match &c.cursor {
    CursorSpec::Null => None,
    CursorSpec::Pages(n) => Some(cursor_after(h, c.query.as_deref().unwrap_or(b"a"), c.limit, *n)?),
    CursorSpec::Other(q) => Some(cursor_after(h, q.as_bytes(), 1, 1)?),
  };
  let aggs = c.aggs.as_ref().map(|a| a.as_bytes().to_vec());
  let aggs_len = match (&aggs, &c.aggs_len) {
    (None, _) => c.null_aggs_len,
    (Some(a), AggsLen::Full) => a.len(),
    (Some(_), AggsLen::Zero) => 0,
    (Some(a), AggsLen::Short(n)) => (*n).min(a.len()),
  };
  Ok(Resolved { query, cursor, aggs, aggs_len })
}

/// Detector self-test (never set by ./check): VERIF_C26_SELFTEST=<n> makes the harness claim a
/// buffer n bytes larger than it is for capacities >= 1, so that the callee overruns it; the run
/// must then report canary (n <= 64) or fault (n > 64) violations.
fn selftest_lie(cap: usize) -> usize {
  if cap == 0 || cap == BIG {
    return 0;
  }
  std::env::var("VERIF_C26_SELFTEST").ok().and_then(|s| s.parse().ok()).unwrap_or(0)
}

/// One guarded call. Returns (ret, canary verdict, copy of the buffer).
unsafe fn guarded_call(h: *mut IndexHandle, c: &Combo, r: &Resolved, cap: usize) -> (usize, Result<(), String>, Vec<u8>) {
  let g = Guarded::new(cap);
  // the aggregation bytes are handed over without a trailing NUL, at the end of their own
  // guarded region, so that reading past aggs_len faults as well
  let ag = r.aggs.as_ref().map(|a| {
    let gg = Guarded::new(a.len());
    std::ptr::copy_nonoverlapping(a.as_ptr(), gg.buf(), a.len());
    gg
  });
  let ret = searchlite_search(
    if c.null_handle { std::ptr::null_mut() } else { h },
    r.query.as_ref().map(|q| q.as_ptr()).unwrap_or(std::ptr::null()),
    c.limit,
    r.cursor.as_ref().map(|q| q.as_ptr()).unwrap_or(std::ptr::null()),
    ag.as_ref().map(|g| g.buf() as *const c_char).unwrap_or(std::ptr::null()),
    r.aggs_len,
    if c.null_out { std::ptr::null_mut() } else { g.buf() as *mut c_char },
    cap + selftest_lie(cap),
  );
  let verdict = g.canaries_intact();
  (ret, verdict, g.bytes().to_vec())
}

/// The oracle for one (combo, buf_cap) given the reference response `full` (large-buffer call).
fn judge(c: &Combo, cap: usize, full: &[u8], ret: usize, canary: &Result<(), String>, buf: &[u8]) -> Result<&'static str, String> {
  if let Err(e) = canary {
    return Err(format!("write outside the buffer: {e}"));
  }
  if cap == 0 || c.null_out {
    if ret != 0 {
      return Err(format!("returned {ret} although {}", if cap == 0 { "buf_cap is 0" } else { "out_json_buf is null" }));
    }
    return Ok("no-buffer");
  }
  if ret > cap - 1 {
    return Err(format!("returned {ret} > buf_cap-1 = {}", cap - 1));
  }
  if full.is_empty() {
    // the request fails (status 0 with a large buffer): every capacity must give status 0
    if ret != 0 {
      return Err(format!("returned {ret} bytes although the same arguments with a {BIG}-byte buffer return status 0"));
    }
    return Ok("status-0");
  }
  let want = full.len().min(cap - 1);
  if ret != want {
    return Err(format!("returned {ret}, expected min(len(full)={}, buf_cap-1={}) = {want}", full.len(), cap - 1));
  }
  if buf[..ret] != full[..ret] {
    let i = (0..ret).find(|i| buf[*i] != full[*i]).unwrap();
    return Err(format!("bytes [0,{ret}) are not a prefix of the full response: first difference at offset {i}"));
  }
  if buf[ret] != 0 {
    return Err(format!("byte at offset ret={ret} is {:#04x}, not NUL", buf[ret]));
  }
  Ok(if ret == full.len() { "full" } else if ret == 0 { "nul-only" } else { "truncated" })
}

/// Runs in the forked child: announce each call, make it, judge it, report.
unsafe fn child_family(dir: &Path, c: &Combo, caps: &[usize], start: usize, fd: i32) -> ! {
  let out = |s: String| {
    let b = s.as_bytes();
    let mut off = 0;
    while off < b.len() {
      let n = libc::write(fd, b[off..].as_ptr() as *const _, b.len() - off);
      if n <= 0 {
        libc::_exit(98);
      }
      off += n as usize;
    }
  };
  libc::alarm(600);
  let devnull = CString::new("/dev/null").unwrap();
  let nfd = libc::open(devnull.as_ptr(), libc::O_WRONLY);
  if nfd >= 0 {
    libc::dup2(nfd, 2);
  }
  let p = CString::new(dir.to_string_lossy().to_string()).unwrap();
  let h = searchlite_index_open(p.as_ptr(), false);
  if h.is_null() {
    out("E setup: searchlite_index_open returned null\n".into());
    libc::_exit(3);
  }
  let r = match resolve(h, c) {
    Ok(r) => r,
    Err(e) => {
      out(format!("E {e}\n"));
      libc::_exit(3);
    }
  };
  // reference: same arguments, large buffer (also guarded)
  out("S ref\n".into());
  let (fret, fcan, fbuf) = guarded_call(h, c, &r, BIG);
  let full: Vec<u8> = fbuf[..fret.min(BIG)].to_vec();
  let mut ref_problem: Option<String> = fcan.err();
  if ref_problem.is_none() && !c.null_out {
    match c.expect {
      Expect::Ok => {
        if fret == 0 {
          ref_problem = Some("valid arguments returned status 0 with a large buffer".into());
        } else {
          match serde_json::from_slice::<Value>(&full) {
            Ok(v) if v["hits"].is_array() => {}
            Ok(_) => ref_problem = Some("response has no hits array".into()),
            Err(e) => ref_problem = Some(format!("response with a large buffer is not JSON: {e}")),
          }
        }
      }
      Expect::Zero => {
        if fret != 0 {
          ref_problem = Some(format!("null/invalid argument returned {fret} instead of 0"));
        }
      }
      Expect::Any => {}
    }
  }
  out(format!("F {}\n", json!({"len": full.len(), "problem": ref_problem, "text": String::from_utf8_lossy(&full[..full.len().min(400)])})));
  for (i, cap) in caps.iter().enumerate().skip(start) {
    out(format!("S {i}\n"));
    let (ret, can, buf) = guarded_call(h, c, &r, *cap);
    let verdict = judge(c, *cap, &full, ret, &can, &buf);
    match verdict {
      Ok(class) => out(format!("R {i} ok {class}\n")),
      Err(e) => out(format!("R {i} bad {}\n", json!({"ret": ret, "why": e}))),
    }
  }
  searchlite_index_close(h);
  libc::_exit(0);
}

/// Null checks of the other entry points (mechanism: searchlite_index_open/close/add_json/commit).
unsafe fn child_misc(dir: &Path, fd: i32) -> ! {
  let out = |s: String| {
    let b = s.as_bytes();
    if libc::write(fd, b.as_ptr() as *const _, b.len()) <= 0 {
      libc::_exit(98);
    }
  };
  libc::alarm(60);
  let devnull = CString::new("/dev/null").unwrap();
  let nfd = libc::open(devnull.as_ptr(), libc::O_WRONLY);
  if nfd >= 0 {
    libc::dup2(nfd, 2);
  }
  let mut i = 0;
  let mut step = |name: &str, f: &mut dyn FnMut() -> Result<(), String>| {
    out(format!("S {i} {name}\n"));
    match f() {
      Ok(()) => out(format!("R {i} ok misc\n")),
      Err(e) => out(format!("R {i} bad {}\n", json!({"why": format!("{name}: {e}")}))),
    }
    i += 1;
  };
  let p = CString::new(dir.to_string_lossy().to_string()).unwrap();
  let missing = CString::new(dir.join("no-such-index").to_string_lossy().to_string()).unwrap();
  let docj = CString::new(r#"{"_id":"Z","body":"z"}"#).unwrap();
  step("index_open(null)", &mut || if searchlite_index_open(std::ptr::null(), true).is_null() { Ok(()) } else { Err("non-null handle".into()) });
  step("index_open(missing, create_if_missing=false)", &mut || if searchlite_index_open(missing.as_ptr(), false).is_null() { Ok(()) } else { Err("non-null handle for a missing index".into()) });
  step("index_close(null)", &mut || {
    searchlite_index_close(std::ptr::null_mut());
    Ok(())
  });
  step("commit(null)", &mut || {
    let rc = searchlite_commit(std::ptr::null_mut());
    if rc < 0 { Ok(()) } else { Err(format!("status {rc}, expected negative")) }
  });
  step("add_json(null handle)", &mut || {
    let rc = searchlite_add_json(std::ptr::null_mut(), docj.as_ptr(), docj.as_bytes().len());
    if rc < 0 { Ok(()) } else { Err(format!("status {rc}, expected negative")) }
  });
  let h = searchlite_index_open(p.as_ptr(), false);
  step("add_json(null json)", &mut || {
    let rc = searchlite_add_json(h, std::ptr::null(), 0);
    if rc < 0 { Ok(()) } else { Err(format!("status {rc}, expected negative")) }
  });
  for bad in ["not json", "[1,2]", "{\"body\":\"no id\"}", ""] {
    let s = CString::new(bad).unwrap();
    step(&format!("add_json(invalid document {bad:?})"), &mut || {
      let rc = searchlite_add_json(h, s.as_ptr(), s.as_bytes().len());
      if rc < 0 { Ok(()) } else { Err(format!("status {rc}, expected negative")) }
    });
  }
  searchlite_index_close(h);
  libc::_exit(0);
}

// ---------------------------------------------------------------------------------------------
// Parent side (shared)

#[derive(Debug, Default)]
struct FamilyResult {
  /// (case index, why, ret)
  bad: Vec<(usize, String, Option<u64>)>,
  classes: BTreeMap<String, u64>,
  done: usize,
  full_len: usize,
  full_text: String,
  ref_problem: Option<String>,
  /// child died: (signal or exit code description, announced case)
  died: Option<(String, String)>,
  setup_error: Option<String>,
}

fn describe_status(status: i32) -> String {
  if libc::WIFSIGNALED(status) {
    let s = libc::WTERMSIG(status);
    let name = match s {
      libc::SIGSEGV => "SIGSEGV",
      libc::SIGBUS => "SIGBUS",
      libc::SIGABRT => "SIGABRT",
      libc::SIGALRM => "SIGALRM (hang)",
      libc::SIGILL => "SIGILL",
      _ => "signal",
    };
    format!("killed by {name} ({s})")
  } else if libc::WEXITSTATUS(status) != 0 {
    format!("exit {}", libc::WEXITSTATUS(status))
  } else {
    String::new()
  }
}

/// Fork one child per job (at most `par` alive at a time; all forks are issued from the calling
/// thread). Each child gets an append-only file descriptor to report through, so what it wrote
/// survives its death. Returns (report text, how it ended: "" = exit 0) per job.
fn fork_batch(njobs: usize, par: usize, tmp: &Path, child: &dyn Fn(usize, i32)) -> Vec<(String, String)> {
  let mut how: Vec<String> = vec![String::new(); njobs];
  let mut alive: BTreeMap<i32, usize> = BTreeMap::new();
  let file_of = |j: usize| tmp.join(format!("job{j}.out"));
  let reap = |alive: &mut BTreeMap<i32, usize>, how: &mut Vec<String>| unsafe {
    let mut status = 0i32;
    let pid = libc::waitpid(-1, &mut status, 0);
    if pid < 0 {
      vcore::ev::machinery_failure("waitpid failed");
    }
    if let Some(j) = alive.remove(&pid) {
      how[j] = describe_status(status);
    }
  };
  for j in 0..njobs {
    while alive.len() >= par.max(1) {
      reap(&mut alive, &mut how);
    }
    let path = CString::new(file_of(j).to_string_lossy().to_string()).unwrap();
    unsafe {
      let fd = libc::open(path.as_ptr(), libc::O_WRONLY | libc::O_CREAT | libc::O_TRUNC | libc::O_APPEND, 0o600);
      if fd < 0 {
        vcore::ev::machinery_failure("cannot create child report file");
      }
      let pid = libc::fork();
      if pid < 0 {
        vcore::ev::machinery_failure("fork failed");
      }
      if pid == 0 {
        child(j, fd);
        libc::_exit(96);
      }
      libc::close(fd);
      alive.insert(pid, j);
    }
  }
  while !alive.is_empty() {
    reap(&mut alive, &mut how);
  }
  (0..njobs)
    .map(|j| {
      let raw = std::fs::read(file_of(j)).unwrap_or_default();
      let _ = std::fs::remove_file(file_of(j));
      (String::from_utf8_lossy(&raw).to_string(), std::mem::take(&mut how[j]))
    })
    .collect()
}

fn parse_family(text: &str, how: &str, res: &mut FamilyResult) -> Option<usize> {
  let mut announced: Option<String> = None;
  let mut last_started: Option<usize> = None;
  for line in text.lines() {
    if let Some(rest) = line.strip_prefix("S ") {
      announced = Some(rest.to_string());
      last_started = rest.split(' ').next().and_then(|x| x.parse().ok());
    } else if let Some(rest) = line.strip_prefix("F ") {
      announced = None;
      if let Ok(v) = serde_json::from_str::<Value>(rest) {
        res.full_len = v["len"].as_u64().unwrap_or(0) as usize;
        res.full_text = v["text"].as_str().unwrap_or("").to_string();
        res.ref_problem = v["problem"].as_str().map(|s| s.to_string());
      }
    } else if let Some(rest) = line.strip_prefix("R ") {
      announced = None;
      let mut it = rest.splitn(3, ' ');
      let i: usize = it.next().and_then(|x| x.parse().ok()).unwrap_or(0);
      let st = it.next().unwrap_or("");
      let tail = it.next().unwrap_or("");
      res.done += 1;
      if st == "ok" {
        *res.classes.entry(tail.to_string()).or_insert(0) += 1;
      } else {
        let v: Value = serde_json::from_str(tail).unwrap_or(json!({"why": tail}));
        res.bad.push((i, v["why"].as_str().unwrap_or("").to_string(), v["ret"].as_u64()));
      }
    } else if let Some(rest) = line.strip_prefix("E ") {
      res.setup_error = Some(rest.to_string());
    }
  }
  if !how.is_empty() && res.setup_error.is_none() {
    if how == "exit 97" || how == "exit 98" {
      vcore::ev::machinery_failure(&format!("child machinery failure ({how})"));
    }
    if let Some(a) = announced {
      res.died = Some((how.to_string(), a));
      return last_started.map(|i| i + 1).or(Some(usize::MAX));
    }
    res.died = Some((how.to_string(), "<between calls>".into()));
  }
  None
}

struct Job<'a> {
  dir: &'a Path,
  world: usize,
  combo: &'a Combo,
  caps: Vec<usize>,
}

/// Run every job (one combo over its capacities), restarting behind a call that killed the child.
fn run_families(jobs: &[Job], tmp: &Path) -> Vec<(FamilyResult, Vec<(String, String)>)> {
  let mut out: Vec<(FamilyResult, Vec<(String, String)>)> = jobs.iter().map(|_| (FamilyResult::default(), Vec::new())).collect();
  let mut todo: Vec<(usize, usize)> = (0..jobs.len()).map(|j| (j, 0)).collect();
  while !todo.is_empty() {
    let results = fork_batch(todo.len(), vcore::threads(), tmp, &|k, fd| unsafe {
      let (j, start) = todo[k];
      child_family(jobs[j].dir, jobs[j].combo, &jobs[j].caps, start, fd)
    });
    let mut next = Vec::new();
    for (k, (text, how)) in results.into_iter().enumerate() {
      let (j, _) = todo[k];
      let (res, deaths) = &mut out[j];
      res.died = None;
      let restart = parse_family(&text, &how, res);
      if let Some(d) = res.died.take() {
        deaths.push(d);
      }
      if let Some(n) = restart {
        if n < jobs[j].caps.len() && deaths.len() < 4 {
          next.push((j, n));
        }
      }
    }
    todo = next;
  }
  out
}

fn caps_for(full_len: usize) -> Vec<usize> {
  (0..=full_len + MARGIN).collect()
}

struct Outcome {
  evals: u64,
  nontrivial: u64,
  classes: BTreeMap<String, u64>,
  failures: Vec<(String, Value)>,
  sample: Value,
}

/// Everything for a list of (world, combo): reference probes, then the capacity sweeps.
fn check_combos(items: &[(usize, &Path, &Combo)], tmp: &Path, only_cap: Option<usize>) -> Vec<Outcome> {
  let mut outs: Vec<Outcome> = items.iter().map(|_| Outcome { evals: 0, nontrivial: 0, classes: BTreeMap::new(), failures: vec![], sample: Value::Null }).collect();
  let case = |i: usize, cap: Option<usize>| json!({"world": items[i].0, "combo": items[i].2.to_json(), "buf_cap": cap});
  // probes (no capacities) to learn len(full)
  let probes_jobs: Vec<Job> = items.iter().map(|(w, d, c)| Job { dir: d, world: *w, combo: c, caps: vec![] }).collect();
  let probes = run_families(&probes_jobs, tmp);
  let mut sweep_jobs: Vec<Job> = Vec::new();
  let mut sweep_of: Vec<usize> = Vec::new();
  let mut full_len: Vec<usize> = vec![0; items.len()];
  let mut full_text: Vec<String> = vec![String::new(); items.len()];
  for (i, (probe, deaths)) in probes.into_iter().enumerate() {
    let (world, dir, c) = items[i];
    let o = &mut outs[i];
    if let Some(e) = probe.setup_error {
      vcore::ev::machinery_failure(&format!("C26 setup for combo {}: {e}", c.name));
    }
    o.evals += 1;
    if let Some((how, at)) = deaths.first() {
      o.failures.push((format!("combo {} world {world}: child {how} during call `{at}` with a {BIG}-byte buffer; args {}", c.name, c.to_json()), case(i, Some(BIG))));
      continue;
    }
    if let Some(p) = &probe.ref_problem {
      o.failures.push((format!("combo {} world {world}: {p}; args {}", c.name, c.to_json()), case(i, Some(BIG))));
    }
    full_len[i] = probe.full_len;
    full_text[i] = probe.full_text;
    let caps = match only_cap {
      Some(c) if c == BIG => vec![],
      Some(c) => vec![c],
      None => caps_for(probe.full_len),
    };
    sweep_jobs.push(Job { dir, world, combo: c, caps });
    sweep_of.push(i);
  }
  let sweeps = run_families(&sweep_jobs, tmp);
  for (k, (res, deaths)) in sweeps.into_iter().enumerate() {
    let i = sweep_of[k];
    let job = &sweep_jobs[k];
    let (world, c) = (job.world, job.combo);
    let o = &mut outs[i];
    o.evals += res.done as u64;
    for (how, at) in deaths {
      let idx: Option<usize> = at.split(' ').next().and_then(|x| x.parse().ok());
      let cap = idx.and_then(|i| job.caps.get(i).copied());
      o.failures.push((format!("combo {} world {world}: child {how} during searchlite_search with buf_cap={cap:?} (len(full)={}); args {}", c.name, full_len[i], c.to_json()), case(i, cap)));
    }
    for (ci, why, ret) in res.bad.iter().take(3) {
      o.failures.push((format!("combo {} world {world} buf_cap={} (len(full)={}): {why} (ret={ret:?}); args {}", c.name, job.caps[*ci], full_len[i], c.to_json()), case(i, Some(job.caps[*ci]))));
    }
    o.nontrivial = res.classes.get("truncated").copied().unwrap_or(0) + res.classes.get("nul-only").copied().unwrap_or(0);
    o.classes = res.classes;
    o.sample = json!({"world": world, "combo": c.name, "len_full": full_len[i], "caps": format!("0..={}", full_len[i] + MARGIN), "full_head": full_text[i].chars().take(120).collect::<String>()});
  }
  outs
}

// ---------------------------------------------------------------------------------------------
// Call-sequence family: several calls on ONE handle, every call judged against the response a
// FRESH handle gives for the same arguments

const SEQ_QUERIES: [&[u8]; 2] = [b"a", br#"{"type":"match_all"}"#];
const SEQ_BUFS: [&str; 6] = ["null", "cap0", "cap1", "small", "exact", "large"];
const SEQ_SMALL: usize = 17;

#[derive(Debug, Clone, PartialEq)]
struct SeqCall {
  /// index into SEQ_QUERIES
  q: usize,
  /// one of SEQ_BUFS
  buf: &'static str,
  /// "valid" | "null-query" | "bad-aggs"
  bad: &'static str,
}

impl SeqCall {
  fn to_json(&self) -> Value {
    json!({"query": String::from_utf8_lossy(SEQ_QUERIES[self.q]), "limit": 10, "buffer": self.buf, "args": self.bad})
  }
  fn from_json(v: &Value) -> SeqCall {
    let q = SEQ_QUERIES.iter().position(|x| String::from_utf8_lossy(x) == v["query"].as_str().unwrap_or("a")).unwrap_or(0);
    let buf = SEQ_BUFS.iter().find(|b| Some(**b) == v["buffer"].as_str()).copied().unwrap_or("large");
    let bad = ["valid", "null-query", "bad-aggs"].into_iter().find(|b| Some(*b) == v["args"].as_str()).unwrap_or("valid");
    SeqCall { q, buf, bad }
  }
}

fn seq_alphabet() -> Vec<SeqCall> {
  let mut v = Vec::new();
  for q in 0..SEQ_QUERIES.len() {
    for buf in SEQ_BUFS {
      v.push(SeqCall { q, buf, bad: "valid" });
    }
  }
  // null / invalid arguments: status 0 whatever the buffer
  v.push(SeqCall { q: 0, buf: "large", bad: "null-query" });
  v.push(SeqCall { q: 0, buf: "cap0", bad: "null-query" });
  v.push(SeqCall { q: 1, buf: "large", bad: "bad-aggs" });
  v.push(SeqCall { q: 1, buf: "null", bad: "bad-aggs" });
  v
}

/// Every ordered pair (thorough: also every ordered triple) over the call alphabet, pairs first.
fn seq_sequences(thorough: bool) -> Vec<Vec<SeqCall>> {
  let a = seq_alphabet();
  let mut out = Vec::new();
  for x in &a {
    for y in &a {
      out.push(vec![x.clone(), y.clone()]);
    }
  }
  if thorough {
    for x in &a {
      for y in &a {
        for z in &a {
          out.push(vec![x.clone(), y.clone(), z.clone()]);
        }
      }
    }
  }
  out
}

/// One call of a sequence; returns the oracle's verdict.
unsafe fn seq_call(h: *mut IndexHandle, c: &SeqCall, fulls: &[Vec<u8>]) -> Result<&'static str, (String, usize)> {
  let valid = c.bad == "valid";
  let full: &[u8] = if valid { &fulls[c.q] } else { &[] };
  let (cap, null_out) = match c.buf {
    "null" => (64, true),
    "cap0" => (0, false),
    "cap1" => (1, false),
    "small" => (SEQ_SMALL, false),
    "exact" => (fulls[c.q].len() + 1, false),
    _ => (BIG, false),
  };
  let g = Guarded::new(cap);
  let q = CString::new(SEQ_QUERIES[c.q].to_vec()).unwrap();
  let bad_aggs = b"not valid json";
  let (ap, al) = if c.bad == "bad-aggs" { (bad_aggs.as_ptr() as *const c_char, bad_aggs.len()) } else { (std::ptr::null(), 0) };
  let ret = searchlite_search(
    h,
    if c.bad == "null-query" { std::ptr::null() } else { q.as_ptr() },
    10,
    std::ptr::null(),
    ap,
    al,
    if null_out { std::ptr::null_mut() } else { g.buf() as *mut c_char },
    cap + selftest_lie(cap),
  );
  let can = g.canaries_intact();
  let mut probe = Combo::new("sequence", "a", 10);
  probe.null_out = null_out;
  judge(&probe, cap, full, ret, &can, g.bytes()).map_err(|e| (e, ret))
}

unsafe fn child_sequences(dir: &Path, seqs: &[Vec<SeqCall>], start: usize, fd: i32) -> ! {
  let out = |s: String| {
    let b = s.as_bytes();
    let mut off = 0;
    while off < b.len() {
      let n = libc::write(fd, b[off..].as_ptr() as *const _, b.len() - off);
      if n <= 0 {
        libc::_exit(98);
      }
      off += n as usize;
    }
  };
  libc::alarm(600);
  let devnull = CString::new("/dev/null").unwrap();
  let nfd = libc::open(devnull.as_ptr(), libc::O_WRONLY);
  if nfd >= 0 {
    libc::dup2(nfd, 2);
  }
  let p = CString::new(dir.to_string_lossy().to_string()).unwrap();
  // reference responses: each from its own fresh handle, large buffer
  let mut fulls: Vec<Vec<u8>> = Vec::new();
  for q in SEQ_QUERIES {
    let h = searchlite_index_open(p.as_ptr(), false);
    if h.is_null() {
      out("E setup: searchlite_index_open returned null\n".into());
      libc::_exit(3);
    }
    let cq = CString::new(q.to_vec()).unwrap();
    let mut buf = vec![0u8; BIG];
    let n = searchlite_search(h, cq.as_ptr(), 10, std::ptr::null(), std::ptr::null(), 0, buf.as_mut_ptr() as *mut c_char, BIG);
    searchlite_index_close(h);
    if n == 0 || serde_json::from_slice::<Value>(&buf[..n]).is_err() {
      out(format!("E setup: reference call for query {:?} on a fresh handle returned {n}\n", String::from_utf8_lossy(q)));
      libc::_exit(3);
    }
    fulls.push(buf[..n].to_vec());
  }
  for (i, seq) in seqs.iter().enumerate().skip(start) {
    out(format!("S {i}\n"));
    let h = searchlite_index_open(p.as_ptr(), false);
    if h.is_null() {
      out("E setup: searchlite_index_open returned null\n".into());
      libc::_exit(3);
    }
    let mut bad: Option<(usize, String, usize)> = None;
    for (k, c) in seq.iter().enumerate() {
      if let Err((why, ret)) = seq_call(h, c, &fulls) {
        bad = Some((k, why, ret));
        break;
      }
    }
    searchlite_index_close(h);
    match bad {
      None => out(format!("R {i} ok sequence-{}\n", seq.len())),
      Some((k, why, ret)) => out(format!("R {i} bad {}\n", json!({"ret": ret, "why": format!("call {} of {} on the same handle ({}): {why} [len(full) of this call on a fresh handle = {}]", k + 1, seq.len(), seq[k].to_json(), if seq[k].bad == "valid" { fulls[seq[k].q].len() } else { 0 })}))),
    }
  }
  libc::_exit(0);
}

struct SeqOutcome {
  sequences: u64,
  calls: u64,
  failures: Vec<(String, Value)>,
  classes: BTreeMap<String, u64>,
}

/// Run the sequences in `par` slices, restarting a slice behind a sequence that killed the child.
fn run_sequences(dir: &Path, world: usize, seqs: &[Vec<SeqCall>], tmp: &Path) -> SeqOutcome {
  let par = vcore::threads().max(1);
  let per = seqs.len().div_ceil(par).max(1);
  let slices: Vec<&[Vec<SeqCall>]> = seqs.chunks(per).collect();
  let mut o = SeqOutcome { sequences: 0, calls: 0, failures: vec![], classes: BTreeMap::new() };
  let mut todo: Vec<(usize, usize, usize)> = (0..slices.len()).map(|s| (s, 0, 0)).collect();
  while !todo.is_empty() {
    let results = fork_batch(todo.len(), par, tmp, &|k, fd| unsafe {
      let (s, start, _) = todo[k];
      child_sequences(dir, slices[s], start, fd)
    });
    let mut next = Vec::new();
    for (k, (text, how)) in results.into_iter().enumerate() {
      let (s, _, deaths) = todo[k];
      let mut res = FamilyResult::default();
      let restart = parse_family(&text, &how, &mut res);
      if let Some(e) = res.setup_error {
        vcore::ev::machinery_failure(&format!("C26 sequence family: {e}"));
      }
      o.sequences += res.done as u64;
      for (cl, n) in res.classes {
        let len: u64 = cl.rsplit('-').next().and_then(|x| x.parse().ok()).unwrap_or(0);
        o.calls += len * n;
        *o.classes.entry(cl).or_insert(0) += n;
      }
      let case = |i: usize| json!({"world": world, "sequence": slices[s][i].iter().map(|c| c.to_json()).collect::<Vec<_>>()});
      let show = |i: usize| slices[s][i].iter().map(|c| format!("{}({},{})", c.bad, String::from_utf8_lossy(SEQ_QUERIES[c.q]), c.buf)).collect::<Vec<_>>().join(" -> ");
      for (i, why, _) in res.bad.iter() {
        o.calls += slices[s][*i].len() as u64;
        o.failures.push((format!("call sequence on one handle [{}]: {why}", show(*i)), case(*i)));
      }
      if let Some((how, at)) = res.died {
        let i: usize = at.split(' ').next().and_then(|x| x.parse().ok()).unwrap_or(0);
        if i < slices[s].len() {
          o.failures.push((format!("call sequence on one handle [{}]: child {how}", show(i)), case(i)));
        }
        if let Some(n) = restart {
          if n < slices[s].len() && deaths < 3 {
            next.push((s, n, deaths + 1));
          }
        }
      }
    }
    todo = next;
  }
  o
}

fn classify(_what: &str) -> Option<&'static str> {
  // no genuine defect of searchlite_search's buffer handling is known on the reference tree
  None
}

fn setup_worlds(n: usize) -> (Scratch, Vec<PathBuf>) {
  let sc = Scratch::new("c26");
  let mut dirs = Vec::new();
  for w in 0..n {
    let d = sc.sub(&format!("w{w}"));
    if let Err(e) = prepare_world(&d, w) {
      vcore::ev::machinery_failure(&format!("C26 world {w}: {e}"));
    }
    dirs.push(d);
  }
  (sc, dirs)
}

pub fn run(ctx: &Ctx) -> i32 {
  let mut rep = Reporter::new("C26", ctx.tier, "exploration");
  let quick = ctx.tier.is_quick();
  if let Some(path) = &ctx.replay {
    rep.set_replaying(true);
    let v: Value = serde_json::from_slice(&std::fs::read(path).expect("replay file")).expect("json");
    let cs = &v["case"];
    if cs["misc"].as_bool() == Some(true) {
      let (sc, dirs) = setup_worlds(1);
      let run = || {
        let (text, how) = fork_batch(1, 1, &sc.path, &|_, fd| unsafe { child_misc(&dirs[0], fd) }).remove(0);
        let mut r = FamilyResult::default();
        parse_family(&text, &how, &mut r);
        r.bad.first().map(|b| b.1.clone()).or(r.died.map(|d| format!("child {} during {}", d.0, d.1)))
      };
      let (a, b) = (run(), run());
      if a.is_some() != b.is_some() {
        vcore::ev::machinery_failure("NONDETERMINISM on replay");
      }
      return match a {
        Some(w) => {
          println!("VIOLATION property=C26 replay={path}\n  what: {w}");
          1
        }
        None => {
          println!("replay: no violation");
          0
        }
      };
    }
    if cs["sequence"].is_array() {
      let world = cs["world"].as_u64().unwrap_or(0) as usize;
      let seq: Vec<SeqCall> = cs["sequence"].as_array().unwrap().iter().map(SeqCall::from_json).collect();
      let (sc, dirs) = setup_worlds(world + 1);
      let run = || run_sequences(&dirs[world], world, std::slice::from_ref(&seq), &sc.path).failures.first().map(|f| f.0.clone());
      let (a, b) = (run(), run());
      if a.is_some() != b.is_some() {
        vcore::ev::machinery_failure("NONDETERMINISM on replay");
      }
      return match a {
        Some(w) => {
          println!("VIOLATION property=C26 replay={path}\n  what: {w}");
          1
        }
        None => {
          println!("replay: no violation");
          0
        }
      };
    }
    let world = cs["world"].as_u64().unwrap_or(0) as usize;
    let c = Combo::from_json(&cs["combo"]);
    let cap = cs["buf_cap"].as_u64().map(|x| x as usize);
    let (sc, dirs) = setup_worlds(world + 1);
    let run = || -> Option<String> {
      let o = check_combos(&[(world, dirs[world].as_path(), &c)], &sc.path, Some(cap.unwrap_or(BIG)));
      o[0].failures.first().map(|f| f.0.clone())
    };
    let (a, b) = (run(), run());
    if a.is_some() != b.is_some() {
      vcore::ev::machinery_failure("NONDETERMINISM on replay");
    }
    return match a {
      Some(w) => {
        println!("VIOLATION property=C26 replay={path}\n  what: {w}");
        1
      }
      None => {
        println!("replay: no violation");
        0
      }
    };
  }

  let nworlds = if quick { 1 } else { 3 };
  let (sc, dirs) = setup_worlds(nworlds);
  let cs = combos(!quick);
  let mut classes: BTreeMap<String, u64> = BTreeMap::new();
  let mut nontrivial = 0u64;
  let mut sweeps = 0u64;
  let mut combo_names: BTreeSet<String> = BTreeSet::new();
  // the call-sequence family runs first
  let seqs = seq_sequences(!quick);
  let so = run_sequences(&dirs[0], 0, &seqs, &sc.path);
  rep.add_evals(so.calls);
  for (what, case) in &so.failures {
    rep.fail(classify(what), what, case.clone());
  }
  for (k, v) in &so.classes {
    *classes.entry(k.clone()).or_insert(0) += v;
  }
  let seq_wall = rep.elapsed_s();
  // forks are issued from this thread only (the rayon pool is idle); children run concurrently
  let mut items: Vec<(usize, &Path, &Combo)> = Vec::new();
  for (w, dir) in dirs.iter().enumerate() {
    for (ci, c) in cs.iter().enumerate() {
      // the multi-page world takes the 8 base (query, cursor, aggs) combinations only
      if w == 2 && ci >= 8 {
        continue;
      }
      items.push((w, dir.as_path(), c));
    }
  }
  let outs = check_combos(&items, &sc.path, None);
  for ((_, _, c), o) in items.iter().zip(outs) {
    rep.add_evals(o.evals);
    nontrivial += o.nontrivial;
    sweeps += 1;
    combo_names.insert(c.name.to_string());
    for (k, v) in o.classes {
      *classes.entry(k).or_insert(0) += v;
    }
    for (what, case) in o.failures {
      rep.fail(classify(&what), &what, case);
    }
    if matches!(c.name, "qs" | "page2-aggs" | "aggs-short-half" | "null-handle") {
      rep.sample(o.sample);
    }
  }
  // null checks of the other entry points
  {
    let (text, how) = fork_batch(1, 1, &sc.path, &|_, fd| unsafe { child_misc(&dirs[0], fd) }).remove(0);
    let mut r = FamilyResult::default();
    parse_family(&text, &how, &mut r);
    rep.add_evals(r.done as u64);
    for (k, v) in r.classes {
      *classes.entry(k).or_insert(0) += v;
    }
    for (_, why, _) in &r.bad {
      rep.fail(None, &format!("entry-point null/invalid check: {why}"), json!({"misc": true}));
    }
    if let Some((how, at)) = r.died {
      rep.fail(None, &format!("entry-point null/invalid check: child {how} during `{at}`"), json!({"misc": true}));
    }
  }
  if classes.len() < 2 {
    vcore::ev::machinery_failure("C26 vacuous: fewer than 2 distinct outcomes");
  }
  let cov = vcore::cov! {
    "distinct_nontrivial" => nontrivial,
    "rule" => "case = (world, argument combination, buf_cap) with buf_cap ranging over EVERY value 0..=len(full)+16; non-trivial = the response is actually truncated (0 < buf_cap <= len(full)). Oracle per call: both 64-byte canaries intact and no fault (PROT_NONE pages on both sides; aggregation bytes sit at the end of their own guarded region without NUL); ret <= buf_cap-1; ret == min(len(full), buf_cap-1); bytes [0,ret) equal the large-buffer response; byte ret is NUL; buf_cap 0 / null out buffer / null handle / null query / unparsable or cut-short aggregation JSON => status 0; if the large-buffer call gives 0 every capacity gives 0.",
    "worlds" => nworlds,
    "combinations" => cs.len(),
    "combination_names" => combo_names,
    "capacity_sweeps" => sweeps,
    "call_sequence_family" => json!({"rule": "on ONE handle: every ordered pair (thorough: and every ordered triple) of calls from {query a, query match_all} x {buffer: NULL, cap 0, cap 1, cap 17, cap len+1, cap large} valid, plus null query (large / cap 0) and unparsable aggregation JSON (large / NULL buffer); EVERY call of the sequence is judged with the single-call oracle against the response a FRESH handle gives for the same arguments (invalid arguments: status 0)", "alphabet": seq_alphabet().len(), "sequences": so.sequences, "calls_judged": so.calls, "failures": so.failures.len(), "wall_s": seq_wall}),
    "outcome_classes" => classes,
    "distinct_observed_outcomes" => classes.len(),
    "exhaustive" => true,
  };
  rep.finish(cov, vec![
    "cursor arguments are only strings produced by a previous response (documented precondition); arbitrary cursor bytes are C16's subject".into(),
    "buf_cap never exceeds the real size of the buffer handed over; aggs_len never exceeds the readable bytes (documented preconditions)".into(),
    "with status 0 the buffer content is unspecified (the code leaves it untouched); only canaries and the status are checked".into(),
    "limit 0, a foreign cursor, unknown fields and empty / non-UTF-8 queries may succeed or fail: only consistency with the large-buffer call and buffer safety are demanded".into(),
    "searchlite_add_json's json_len parameter is ignored by the implementation and documented as a NUL-terminated string; not varied".into(),
  ])
}
