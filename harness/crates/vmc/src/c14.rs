//! C14 — compaction preserves observable contents.
//! Engine: inputmc (differential) — every world (document shapes incl. nested / null / empty /
//! multi-valued values x segment layouts with >= 2 segments x upserts x deletions) is observed
//! through a battery of queries and filters, compacted with the real `Index::compact`, and observed
//! again; plus the refusal case (indexed field that is not stored).

use std::collections::{BTreeMap, HashSet};
use std::sync::atomic::{AtomicU64, Ordering};

use parking_lot::Mutex;
use rayon::prelude::*;
use serde_json::{json, Value};

use vcore::ev::Reporter;
use vcore::hist::schema_s3;
use vcore::inp::*;
use vcore::world::*;

use crate::Ctx;

fn schema_json(compactable: bool) -> Value {
  serde_json::to_value(schema_s3(compactable)).unwrap()
}

/// Flag-matrix schemas: the compactable S3 schema with exactly one field (top-level or nested)
/// switched to `stored: false` under every combination of its `indexed` / `fast` flags (nullable,
/// so that a rebuild from stored values is not rejected by accident). The property leaves the
/// choice to the implementation: it may compact (then nothing observable may change) or refuse
/// (then nothing at all may change).
fn flag_matrix() -> Vec<(String, Value)> {
  let mut out = Vec::new();
  let base = schema_json(true);
  // (section, index in section, nested property index or usize::MAX, flags that exist)
  let slots: Vec<(&str, usize, usize, &[&str])> = vec![
    ("text_fields", 1, usize::MAX, &["indexed"]),
    ("keyword_fields", 0, usize::MAX, &["indexed", "fast"]),
    ("numeric_fields", 0, usize::MAX, &["fast"]),
    ("numeric_fields", 1, usize::MAX, &["fast"]),
    ("nested_fields", 0, 0, &["indexed", "fast"]),
    ("nested_fields", 0, 2, &["fast"]),
  ];
  for (section, i, j, flags) in slots {
    for mask in 0..(1usize << flags.len()) {
      let mut sj = base.clone();
      let f = if j == usize::MAX { &mut sj[section][i] } else { &mut sj[section][i]["fields"][j] };
      f["stored"] = json!(false);
      f["nullable"] = json!(true);
      let mut label = format!("{}{}", f["name"].as_str().unwrap_or("?"), if j == usize::MAX { "" } else { "(nested)" });
      for (b, flag) in flags.iter().enumerate() {
        let on = mask & (1 << b) != 0;
        f[*flag] = json!(on);
        label.push_str(&format!(" {flag}={on}"));
      }
      if serde_json::from_value::<searchlite_core::Schema>(sj.clone()).is_ok() {
        out.push((format!("S3-unstored[{label}]"), sj));
      }
    }
  }
  out
}

#[derive(Clone, Copy, PartialEq, Debug)]
enum Expect {
  Compacts,
  Refuses,
  Either,
}

fn shapes() -> Vec<Value> {
  vec![
    json!({"body": "alpha one", "note": "first", "tag": ["x", "Y"], "hidden": "h1", "n": 1, "f": 0.5, "c": [{"a": "p", "s": "secret", "k": 1}, {"a": "q"}]}),
    json!({"body": ["beta two", "alpha two"], "tag": "z", "n": [2, 5], "f": [1.0, 2.5], "c": {"a": ["r", "t"], "k": null, "s": null}}),
    json!({"body": "gamma", "note": null, "tag": "x", "n": 2, "f": 2.5, "c": null}),
    json!({"body": "alpha beta gamma", "tag": ["z", "x"], "n": 5, "c": []}),
    json!({"body": "one two", "note": "second note", "f": 1.0, "c": [{"a": "q", "k": 2}, {"a": "p", "k": 5, "s": null}]}),
    json!({"body": "", "tag": "y"}),
    // blank values: an empty entry inside a multi-valued text (it keeps a position gap), a blank
    // and a whitespace-only keyword value, a whitespace-only text
    json!({"body": ["alpha", "", "beta"], "note": " ", "tag": ["", "x"], "n": 1}),
    json!({"body": ["alpha", "beta"], "tag": "", "f": 0.5}),
    json!({"body": ["gamma", " ", "one"], "tag": [" ", "z"]}),
  ]
}

/// The observation battery: (name, request). All executed with bm25 and a covering limit.
fn battery() -> Vec<(String, Value)> {
  let mut v: Vec<(String, Value)> = Vec::new();
  let mut q = |name: &str, query: Value, filter: Option<Value>| {
    let mut r = json!({"query": query, "limit": 50});
    if let Some(f) = filter {
      r["filter"] = f;
    }
    v.push((name.to_string(), r));
  };
  for t in ["alpha", "beta", "gamma", "one", "two", "first", "second", "note"] {
    q(&format!("qs:{t}"), json!(t), None);
    q(&format!("term:body:{t}"), json!({"type": "term", "field": "body", "value": t}), None);
    q(&format!("term:note:{t}"), json!({"type": "term", "field": "note", "value": t}), None);
  }
  q("phrase:beta two", json!({"type": "phrase", "field": "body", "terms": ["beta", "two"]}), None);
  q("phrase:two alpha slop1", json!({"type": "phrase", "field": "body", "terms": ["two", "alpha"], "slop": 1}), None);
  q("phrase:alpha beta", json!({"type": "phrase", "field": "body", "terms": ["alpha", "beta"]}), None);
  q("phrase:alpha beta slop1", json!({"type": "phrase", "field": "body", "terms": ["alpha", "beta"], "slop": 1}), None);
  q("phrase:gamma one", json!({"type": "phrase", "field": "body", "terms": ["gamma", "one"]}), None);
  q("prefix:al", json!({"type": "prefix", "field": "body", "value": "al"}), None);
  q("wildcard:g*a", json!({"type": "wildcard", "field": "body", "value": "g*a"}), None);
  q("qs:alpha -one", json!("alpha -one"), None);
  q("bool", json!({"type": "bool", "must": [{"type": "term", "field": "body", "value": "alpha"}], "must_not": [{"type": "term", "field": "body", "value": "two"}]}), None);
  let ma = || json!({"type": "match_all"});
  for val in ["x", "X", "y", "z", "Y"] {
    q(&format!("f:tag={val}"), ma(), Some(json!({"KeywordEq": {"field": "tag", "value": val}})));
  }
  q("f:tag=blank", ma(), Some(json!({"KeywordEq": {"field": "tag", "value": ""}})));
  q("f:tag=space", ma(), Some(json!({"KeywordEq": {"field": "tag", "value": " "}})));
  q("f:not tag=blank", ma(), Some(json!({"Not": {"KeywordEq": {"field": "tag", "value": ""}}})));
  q("f:tag in", ma(), Some(json!({"KeywordIn": {"field": "tag", "values": ["y", "z"]}})));
  for (lo, hi) in [(1, 1), (2, 4), (5, 9), (0, 0)] {
    q(&format!("f:n {lo}..{hi}"), ma(), Some(json!({"I64Range": {"field": "n", "min": lo, "max": hi}})));
  }
  for (lo, hi) in [(0.5, 0.5), (1.0, 2.0), (2.5, 9.0)] {
    q(&format!("f:f {lo}..{hi}"), ma(), Some(json!({"F64Range": {"field": "f", "min": lo, "max": hi}})));
  }
  for a in ["p", "q", "r", "t"] {
    q(&format!("f:nested a={a}"), ma(), Some(json!({"Nested": {"path": "c", "filter": {"KeywordEq": {"field": "a", "value": a}}}})));
  }
  q("f:nested k", ma(), Some(json!({"Nested": {"path": "c", "filter": {"I64Range": {"field": "k", "min": 2, "max": 5}}}})));
  q("f:nested a=p&k=5", ma(), Some(json!({"Nested": {"path": "c", "filter": {"And": [{"KeywordEq": {"field": "a", "value": "p"}}, {"I64Range": {"field": "k", "min": 5, "max": 5}}]}}})));
  q("f:nested a=q&k=1", ma(), Some(json!({"Nested": {"path": "c", "filter": {"And": [{"KeywordEq": {"field": "a", "value": "q"}}, {"I64Range": {"field": "k", "min": 1, "max": 1}}]}}})));
  q("f:not tag=x", ma(), Some(json!({"Not": {"KeywordEq": {"field": "tag", "value": "x"}}})));
  q("f:or", ma(), Some(json!({"Or": [{"KeywordEq": {"field": "tag", "value": "z"}}, {"I64Range": {"field": "n", "min": 1, "max": 1}}]})));
  q("sort n", ma(), None);
  v.last_mut().unwrap().1["sort"] = json!([{"field": "n", "order": "asc"}, {"field": "tag", "order": "desc"}]);
  v
}

type Obs = BTreeMap<String, Result<Vec<String>, String>>;

fn observe(idx: &searchlite_core::api::Index, bat: &[(String, Value)]) -> Result<(BTreeMap<String, Value>, Obs), String> {
  let reader = idx.reader().map_err(|e| format!("reader: {e:#}"))?;
  let stored = contents_of(&reader).map_err(|e| format!("match_all: {e:#}"))?;
  let mut obs = Obs::new();
  for (name, r) in bat {
    let res = search_caught(&reader, &req(r.clone()));
    let is_sorted = r.get("sort").is_some();
    obs.insert(
      name.clone(),
      res.map(|x| {
        let mut ids: Vec<String> = x.hits.into_iter().map(|h| h.doc_id).collect();
        if !is_sorted {
          ids.sort(); // scores legitimately change with segment statistics: compare sets
        }
        ids
      }),
    );
  }
  Ok((stored, obs))
}

fn mk_world(shape_idx: &[usize], ids: &[usize], layout: &[usize], deleted: &[&str], compactable: bool) -> World {
  let sh = shapes();
  let docs: Vec<Value> = shape_idx
    .iter()
    .zip(ids)
    .map(|(s, i)| {
      let mut d = sh[*s].clone();
      d["_id"] = json!(id_of(*i));
      d
    })
    .collect();
  World::new(if compactable { "S3" } else { "S3-unstored-note" }, schema_json(compactable), docs)
    .with_layout(layout.to_vec())
    .with_deleted(deleted)
}

fn check(world: &World, bat: &[(String, Value)], expect: Expect) -> Result<(usize, bool), String> {
  let idx = world.build();
  let before_manifest = idx.manifest();
  let nseg = before_manifest.segments.len();
  let (st1, ob1) = observe(&idx, bat)?;
  let res = vcore::catch(|| idx.compact());
  let res = match res {
    Err(p) => return Err(format!("compact panicked: {p}")),
    Ok(r) => r,
  };
  let (st2, ob2) = observe(&idx, bat).map_err(|e| format!("after compact: {e}"))?;
  let after = idx.manifest();
  let refused = res.is_err();
  if expect == Expect::Refuses && nseg > 1 && !refused {
    return Err("compact succeeded although an indexed field is not stored (its data cannot be rebuilt)".into());
  }
  if expect == Expect::Compacts && refused {
    return Err(format!("compact failed: {:#}", res.as_ref().err().unwrap()));
  }
  if refused {
    // a refusal leaves everything untouched
    let segs = |m: &searchlite_core::Manifest| m.segments.iter().map(|s| (s.id.clone(), s.deleted_docs.clone())).collect::<Vec<_>>();
    if segs(&before_manifest) != segs(&after) {
      return Err("refused compaction changed the manifest".into());
    }
  } else if nseg > 1 {
    if after.segments.len() != 1 {
      return Err(format!("after compaction the manifest has {} segments", after.segments.len()));
    }
    if !after.segments[0].deleted_docs.is_empty() {
      return Err(format!("compacted segment still has tombstones {:?}", after.segments[0].deleted_docs));
    }
    if after.segments[0].doc_count as usize != st1.len() {
      return Err(format!("compacted segment doc_count {} but {} live documents", after.segments[0].doc_count, st1.len()));
    }
  }
  if st1 != st2 {
    return Err(format!("stored contents changed: before {} after {}", serde_json::to_string(&st1).unwrap(), serde_json::to_string(&st2).unwrap()));
  }
  for (name, a) in &ob1 {
    let b = &ob2[name];
    let same = match (a, b) {
      (Ok(x), Ok(y)) => x == y,
      (Err(_), Err(_)) => true,
      _ => false,
    };
    if !same {
      return Err(format!("observation `{name}` changed: before {a:?} after {b:?}"));
    }
  }
  // reopen-independent: a second compaction is a no-op
  let nontrivial = ob1.values().filter(|r| matches!(r, Ok(v) if !v.is_empty() && v.len() < st1.len())).count();
  Ok((nontrivial, nseg > 1 && !refused))
}

pub fn run(ctx: &Ctx) -> i32 {
  let mut rep = Reporter::new("C14", ctx.tier, "exploration");
  let quick = ctx.tier.is_quick();
  let bat = battery();
  if let Some(path) = &ctx.replay {
    rep.set_replaying(true);
    let v: Value = serde_json::from_slice(&std::fs::read(path).expect("replay file")).expect("json");
    let world = World::from_json(&v["case"]["world"]);
    let expect = match v["case"]["expect"].as_str() {
      Some("Refuses") => Expect::Refuses,
      Some("Either") => Expect::Either,
      Some(_) => Expect::Compacts,
      None => {
        if v["case"]["compactable"].as_bool().unwrap_or(true) {
          Expect::Compacts
        } else {
          Expect::Refuses
        }
      }
    };
    let a = check(&world, &bat, expect).err();
    let b = check(&world, &bat, expect).err();
    if a.is_some() != b.is_some() {
      vcore::ev::machinery_failure("NONDETERMINISM on replay");
    }
    return match a {
      Some(w) => {
        println!("VIOLATION property=C14 replay={path}\n  what: {w}");
        1
      }
      None => {
        println!("replay: no violation");
        0
      }
    };
  }
  let nshapes = shapes().len();
  let max_docs = if quick { 3 } else { 4 };
  let mut worlds: Vec<(World, Expect)> = Vec::new();
  for n in 2..=max_docs {
    for seq in sequences(&(0..nshapes).collect::<Vec<_>>(), n, n) {
      // id patterns: all distinct; the last document re-uses the first id (an upsert across commits)
      let id_patterns: Vec<Vec<usize>> = vec![(0..n).collect(), (0..n).map(|i| if i == n - 1 { 0 } else { i }).collect()];
      for ids in id_patterns {
        for lay in compositions(n) {
          if lay.len() < 2 {
            continue;
          }
          if quick && n == 3 && lay.len() == 2 && lay[0] == 2 && ids[n - 1] == 0 {
            // still covered in thorough; keeps quick small
          }
          let dels: Vec<Vec<&str>> = if n >= 3 { vec![vec![], vec!["B"]] } else { vec![vec![]] };
          for d in dels {
            worlds.push((mk_world(&seq, &ids, &lay, &d, true), Expect::Compacts));
          }
        }
      }
    }
  }
  // refusal worlds: `note` indexed but not stored
  for seq in sequences(&(0..nshapes).collect::<Vec<_>>(), 2, 2) {
    worlds.push((mk_world(&seq, &[0, 1], &[1, 1], &[], false), Expect::Refuses));
    worlds.push((mk_world(&seq, &[0, 1], &[2], &[], false), Expect::Refuses));
  }
  // flag matrix: one unstored field under every indexed / fast combination, top-level and nested.
  // The implementation may compact or refuse; either way nothing observable may change.
  let matrix = flag_matrix();
  let sh = shapes();
  for (name, sj) in &matrix {
    let mut push = |seq: &[usize], lay: &[usize], del: &[&str]| {
      let docs: Vec<Value> = seq
        .iter()
        .enumerate()
        .map(|(i, s)| {
          let mut d = sh[*s].clone();
          d["_id"] = json!(id_of(i));
          d
        })
        .collect();
      worlds.push((World::new(name, sj.clone(), docs).with_layout(lay.to_vec()).with_deleted(del), Expect::Either));
    };
    for seq in sequences(&(0..nshapes).collect::<Vec<_>>(), 2, 2) {
      push(&seq, &[1, 1], &[]);
    }
    if !quick {
      for seq in sequences(&(0..nshapes).collect::<Vec<_>>(), 3, 3) {
        push(&seq, &[2, 1], &[]);
        push(&seq, &[1, 1, 1], &["B"]);
      }
    } else {
      for seq in sequences(&[0usize, 1, 4], 3, 3) {
        push(&seq, &[2, 1], &["A"]);
      }
    }
  }
  let matrix_worlds = worlds.iter().filter(|(_, e)| *e == Expect::Either).count();
  let evals = AtomicU64::new(0);
  let nontriv = AtomicU64::new(0);
  let compacted = AtomicU64::new(0);
  let outcomes: Mutex<HashSet<String>> = Mutex::new(HashSet::new());
  worlds.par_iter().for_each(|(w, expect)| {
    let compactable = format!("{expect:?}");
    evals.fetch_add(1, Ordering::Relaxed);
    match check(w, &bat, *expect) {
      Ok((nt, did)) => {
        nontriv.fetch_add(nt as u64, Ordering::Relaxed);
        if did {
          compacted.fetch_add(1, Ordering::Relaxed);
        }
        outcomes.lock().insert(format!("{}:{}", compactable, did));
        if nt > 10 {
          rep.sample(json!({"world": w.describe(), "observations": bat.len(), "nontrivial_observations": nt}));
        }
      }
      Err(what) => rep.fail(None, &format!("{}: {}", w.describe(), what), json!({"engine": "inputmc-compact", "world": w.to_json(), "expect": compactable})),
    }
  });
  rep.add_evals(evals.load(Ordering::Relaxed));
  let n_out = outcomes.lock().len();
  if n_out < 2 && rep.violations() == 0 {
    vcore::ev::machinery_failure("C14 vacuous: fewer than 2 outcome kinds (compacted / refused)");
  }
  let cov = vcore::cov! {
    "distinct_nontrivial" => nontriv.load(Ordering::Relaxed),
    "rule" => "worlds = every sequence of 2..n document shapes (text single/multi/empty, nullable text null, keyword single/multi/case variants, i64/f64 single/multi, nested array / single object / null / empty array with null and unstored properties) x {distinct ids, last document upserts the first} x every layout with >= 2 segments x {no deletion, one deletion}; each world is observed through match_all+stored and a battery of term / query_string / phrase / prefix / wildcard / bool queries and keyword / range / nested / Not / Or filters, compacted with the real Index::compact and observed again. distinct_nontrivial counts observations whose hit set is a non-empty proper subset of the live documents. Refusal worlds (an indexed field that is not stored) must return Err and keep manifest and observations unchanged. Outcome kinds are (expectation, compacted?).",
    "worlds" => worlds.len(),
    "flag_matrix_schemas" => matrix.iter().map(|(n, _)| n.clone()).collect::<Vec<_>>(),
    "flag_matrix_worlds" => matrix_worlds,
    "flag_matrix_rule" => "S3 with exactly one field (note, tag, n, f, nested c.a, nested c.k) set stored:false, nullable, under every combination of its indexed / fast flags; compact may succeed (then stored contents, all observations and the one-segment manifest conditions must hold) or refuse (then manifest and observations are unchanged)",
    "worlds_compacted" => compacted.load(Ordering::Relaxed),
    "observations_per_world" => bat.len() + 1,
    "max_docs" => max_docs,
    "exhaustive" => true,
    "distinct_observed_outcomes" => n_out,
  };
  rep.finish(cov, vec!["scores are not compared (segment statistics legitimately change); hit sets are".into()])
}
