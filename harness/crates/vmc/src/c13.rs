//! C13 — aggregations and suggestions do not depend on paging.
//! Engine: inputmc aggs-paging — C12 worlds x 9 queries (6 plain with >= 4 matches, 3 with custom
//! scoring that drops documents: function_score + min_score over match_all and over a term,
//! script_score with a division by a zero / missing field) x two request kinds (7 aggregation
//! trees including top_hits; the 6 trees without top_hits, because top_hits forces scoring) + 2
//! completion suggesters; variants: every page of cursor walks with page size 1,2,3 (the first
//! pages are the limit 1 / 2 / 3 variants), limit n, 3 sort plans, 3 execution strategies,
//! return_hits off, explain, profile and rescore on.
//! Oracle: `aggregations` and `suggest` of every variant equal those of the reference variant of
//! the same request kind (first page, limit = n, bm25, default sort).

use std::collections::{BTreeMap, BTreeSet};

use rayon::prelude::*;
use searchlite_core::api::types::{ExecutionStrategy, RescoreRequest, SearchRequest, SortSpec};
use searchlite_core::api::{IndexReader, SearchResult};
use serde_json::{json, Value};

use vcore::ev::Reporter;
use vcore::inp::*;
use vcore::world::*;

use crate::c12::{canon, corpora, diff, expect, mk_world, replay_with, Flags, MDoc, QSpec};
use crate::Ctx;

pub const SIG_CURSOR: &str = "C13-aggs-exclude-docs-before-cursor";
pub const SIG_SCORE0: &str = "C13-top-hits-score-zero-when-request-sort-has-no-score";

/// Queries whose scoring can reject documents (the scoring hook is part of matching).
fn custom_queries() -> Vec<QSpec> {
  let fvf = json!([{"type": "field_value_factor", "field": "n", "factor": 1.0, "missing": 0.0}]);
  vec![
    QSpec { name: "function_score(match_all, n, min_score 2)", query: json!({"type": "function_score", "query": {"type": "match_all"}, "functions": fvf, "boost_mode": "replace", "min_score": 2.0}), filter: None, const_score: false },
    QSpec { name: "function_score(term a, n, min_score 2)", query: json!({"type": "function_score", "query": {"type": "term", "field": "body", "value": "a"}, "functions": fvf, "boost_mode": "replace", "min_score": 2.0}), filter: None, const_score: false },
    QSpec { name: "script_score(match_all, 1 / n)", query: json!({"type": "script_score", "query": {"type": "match_all"}, "script": "1 / n"}), filter: None, const_score: false },
  ]
}

fn queries() -> Vec<QSpec> {
  let mut v = plain_queries();
  v.extend(custom_queries());
  v
}

fn is_custom(q: &QSpec) -> bool {
  q.query.get("type").and_then(|t| t.as_str()).map(|t| t == "function_score" || t == "script_score").unwrap_or(false)
}

fn plain_queries() -> Vec<QSpec> {
  vec![
    QSpec { name: "match_all", query: json!({"type": "match_all"}), filter: None, const_score: true },
    QSpec { name: "a", query: json!("a"), filter: None, const_score: false },
    QSpec { name: "b", query: json!("b"), filter: None, const_score: false },
    QSpec { name: "a b", query: json!("a b"), filter: None, const_score: false },
    QSpec { name: "match_all+kw=y", query: json!({"type": "match_all"}), filter: Some(json!({"KeywordEq": {"field": "kw", "value": "y"}})), const_score: true },
    QSpec { name: "a+n in 1..3", query: json!("a"), filter: Some(json!({"I64Range": {"field": "n", "min": 1, "max": 3}})), const_score: false },
  ]
}

/// Aggregation trees without any option that C12 found to be applied per segment, so that the
/// C12 oracle can be used by the classifier.
fn agg_trees(with_top_hits: bool) -> Value {
  let mut v = json!({
    "t": {"type": "terms", "field": "kw"},
    "h": {"type": "histogram", "field": "f", "interval": 1.0, "min_doc_count": 1, "aggs": {"s": {"type": "stats", "field": "n"}}},
    "r": {"type": "range", "field": "f", "keyed": true, "ranges": [{"key": "low", "to": 0.75}, {"key": "mid", "from": 0.75, "to": 2.25}, {"key": "high", "from": 1.75}], "aggs": {"vc": {"type": "value_count", "field": "f"}}},
    "fl": {"type": "filter", "filter": {"KeywordEq": {"field": "kw", "value": "x"}}, "aggs": {"t2": {"type": "terms", "field": "kw2"}}},
    "m": {"type": "extended_stats", "field": "f"},
    "c": {"type": "composite", "size": 10, "sources": [{"type": "terms", "name": "k", "field": "kw"}], "aggs": {"card": {"type": "cardinality", "field": "kw2"}}},
    "th": {"type": "top_hits", "size": 2, "sort": [{"field": "n", "order": "asc"}]}
  });
  if !with_top_hits {
    v.as_object_mut().unwrap().remove("th");
  }
  v
}

fn suggesters() -> Value {
  json!({
    "sa": {"type": "completion", "field": "body", "prefix": "a", "size": 5},
    "sb": {"type": "completion", "field": "kw", "prefix": "x", "size": 1}
  })
}

fn sort_plans() -> Vec<Value> {
  vec![json!([]), json!([{"field": "n", "order": "asc"}]), json!([{"field": "kw", "order": "desc"}, {"field": "_score"}])]
}

const EXECS: [&str; 3] = ["bm25", "wand", "bmw"];

fn rescore_json() -> Value {
  json!({"window_size": 2, "query": {"type": "term", "field": "body", "value": "b"}, "score_mode": "total"})
}

#[derive(Clone, Debug)]
struct Variant {
  /// request kind: 0 = all 7 aggregation trees, 1 = the 6 trees without top_hits
  kind: usize,
  exec: usize,
  sort: usize,
  /// page size (limit)
  limit: usize,
  /// walk all pages (else only the first)
  walk: bool,
  return_hits: bool,
  explain: bool,
  profile: bool,
  rescore: bool,
}

impl Variant {
  fn to_json(&self, page: usize) -> Value {
    json!({"aggs_with_top_hits": self.kind == 0, "execution": EXECS[self.exec], "sort": sort_plans()[self.sort], "limit": self.limit, "page": page, "return_hits": self.return_hits, "explain": self.explain, "profile": self.profile, "rescore": self.rescore})
  }
  fn from_json(v: &Value) -> (Variant, usize) {
    let sp = sort_plans();
    (
      Variant {
        kind: if v["aggs_with_top_hits"].as_bool().unwrap_or(true) { 0 } else { 1 },
        exec: EXECS.iter().position(|e| Some(*e) == v["execution"].as_str()).unwrap_or(0),
        sort: sp.iter().position(|s| s == &v["sort"]).unwrap_or(0),
        limit: v["limit"].as_u64().unwrap_or(1) as usize,
        walk: true,
        return_hits: v["return_hits"].as_bool().unwrap_or(true),
        explain: v["explain"].as_bool().unwrap_or(false),
        profile: v["profile"].as_bool().unwrap_or(false),
        rescore: v["rescore"].as_bool().unwrap_or(false),
      },
      v["page"].as_u64().unwrap_or(1) as usize,
    )
  }
}

fn variants(n: usize) -> Vec<Variant> {
  let base = Variant { kind: 0, exec: 0, sort: 0, limit: n, walk: false, return_hits: true, explain: false, profile: false, rescore: false };
  let mut v = Vec::new();
  for exec in 0..3 {
    for sort in 0..3 {
      v.push(Variant { exec, sort, ..base.clone() });
      for p in 1..=3 {
        v.push(Variant { exec, sort, limit: p, walk: true, ..base.clone() });
      }
    }
  }
  v.push(Variant { return_hits: false, ..base.clone() });
  v.push(Variant { return_hits: false, limit: 1, ..base.clone() });
  v.push(Variant { explain: true, ..base.clone() });
  v.push(Variant { explain: true, limit: 2, walk: true, ..base.clone() });
  v.push(Variant { profile: true, ..base.clone() });
  v.push(Variant { profile: true, limit: 2, walk: true, exec: 1, ..base.clone() });
  v.push(Variant { rescore: true, ..base.clone() });
  v.push(Variant { rescore: true, limit: 2, walk: true, ..base.clone() });
  v.push(Variant { rescore: true, explain: true, profile: true, limit: 1, walk: true, exec: 2, sort: 2, ..base.clone() });
  v.push(Variant { return_hits: false, sort: 1, ..base.clone() });
  v.push(Variant { explain: true, sort: 1, ..base.clone() });
  // request kind 1 (no top_hits, so nothing but the sort plan consumes scores): a reduced set
  let b1 = Variant { kind: 1, ..base.clone() };
  for sort in 0..3 {
    for exec in 0..3 {
      v.push(Variant { exec, sort, ..b1.clone() });
    }
    v.push(Variant { sort, limit: 2, walk: true, ..b1.clone() });
    v.push(Variant { sort, return_hits: false, ..b1.clone() });
    v.push(Variant { sort, explain: true, ..b1.clone() });
  }
  v.push(Variant { sort: 1, profile: true, ..b1.clone() });
  v.push(Variant { sort: 1, rescore: true, ..b1.clone() });
  v
}

fn reference_variant(kind: usize, n: usize) -> Variant {
  Variant { kind, exec: 0, sort: 0, limit: n, walk: false, return_hits: true, explain: false, profile: false, rescore: false }
}

struct Parsed {
  tmpl: [SearchRequest; 2],
  sorts: Vec<Vec<SortSpec>>,
  execs: Vec<ExecutionStrategy>,
  rescore: RescoreRequest,
}

fn parse(q: &QSpec) -> Parsed {
  let mk = |with_top_hits: bool| {
    let mut r = q.request_json(1);
    r["aggs"] = agg_trees(with_top_hits);
    r["suggest"] = suggesters();
    req(r)
  };
  Parsed {
    tmpl: [mk(true), mk(false)],
    sorts: sort_plans().into_iter().map(|s| serde_json::from_value(s).expect("sort")).collect(),
    execs: EXECS.iter().map(|e| serde_json::from_value(json!(e)).expect("exec")).collect(),
    rescore: serde_json::from_value(rescore_json()).expect("rescore"),
  }
}

fn request(p: &Parsed, v: &Variant, cursor: Option<String>) -> SearchRequest {
  let mut r = p.tmpl[v.kind].clone();
  r.limit = v.limit;
  r.execution = p.execs[v.exec].clone();
  r.sort = p.sorts[v.sort].clone();
  r.return_hits = v.return_hits;
  r.explain = v.explain;
  r.profile = v.profile;
  r.rescore = if v.rescore { Some(p.rescore.clone()) } else { None };
  r.cursor = cursor;
  r
}

fn observable(res: &SearchResult) -> (Value, Value) {
  (serde_json::to_value(&res.aggregations).unwrap(), serde_json::to_value(&res.suggest).unwrap())
}

/// Pages of a variant: Ok(list of results) or Err(message) when a request fails.
fn run_variant(reader: &IndexReader, p: &Parsed, v: &Variant, n: usize) -> Result<Vec<SearchResult>, String> {
  let mut pages = Vec::new();
  let mut cursor: Option<String> = None;
  loop {
    let res = search_caught(reader, &request(p, v, cursor.clone()))?;
    let next = res.next_cursor.clone();
    pages.push(res);
    if !v.walk || next.is_none() || pages.len() > n + 2 {
      break;
    }
    cursor = next;
  }
  Ok(pages)
}

/// Defect models.  H12 (SIG_CURSOR): the page's aggregations are what the C12 oracle computes over
/// only the documents after the cursor position, i.e. over a proper suffix `order[j..]` of the
/// hit order of the same sort plan (j = number of hits on the earlier pages; with rescore, which
/// reorders the window after the cursor key was chosen, any j >= 1).
/// SIG_SCORE0: when the request's sort plan has no `_score` key the collectors are fed score 0,
/// so top_hits reports score 0 -- modelled by `zero_scores`.
fn explained_by_model(world: &World, kind: usize, page: &SearchResult, order: &SearchResult, from: usize, zero_scores: bool) -> bool {
  let mut docs: Vec<MDoc> = Vec::new();
  for h in order.hits.iter().skip(from) {
    let Some(pos) = world.docs.iter().position(|d| d["_id"].as_str() == Some(h.doc_id.as_str())) else { return false };
    docs.push(MDoc { pos, id: world.docs[pos]["_id"].as_str().unwrap(), doc: &world.docs[pos], score: if zero_scores { 0.0 } else { h.score } });
  }
  docs.sort_by_key(|d| d.pos);
  let aggs = agg_trees(kind == 0);
  for (name, agg) in aggs.as_object().unwrap() {
    let Some(obs) = page.aggregations.get(name) else { return false };
    let Ok(c) = canon(agg, &serde_json::to_value(obs).unwrap(), false) else { return false };
    let Ok(e) = expect(agg, &docs, Flags::default()) else { return false };
    if diff(&c, &e, "").is_some() {
      return false;
    }
  }
  true
}

struct Out {
  fails: Vec<(Option<&'static str>, String, Value)>,
  more: Vec<(Option<&'static str>, u64)>,
  evals: u64,
  worlds: u64,
  cases: u64,
  custom_cases: u64,
  nontrivial: u64,
  variant_errors: BTreeMap<String, u64>,
  outcomes: BTreeSet<String>,
}

impl Out {
  fn fail(&mut self, sig: Option<&'static str>, what: impl FnOnce() -> String, case: impl FnOnce() -> Value) {
    if self.fails.iter().filter(|f| f.0 == sig).count() < 2 {
      self.fails.push((sig, what(), case()));
    } else {
      match self.more.iter_mut().find(|m| m.0 == sig) {
        Some(m) => m.1 += 1,
        None => self.more.push((sig, 1)),
      }
    }
  }
}

/// Reference material of one (world, query): per request kind the reference result and the hit
/// order (with scores) of every sort plan (limit-n bm25 variant without flags).
struct Refs {
  res: Vec<SearchResult>,
  obs: Vec<(Value, Value)>,
  orders: Vec<Vec<SearchResult>>,
}

fn references(reader: &IndexReader, p: &Parsed, n: usize) -> Result<Refs, String> {
  let mut r = Refs { res: vec![], obs: vec![], orders: vec![] };
  for kind in 0..2 {
    let base = reference_variant(kind, n);
    let mut pages = run_variant(reader, p, &base, n)?;
    let first = pages.remove(0);
    r.obs.push(observable(&first));
    let mut ord = Vec::new();
    for s in 0..3 {
      match run_variant(reader, p, &Variant { sort: s, ..base.clone() }, n) {
        Ok(mut pg) => ord.push(pg.remove(0)),
        Err(_) => ord.push(first.clone()),
      }
    }
    r.orders.push(ord);
    r.res.push(first);
  }
  Ok(r)
}

fn id_set(r: &SearchResult) -> BTreeSet<&str> {
  r.hits.iter().map(|h| h.doc_id.as_str()).collect()
}

/// Compare every page of one variant with the reference of its request kind; returns per-page
/// verdicts (page index, signature, difference).
fn judge_variant(world: &World, v: &Variant, pages: &[SearchResult], refs: &Refs) -> Vec<(usize, Option<&'static str>, String)> {
  let reference = &refs.obs[v.kind];
  let order = &refs.orders[v.kind][v.sort];
  // the defect models only apply when this sort plan sees the very documents the reference sees
  let same_docs = id_set(order) == id_set(&refs.res[v.kind]);
  let sort_has_score = v.sort == 0 || sort_plans()[v.sort].as_array().map(|a| a.iter().any(|x| x["field"] == "_score")).unwrap_or(true);
  let mut out = Vec::new();
  for (k, pg) in pages.iter().enumerate() {
    let (a, s) = observable(pg);
    let d_aggs = diff(&a, &reference.0, "aggregations").or_else(|| diff(&reference.0, &a, "aggregations"));
    let d_sug = diff(&s, &reference.1, "suggest").or_else(|| diff(&reference.1, &s, "suggest"));
    match (d_aggs, d_sug) {
      (None, None) => {}
      (Some(d), None) => {
        let sig = if !same_docs {
          None
        } else if k > 0 {
          // a cursor is present: aggregations cover only the documents after the cursor position
          let before: usize = pages[..k].iter().map(|p| p.hits.len()).sum();
          let cands: Vec<usize> = if v.rescore { (1..order.hits.len()).collect() } else { vec![before] };
          if cands.into_iter().any(|j| explained_by_model(world, v.kind, pg, order, j, false) || (!sort_has_score && explained_by_model(world, v.kind, pg, order, j, true))) { Some(SIG_CURSOR) } else { None }
        } else if !sort_has_score && explained_by_model(world, v.kind, pg, order, 0, true) {
          Some(SIG_SCORE0)
        } else {
          None
        };
        out.push((k, sig, d));
      }
      (_, Some(d)) => out.push((k, None, d)),
    }
  }
  out
}

fn check_corpus(shape_idx: &[usize], layouts: &[Vec<usize>], deleted: &[String], qs: &[QSpec], parsed: &[Parsed]) -> Out {
  let mut out = Out { fails: vec![], more: vec![], evals: 0, worlds: 0, cases: 0, custom_cases: 0, nontrivial: 0, variant_errors: BTreeMap::new(), outcomes: BTreeSet::new() };
  let n = shape_idx.len();
  let vars = variants(n);
  let custom: Vec<bool> = qs.iter().map(is_custom).collect();
  for layout in layouts {
    let world = mk_world(shape_idx, layout, deleted);
    let idx = world.build();
    let reader = idx.reader().expect("reader");
    out.worlds += 1;
    for (qi, q) in qs.iter().enumerate() {
      let p = &parsed[qi];
      // cheap pre-check with the reference of kind 0 before the other reference requests are made
      let first = match run_variant(&reader, p, &reference_variant(0, n), n) {
        Ok(r) => r,
        Err(e) => {
          out.fail(None, || format!("{} query={}: reference request failed: {e}", world.describe(), q.name), || json!({"world": world.to_json(), "query": q.to_json(), "variant": reference_variant(0, n).to_json(1)}));
          continue;
        }
      };
      let matches = first[0].hits.len();
      let live = world.docs.len() - world.deleted.len();
      // plain queries: >= 4 matches (meaningful walks); custom scoring: some but not all documents
      let wanted = if custom[qi] { matches >= 2 && matches < live } else { matches >= 4 };
      if !wanted || first[0].next_cursor.is_some() {
        continue;
      }
      let refs = match references(&reader, p, n) {
        Ok(r) => r,
        Err(e) => {
          out.fail(None, || format!("{} query={}: reference request failed: {e}", world.describe(), q.name), || json!({"world": world.to_json(), "query": q.to_json(), "variant": reference_variant(1, n).to_json(1)}));
          continue;
        }
      };
      out.cases += 1;
      if custom[qi] {
        out.custom_cases += 1;
      }
      for v in &vars {
        let pages = match run_variant(&reader, p, v, n) {
          Ok(pg) => pg,
          Err(e) => {
            let key = format!("{} [rescore={} explain={} sort_plan={} custom_scoring={}]", e.chars().take(80).collect::<String>(), v.rescore, v.explain, v.sort, custom[qi]);
            *out.variant_errors.entry(key).or_default() += 1;
            if e.starts_with("PANIC") {
              out.fail(None, || format!("docs={} layout={:?} query={} variant={}: {e}", json!(world.docs), layout, q.name, v.to_json(1)), || json!({"engine": "inputmc-aggs-paging", "world": world.to_json(), "query": q.to_json(), "variant": v.to_json(1)}));
            }
            continue;
          }
        };
        out.evals += pages.len() as u64;
        if pages.len() >= 2 {
          out.nontrivial += 1;
        }
        let bad = judge_variant(&world, v, &pages, &refs);
        if bad.is_empty() {
          out.outcomes.insert(format!("same/{}pages", pages.len()));
        }
        for (k, sig, d) in bad {
          out.outcomes.insert(format!("differs:{}", sig.unwrap_or("unexplained")));
          out.fail(
            sig,
            || {
              let before: Vec<&str> = pages[..k].iter().flat_map(|pg| pg.hits.iter().map(|h| h.doc_id.as_str())).collect();
              format!("docs={} layout={:?} deleted={:?} query={} ({} matches) variant={} (documents on earlier pages: {:?}): differs from the reference (same aggregations, first page, limit {}, bm25, default sort) at {}", json!(world.docs), layout, deleted, q.name, matches, v.to_json(k + 1), before, n, d)
            },
            || json!({"engine": "inputmc-aggs-paging", "world": world.to_json(), "query": q.to_json(), "variant": v.to_json(k + 1)}),
          );
        }
      }
    }
  }
  out
}

fn replay_once(cs: &Value) -> Option<String> {
  let world = World::from_json(&cs["world"]);
  let q = QSpec::from_json(&cs["query"]);
  let (v, page) = Variant::from_json(&cs["variant"]);
  let p = parse(&q);
  let n = world.docs.len();
  let idx = world.build();
  let reader = idx.reader().expect("reader");
  let refs = match references(&reader, &p, n) {
    Ok(r) => r,
    Err(e) => return Some(format!("reference request failed: {e}")),
  };
  let pages = match run_variant(&reader, &p, &v, n) {
    Ok(pg) => pg,
    Err(e) => return if e.starts_with("PANIC") { Some(e) } else { None },
  };
  judge_variant(&world, &v, &pages, &refs).into_iter().find(|(k, _, _)| k + 1 == page).map(|(k, sig, d)| format!("page {} [{}]: {d}", k + 1, sig.unwrap_or("unexplained")))
}

pub fn run(ctx: &Ctx) -> i32 {
  let mut rep = Reporter::new("C13", ctx.tier, "exploration");
  let quick = ctx.tier.is_quick();
  if let Some(path) = &ctx.replay {
    rep.set_replaying(true);
    return replay_with("C13", path, &replay_once);
  }
  let qs = queries();
  let parsed: Vec<Parsed> = qs.iter().map(parse).collect();
  // (corpus, layouts, deleted)
  let mut plan: Vec<(Vec<usize>, Vec<Vec<usize>>, Vec<String>)> = Vec::new();
  let few4 = vec![vec![4], vec![2, 2], vec![1, 3], vec![1, 1, 1, 1]];
  let quick4 = vec![vec![4], vec![2, 2], vec![1, 1, 1, 1]];
  let few5 = vec![vec![5], vec![2, 3], vec![4, 1], vec![1, 1, 1, 1, 1]];
  let plan_text = if quick {
    for c in multisets(8, 4) {
      plan.push((c, quick4.clone(), vec![]));
    }
    for c in multisets(4, 5) {
      plan.push((c, vec![vec![2, 3]], vec![id_of(1)]));
    }
    "every multiset of 4 of 8 shapes x layouts {[4],[2,2],[1,1,1,1]}; every multiset of 5 of 4 shapes, layout [2,3], document B deleted"
  } else {
    for c in corpora(6, 4, 4) {
      plan.push((c, compositions(4), vec![]));
    }
    for c in multisets(10, 4) {
      plan.push((c, few4.clone(), vec![]));
    }
    for c in multisets(8, 5) {
      plan.push((c.clone(), few5.clone(), vec![]));
      plan.push((c, vec![vec![2, 3], vec![5]], vec![id_of(1)]));
    }
    "every sequence of 4 of 6 shapes x all 8 layouts; every multiset of 4 of 10 shapes x 4 layouts; every multiset of 5 of 8 shapes x 4 layouts and x 2 layouts with document B deleted"
  };
  let deadline = if quick { 27.0 } else { 840.0 };
  let (mut evals, mut worlds, mut cases, mut nontrivial, mut done) = (0u64, 0u64, 0u64, 0u64, 0usize);
  let mut custom_cases = 0u64;
  let mut outcomes: BTreeSet<String> = BTreeSet::new();
  let mut verrs: BTreeMap<String, u64> = BTreeMap::new();
  let mut by_sig: BTreeMap<String, u64> = BTreeMap::new();
  let mut timed_out = false;
  for chunk in plan.chunks(if quick { 32 } else { 64 }) {
    if rep.elapsed_s() > deadline {
      timed_out = true;
      break;
    }
    let outs: Vec<Out> = chunk.par_iter().map(|(c, l, d)| check_corpus(c, l, d, &qs, &parsed)).collect();
    done += chunk.len();
    for o in outs {
      // further cases of a class repeat the class's stored witness (a replay file must be usable)
      let first: Vec<(Option<&'static str>, String, Value)> = o.more.iter().filter_map(|(sig, _)| o.fails.iter().find(|f| f.0 == *sig).cloned()).collect();
      for (sig, what, case) in o.fails {
        *by_sig.entry(sig.unwrap_or("unexplained").to_string()).or_default() += 1;
        rep.fail(sig, &what, case);
      }
      for (sig, k) in o.more {
        *by_sig.entry(sig.unwrap_or("unexplained").to_string()).or_default() += k;
        let w = first.iter().find(|x| x.0 == sig);
        for _ in 0..k {
          match w {
            Some(w) if rep.violations() < 6 => rep.fail(sig, &w.1, w.2.clone()),
            _ => rep.fail(sig, "(further case of the same class in the same corpus)", json!({})),
          }
        }
      }
      evals += o.evals;
      worlds += o.worlds;
      cases += o.cases;
      custom_cases += o.custom_cases;
      nontrivial += o.nontrivial;
      outcomes.extend(o.outcomes);
      for (k, v) in o.variant_errors {
        *verrs.entry(k).or_default() += v;
      }
    }
  }
  rep.add_evals(evals);
  rep.sample(json!({"queries": qs.iter().map(|q| q.to_json()).collect::<Vec<_>>(), "aggs": agg_trees(true), "suggest": suggesters(), "variants_per_case": variants(4).len(), "sort_plans": sort_plans(), "rescore": rescore_json()}));
  if outcomes.len() < 2 {
    vcore::ev::machinery_failure("C13: fewer than two distinct outcomes observed");
  }
  let cov = vcore::cov! {
    "distinct_nontrivial" => nontrivial,
    "rule" => "case = (world, query): plain queries with >= 4 matches, custom-scoring queries (function_score + min_score, script_score dividing by a field) that reject some but not all live documents; two request kinds (7 aggregation trees incl. top_hits / the 6 trees without top_hits, reduced variant set) each with its own reference; each case is evaluated under every variant (3 executions x 3 sort plans x {limit n, cursor walks with page size 1,2,3}, return_hits off, explain / profile / rescore on, alone and combined with walks); an evaluation is one page of one variant; non-trivial = a variant whose walk has at least 2 pages. Oracle: aggregations (7 trees) and suggest (2 suggesters) of every page equal those of the reference variant (floats 1e-9, scores 1e-5).",
    "corpora_x_layout_sets" => done,
    "planned" => plan.len(),
    "plan" => plan_text,
    "worlds" => worlds,
    "cases_world_x_query" => cases,
    "cases_with_custom_scoring_rejecting_some_documents" => custom_cases,
    "variant_requests_rejected" => verrs,
    "failure_classes" => by_sig,
    "distinct_observed_outcomes" => outcomes.len(),
    "cap_hit" => if timed_out { Some(format!("wall budget {deadline}s")) } else { None },
    "exhaustive" => !timed_out,
  };
  rep.finish(cov, vec![
    "both suggesters travel in every request (one request = 7 aggregation trees + 2 suggesters) instead of multiplying the variants by the suggest requests".into(),
    "a variant whose request is rejected with an error (not a panic) is counted in variant_requests_rejected and not judged".into(),
    "the aggregation trees avoid the options that C12 shows to be applied per segment, so that the C12 oracle can serve the classifier".into(),
    "classifiers only apply when the hit list of the variant's sort plan holds exactly the documents of the reference hit list".into(),
  ])
}
