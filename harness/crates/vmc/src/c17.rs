//! C17 — corrupted index files are detected.
//! Engine: corruptmc — small indexes built on InMemoryStorage; for every file, every byte offset x
//! xor masks {0x01, 0x80, 0xFF} and every truncation length, a fresh InMemoryStorage is populated
//! with the (one-file-mutated) file set and opened. Oracle: open / reader() / every probe search
//! returns Err somewhere, or all probe results are identical to the unmutated baseline; never a
//! panic. For wal.log: Wal::last_pending_ops of the mutant is a prefix of the baseline list and a
//! new writer + commit yields exactly the contents of some intact prefix of the pending log.
//! Second mode, "damage under a live handle": the intact image is opened, reader() + probes must
//! equal the baseline, THEN the mutated bytes are written into the same storage and reader() is
//! called again on the SAME Index handle: Err or identical results, never a panic.
//! All mutants are evaluated in worker subprocesses (this binary re-invoked with
//! `--replay <batch file>`), so that an abort (failed giant allocation, stack overflow) or a hang
//! caused by parsing damaged bytes is attributed to the exact mutant instead of killing the check.

use std::collections::{BTreeMap, BTreeSet};
use std::io::{BufRead, BufReader, Write};
use std::path::{Path, PathBuf};
use std::process::{Command, Stdio};
use std::sync::atomic::{AtomicBool, AtomicUsize, Ordering};
use std::sync::mpsc;
use std::sync::Arc;
use std::time::{Duration, Instant};

use parking_lot::Mutex;
use serde_json::{json, Value};

use searchlite_core::api::types::StorageType;
use searchlite_core::api::Index;
use searchlite_core::wal::Wal;
use searchlite_core::storage::{InMemoryStorage, Storage};

use vcore::ev::Reporter;
use vcore::inp::approx;
use vcore::world::*;

use crate::Ctx;

// ---------------------------------------------------------------------------------------------
// Worlds

fn schema_flat() -> Value {
  vcore::inp::schema_text_kw_num()
}

fn schema_nested() -> Value {
  json!({"doc_id_field": "_id",
    "text_fields": [{"name": "body", "analyzer": "default", "stored": true, "indexed": true}],
    "keyword_fields": [{"name": "kw", "stored": true, "indexed": true, "fast": true}],
    "numeric_fields": [{"name": "n", "i64": true, "fast": true, "stored": true},
                       {"name": "f", "i64": false, "fast": true, "stored": true}],
    "nested_fields": [
      {"name": "c", "fields": [
        {"type": "keyword", "name": "a", "stored": true, "indexed": true, "fast": true},
        {"type": "numeric", "name": "v", "i64": true, "fast": true, "stored": true, "nullable": true},
        {"type": "object", "name": "r", "nullable": true, "fields": [
          {"type": "keyword", "name": "t", "stored": true, "indexed": true, "fast": true}]}]}]})
}

/// world JSON: {name, schema_json, commits: [[doc..]..], deleted: [id..], pending: [{"add": doc} | {"delete": id}], probes: [request..]}
/// One probe per dictionary entry: damage that makes a single term (or keyword value) disappear
/// while everything else still answers must be visible to some probe.
fn dictionary_probes(world: &Value) -> Vec<Value> {
  let mut tokens: std::collections::BTreeSet<String> = Default::default();
  let mut kws: std::collections::BTreeSet<String> = Default::default();
  for commit in world["commits"].as_array().into_iter().flatten() {
    for d in commit.as_array().into_iter().flatten() {
      for t in d["body"].as_str().unwrap_or("").split_whitespace() {
        tokens.insert(t.to_string());
      }
      match &d["kw"] {
        Value::String(k) => {
          kws.insert(k.clone());
        }
        Value::Array(a) => {
          for k in a {
            if let Some(k) = k.as_str() {
              kws.insert(k.to_string());
            }
          }
        }
        _ => {}
      }
    }
  }
  let mut out = Vec::new();
  for t in tokens {
    out.push(json!({"query": {"type": "term", "field": "body", "value": t}, "limit": 100, "return_stored": false}));
  }
  for k in kws {
    out.push(json!({"query": {"type": "term", "field": "kw", "value": k}, "limit": 100, "return_stored": false}));
  }
  out.push(json!({"query": {"type": "prefix", "field": "body", "value": ""}, "limit": 100, "return_stored": false}));
  out.push(json!({"query": {"type": "match_all"}, "limit": 1, "return_stored": false, "suggest": {"s": {"type": "completion", "field": "body", "prefix": "", "size": 50}}}));
  out
}

fn worlds(quick: bool) -> Vec<Value> {
  let mut ws = worlds_base(quick);
  for w in ws.iter_mut() {
    let extra = dictionary_probes(w);
    if let Some(p) = w["probes"].as_array_mut() {
      p.extend(extra);
    }
  }
  ws
}

fn worlds_base(quick: bool) -> Vec<Value> {
  let flat_probes = json!([
    {"query": {"type": "match_all"}, "limit": 100, "return_stored": true},
    {"query": "a", "limit": 100, "return_stored": false},
    {"query": {"type": "match_all"}, "limit": 100, "filter": {"KeywordEq": {"field": "kw", "value": "x"}}, "sort": [{"field": "n", "order": "asc"}],
     "aggs": {"k": {"type": "terms", "field": "kw"}, "s": {"type": "stats", "field": "n"}}}
  ]);
  let w1 = json!({"name": "1 segment, 2 docs, 2 pending WAL ops", "schema_json": schema_flat(),
    "commits": [[{"_id": "A", "body": "a b", "kw": "x", "n": 1, "f": 0.5}, {"_id": "B", "body": "a", "kw": "y", "n": 2, "f": 1.5}]],
    "deleted": [], "pending": [{"add": {"_id": "C", "body": "a c", "kw": "x", "n": 3}}, {"delete": "A"}], "probes": flat_probes});
  let w2 = json!({"name": "2 segments + tombstone + 3 pending WAL ops", "schema_json": schema_flat(),
    "commits": [[{"_id": "A", "body": "a b", "kw": "x", "n": 1, "f": 0.5}, {"_id": "B", "body": "a", "kw": "y", "n": 2, "f": 1.5}],
                [{"_id": "C", "body": "b c a", "kw": ["x", "y"], "n": [1, 2], "f": [0.5, 2.5]}, {"_id": "D", "body": "c", "kw": "x", "n": 4}]],
    "deleted": ["B"], "pending": [{"add": {"_id": "E", "body": "a e", "kw": "y", "n": 5}}, {"delete": "C"}, {"add": {"_id": "A", "body": "z", "kw": "x", "n": 9}}], "probes": flat_probes});
  if quick {
    return vec![w1, w2];
  }
  let w3 = json!({"name": "nested + multi-valued fast fields, 1 segment, 1 pending WAL op", "schema_json": schema_nested(),
    "commits": [[{"_id": "A", "body": "a b", "kw": ["x", "y"], "n": [1, 2], "f": [0.5, 2.5], "c": [{"a": "p", "v": 1, "r": [{"t": "u"}, {"t": "w"}]}, {"a": "q", "r": {"t": "w"}}]},
                 {"_id": "B", "body": "a", "kw": "x", "n": 3, "c": {"a": "q", "v": 7}},
                 {"_id": "C", "body": "b", "kw": "y", "f": 1.5}]],
    "deleted": [], "pending": [{"add": {"_id": "D", "body": "a d", "c": [{"a": "p"}]}}],
    "probes": [
      {"query": {"type": "match_all"}, "limit": 100, "return_stored": true},
      {"query": "a", "limit": 100, "return_stored": false},
      {"query": {"type": "match_all"}, "limit": 100, "filter": {"Nested": {"path": "c", "filter": {"KeywordEq": {"field": "a", "value": "q"}}}}, "sort": [{"field": "n", "order": "desc"}],
       "aggs": {"k": {"type": "terms", "field": "kw"}, "s": {"type": "stats", "field": "f"}}}
    ]});
  let w4 = json!({"name": "3 segments with upserts (tombstones from re-added ids), empty WAL", "schema_json": schema_flat(),
    "commits": [[{"_id": "A", "body": "a b", "kw": "x", "n": 1, "f": 0.5}, {"_id": "B", "body": "a", "kw": "y", "n": 2}],
                [{"_id": "A", "body": "a a c", "kw": "y", "n": 11}, {"_id": "C", "body": "c", "kw": "x", "n": 3}],
                [{"_id": "B", "body": "b a", "kw": "x", "n": 12, "f": 3.5}]],
    "deleted": [], "pending": [], "probes": flat_probes});
  vec![w1, w2, w3, w4]
}

/// The byte image of an index: virtual root + (relative label, absolute path, bytes).
#[derive(Clone)]
struct Image {
  root: PathBuf,
  files: Vec<(String, PathBuf, Vec<u8>)>,
  /// wal.log length after each pending op (record boundaries), starting with 0
  wal_boundaries: Vec<usize>,
}

fn hex(b: &[u8]) -> String {
  let mut s = String::with_capacity(b.len() * 2);
  for x in b {
    s.push_str(&format!("{x:02x}"));
  }
  s
}

fn unhex(s: &str) -> Vec<u8> {
  (0..s.len() / 2).map(|i| u8::from_str_radix(&s[2 * i..2 * i + 2], 16).unwrap()).collect()
}

impl Image {
  fn to_json(&self) -> Value {
    json!({"root": self.root.to_string_lossy(), "wal_boundaries": self.wal_boundaries,
      "files": self.files.iter().map(|(l, p, b)| json!({"label": l, "path": p.to_string_lossy(), "hex": hex(b)})).collect::<Vec<_>>()})
  }
  fn from_json(v: &Value) -> Image {
    Image {
      root: PathBuf::from(v["root"].as_str().unwrap()),
      wal_boundaries: v["wal_boundaries"].as_array().unwrap().iter().map(|x| x.as_u64().unwrap() as usize).collect(),
      files: v["files"].as_array().unwrap().iter().map(|f| (f["label"].as_str().unwrap().to_string(), PathBuf::from(f["path"].as_str().unwrap()), unhex(f["hex"].as_str().unwrap()))).collect(),
    }
  }
  fn storage_with(&self, file_idx: Option<usize>, replacement: &[u8]) -> Arc<InMemoryStorage> {
    let st = Arc::new(InMemoryStorage::new(self.root.clone()));
    for (i, (_, p, b)) in self.files.iter().enumerate() {
      let data: &[u8] = if Some(i) == file_idx { replacement } else { b };
      st.write_all(p, data).expect("populate storage");
    }
    st
  }
}

fn build_image(w: &Value) -> Image {
  let sch = schema(w["schema_json"].clone());
  let (idx, storage, root) = mem_index_opts(&sch, true);
  for commit in w["commits"].as_array().unwrap() {
    let mut wr = idx.writer().expect("writer");
    for d in commit.as_array().unwrap() {
      wr.add_document(&doc(d)).expect("add");
    }
    wr.commit().expect("commit");
  }
  let del: Vec<&str> = w["deleted"].as_array().unwrap().iter().map(|x| x.as_str().unwrap()).collect();
  if !del.is_empty() {
    delete_commit(&idx, &del);
  }
  let wal_path = root.join("wal.log");
  let mut wal_boundaries = vec![0usize];
  {
    let mut wr = idx.writer().expect("writer");
    for op in w["pending"].as_array().unwrap() {
      if let Some(d) = op.get("add") {
        wr.add_document(&doc(d)).expect("pending add");
      } else {
        wr.delete_document(op["delete"].as_str().unwrap()).expect("pending delete");
      }
      wal_boundaries.push(storage.read_to_end(&wal_path).expect("wal").len());
    }
  }
  let manifest = idx.manifest();
  let mut files: Vec<(String, PathBuf)> = vec![("MANIFEST.json".into(), root.join("MANIFEST.json")), ("wal.log".into(), wal_path)];
  for (i, seg) in manifest.segments.iter().enumerate() {
    for (kind, p) in [("meta", &seg.paths.meta), ("terms", &seg.paths.terms), ("post", &seg.paths.postings), ("docs", &seg.paths.docstore), ("fast", &seg.paths.fast)] {
      files.push((format!("seg{i}.{kind}"), PathBuf::from(p)));
    }
  }
  let files = files
    .into_iter()
    .map(|(l, p)| {
      let b = storage.read_to_end(&p).unwrap_or_else(|e| vcore::ev::machinery_failure(&format!("C17: cannot read {p:?}: {e:#}")));
      (l, p, b)
    })
    .collect();
  Image { root, files, wal_boundaries }
}

// ---------------------------------------------------------------------------------------------
// Observation

fn open_image(root: &Path, st: Arc<InMemoryStorage>) -> anyhow::Result<Index> {
  Index::open_with_storage(opts(root, StorageType::InMemory), st as Arc<dyn Storage>)
}

/// Normalized result of one probe.
fn normalize(res: &searchlite_core::api::SearchResult) -> Value {
  json!({
    "total": res.total_hits_estimate,
    "hits": res.hits.iter().map(|h| json!({"id": h.doc_id, "score": h.score, "fields": h.fields, "snippet": h.snippet})).collect::<Vec<_>>(),
    "next_cursor": res.next_cursor.is_some(),
    "aggs": serde_json::to_value(&res.aggregations).unwrap_or(Value::Null),
    "suggest": serde_json::to_value(&res.suggest).unwrap_or(Value::Null),
  })
}

fn same_probe(a: &Value, b: &Value) -> bool {
  if a["total"] != b["total"] || a["next_cursor"] != b["next_cursor"] || a["aggs"] != b["aggs"] || a["suggest"] != b["suggest"] {
    return false;
  }
  let (ha, hb) = (a["hits"].as_array().unwrap(), b["hits"].as_array().unwrap());
  ha.len() == hb.len()
    && ha.iter().zip(hb).all(|(x, y)| {
      x["id"] == y["id"] && x["fields"] == y["fields"] && x["snippet"] == y["snippet"] && approx(x["score"].as_f64().unwrap_or(f64::NAN) as f32, y["score"].as_f64().unwrap_or(f64::NAN) as f32, 1e-5)
    })
}

#[derive(Debug, Clone)]
enum Seen {
  /// Err at the named stage: the corruption was detected
  Detected(String),
  Panic(String),
  Results(Vec<Value>),
}

fn observe(img: &Image, st: Arc<InMemoryStorage>, probes: &[Value]) -> Seen {
  let root = img.root.clone();
  let r = vcore::catch(move || -> Result<Vec<Value>, String> {
    let idx = open_image(&root, st).map_err(|e| format!("open: {e:#}"))?;
    let reader = idx.reader().map_err(|e| format!("reader: {e:#}"))?;
    let mut out = Vec::new();
    for (i, p) in probes.iter().enumerate() {
      let res = reader.search(&req(p.clone())).map_err(|e| format!("search probe {i}: {e:#}"))?;
      out.push(normalize(&res));
    }
    Ok(out)
  });
  match r {
    Err(p) => Seen::Panic(p),
    Ok(Err(e)) => Seen::Detected(e),
    Ok(Ok(v)) => Seen::Results(v),
  }
}

/// Damage under a live handle: open the intact image, read it once (must equal the baseline), write
/// the damaged bytes into the same storage, then open another reader from the SAME handle.
fn observe_live(img: &Image, base_results: &[Value], file_idx: usize, bytes: &[u8], probes: &[Value]) -> Result<Seen, String> {
  let st = img.storage_with(None, &[]);
  let root = img.root.clone();
  let path = img.files[file_idx].1.clone();
  let r = vcore::catch(move || -> Result<Result<Vec<Value>, String>, String> {
    let idx = open_image(&root, st.clone()).map_err(|e| format!("MACHINERY open of the intact image: {e:#}"))?;
    {
      let reader = idx.reader().map_err(|e| format!("MACHINERY reader of the intact image: {e:#}"))?;
      for (i, p) in probes.iter().enumerate() {
        let res = reader.search(&req(p.clone())).map_err(|e| format!("MACHINERY probe {i} on the intact image: {e:#}"))?;
        if !same_probe(&normalize(&res), &base_results[i]) {
          return Err(format!("MACHINERY probe {i} on the intact image differs from the baseline"));
        }
      }
    }
    st.write_all(&path, bytes).map_err(|e| format!("MACHINERY write_all: {e:#}"))?;
    let second = || -> Result<Vec<Value>, String> {
      let reader = idx.reader().map_err(|e| format!("reader: {e:#}"))?;
      let mut out = Vec::new();
      for (i, p) in probes.iter().enumerate() {
        let res = reader.search(&req(p.clone())).map_err(|e| format!("search probe {i}: {e:#}"))?;
        out.push(normalize(&res));
      }
      Ok(out)
    };
    Ok(second())
  });
  match r {
    Err(p) => Ok(Seen::Panic(p)),
    Ok(Err(m)) => Err(m),
    Ok(Ok(Err(e))) => Ok(Seen::Detected(e)),
    Ok(Ok(Ok(v))) => Ok(Seen::Results(v)),
  }
}

fn pending_strings(st: &InMemoryStorage, root: &Path) -> Result<Result<Vec<String>, String>, String> {
  vcore::catch(|| Wal::last_pending_ops(st, &root.join("wal.log")).map(|v| v.iter().map(|e| format!("{e:?}")).collect::<Vec<_>>()).map_err(|e| format!("{e:#}")))
}

/// writer() (replays the log) + commit + committed contents.
fn recover_contents(img: &Image, st: Arc<InMemoryStorage>) -> Result<Result<BTreeMap<String, Value>, String>, String> {
  let root = img.root.clone();
  vcore::catch(move || -> Result<BTreeMap<String, Value>, String> {
    let idx = open_image(&root, st).map_err(|e| format!("open: {e:#}"))?;
    let mut w = idx.writer().map_err(|e| format!("writer: {e:#}"))?;
    w.commit().map_err(|e| format!("commit: {e:#}"))?;
    contents(&idx).map_err(|e| format!("contents: {e:#}"))
  })
}

struct Baseline {
  results: Vec<Value>,
  pending: Vec<String>,
  /// committed contents after recovering exactly the first k pending ops, k = 0..=len
  prefix_contents: Vec<BTreeMap<String, Value>>,
  manifest: Value,
}

fn baseline(img: &Image, probes: &[Value]) -> Result<Baseline, String> {
  let results = match observe(img, img.storage_with(None, &[]), probes) {
    Seen::Results(v) => v,
    other => return Err(format!("baseline image does not open/search cleanly: {other:?}")),
  };
  let st = img.storage_with(None, &[]);
  let pending = pending_strings(&st, &img.root).map_err(|p| format!("baseline wal panic {p}"))??;
  if pending.len() + 1 != img.wal_boundaries.len() {
    return Err(format!("baseline WAL has {} pending ops, expected {}", pending.len(), img.wal_boundaries.len() - 1));
  }
  let wal_idx = img.files.iter().position(|f| f.0 == "wal.log").unwrap();
  let wal = img.files[wal_idx].2.clone();
  let mut prefix_contents = Vec::new();
  for &b in &img.wal_boundaries {
    let st = img.storage_with(Some(wal_idx), &wal[..b]);
    prefix_contents.push(recover_contents(img, st).map_err(|p| format!("baseline recovery panic {p}"))??);
  }
  let manifest: Value = serde_json::from_slice(&img.files[0].2).map_err(|e| format!("baseline manifest: {e}"))?;
  Ok(Baseline { results, pending, prefix_contents, manifest })
}

// ---------------------------------------------------------------------------------------------
// Mutations

#[derive(Clone, Debug)]
enum Mutation {
  Xor { file: usize, offset: usize, mask: u8 },
  Truncate { file: usize, len: usize },
}

impl Mutation {
  fn file(&self) -> usize {
    match self {
      Mutation::Xor { file, .. } | Mutation::Truncate { file, .. } => *file,
    }
  }
  fn apply(&self, img: &Image) -> Vec<u8> {
    let mut b = img.files[self.file()].2.clone();
    match self {
      Mutation::Xor { offset, mask, .. } => b[*offset] ^= mask,
      Mutation::Truncate { len, .. } => b.truncate(*len),
    }
    b
  }
  fn to_json(&self, img: &Image) -> Value {
    let label = &img.files[self.file()].0;
    match self {
      Mutation::Xor { offset, mask, .. } => json!({"file": label, "xor": {"offset": offset, "mask": mask}}),
      Mutation::Truncate { len, .. } => json!({"file": label, "truncate_to": len}),
    }
  }
  fn from_json(img: &Image, v: &Value) -> Mutation {
    let file = img.files.iter().position(|f| json!(f.0) == v["file"]).expect("file label");
    if let Some(x) = v.get("xor") {
      Mutation::Xor { file, offset: x["offset"].as_u64().unwrap() as usize, mask: x["mask"].as_u64().unwrap() as u8 }
    } else {
      Mutation::Truncate { file, len: v["truncate_to"].as_u64().unwrap() as usize }
    }
  }
}

fn masks(quick: bool) -> Vec<u8> {
  if quick {
    vec![0x01, 0x80, 0xFF]
  } else {
    vec![0x01, 0x02, 0x04, 0x08, 0x10, 0x20, 0x40, 0x80, 0xFF]
  }
}

fn all_mutations(img: &Image, quick: bool) -> Vec<Mutation> {
  let mut out = Vec::new();
  for (fi, (_, _, b)) in img.files.iter().enumerate() {
    for offset in 0..b.len() {
      for mask in masks(quick) {
        out.push(Mutation::Xor { file: fi, offset, mask });
      }
    }
    for len in 0..b.len() {
      out.push(Mutation::Truncate { file: fi, len });
    }
  }
  out
}

/// First differing location between two JSON values, array indices written as [].
fn json_diff_path(a: &Value, b: &Value, path: &str) -> Option<String> {
  match (a, b) {
    (Value::Object(x), Value::Object(y)) => {
      for (k, va) in x {
        let p = if path.is_empty() { k.clone() } else { format!("{path}.{k}") };
        match y.get(k) {
          None => return Some(format!("{p} (key renamed)")),
          Some(vb) => {
            if let Some(d) = json_diff_path(va, vb, &p) {
              return Some(d);
            }
          }
        }
      }
      for k in y.keys() {
        if !x.contains_key(k) {
          return Some(format!("{path}.{k} (key added)"));
        }
      }
      None
    }
    (Value::Array(x), Value::Array(y)) => {
      if x.len() != y.len() {
        return Some(format!("{path}[] (length)"));
      }
      x.iter().zip(y).find_map(|(va, vb)| json_diff_path(va, vb, &format!("{path}[]")))
    }
    _ => {
      if a == b {
        None
      } else {
        Some(path.to_string())
      }
    }
  }
}

/// Signature for an undetected MANIFEST.json corruption: the manifest carries no checksum, so any
/// flip that keeps it parseable is loaded as is. Keyed by the JSON location that changed.
fn manifest_signature(path: &str) -> Option<&'static str> {
  let p = path.split(' ').next().unwrap_or("");
  let known: [(&str, &'static str); 8] = [
    ("segments[].doc_count", "C17-manifest-unchecksummed-doc_count"),
    ("segments[].deleted_docs", "C17-manifest-unchecksummed-deleted_docs"),
    ("segments[].deleted_docs[]", "C17-manifest-unchecksummed-deleted_docs"),
    ("segments[].max_doc_id", "C17-manifest-unchecksummed-max_doc_id"),
    ("segments[].generation", "C17-manifest-unchecksummed-generation"),
    ("segments[].avg_field_lengths", "C17-manifest-unchecksummed-avg_field_lengths"),
    ("segments[].blockmax", "C17-manifest-unchecksummed-blockmax"),
    ("segments[].id", "C17-manifest-unchecksummed-segment-id"),
  ];
  for (k, s) in known {
    if p == k {
      return Some(s);
    }
  }
  if p.starts_with("schema.") || p == "schema" {
    return Some("C17-manifest-unchecksummed-schema");
  }
  None
}

struct Failure {
  sig: Option<&'static str>,
  what: String,
  class: String,
}

/// Evaluate one mutant. Returns (outcome class for coverage, failure).
fn evaluate(img: &Image, base: &Baseline, probes: &[Value], m: &Mutation, live: bool) -> (String, Option<Failure>) {
  let label = img.files[m.file()].0.clone();
  let kind = if label == "MANIFEST.json" {
    "manifest".to_string()
  } else if label == "wal.log" {
    "wal".to_string()
  } else {
    label.split('.').nth(1).unwrap_or("?").to_string()
  };
  let bytes = m.apply(img);
  let seen = if live {
    match observe_live(img, &base.results, m.file(), &bytes, probes) {
      Ok(s) => s,
      Err(msg) => return (format!("{kind}:machinery"), Some(Failure { sig: None, what: msg, class: "machinery".into() })),
    }
  } else {
    observe(img, img.storage_with(Some(m.file()), &bytes), probes)
  };
  let how = if live { "the index was opened and read while intact, then the file was damaged; a new reader() on the SAME handle" } else { "the damaged index" };
  let mode = if live { "live-" } else { "" };
  let mut failure: Option<Failure> = None;
  let class;
  match &seen {
    Seen::Detected(stage) => {
      class = format!("detected@{}", stage.split(':').next().unwrap_or("?").split(' ').next().unwrap_or("?"));
    }
    Seen::Panic(p) => {
      class = "panic".to_string();
      failure = Some(Failure { sig: None, what: format!("{how}: open/reader/search panicked: {p}"), class: format!("{mode}{kind}-panic") });
    }
    Seen::Results(v) => {
      let diff = v.iter().zip(&base.results).position(|(a, b)| !same_probe(a, b));
      match diff {
        None => class = "identical".to_string(),
        Some(i) => {
          class = "silently-different".to_string();
          let (sig, loc) = if kind == "manifest" && !live {
            match serde_json::from_slice::<Value>(&bytes).ok().and_then(|mv| json_diff_path(&base.manifest, &mv, "")) {
              Some(p) => (manifest_signature(&p), format!(" (manifest location changed: {p})")),
              None => (None, String::new()),
            }
          } else {
            (None, String::new())
          };
          failure = Some(Failure {
            sig,
            what: format!("{how} opens and searches without error but probe {i} {} returns {} instead of the baseline {}{loc}", probes[i], v[i], base.results[i]),
            class: format!("{mode}{kind}-silent{}", loc),
          });
        }
      }
    }
  }
  if kind == "wal" && failure.is_none() && !live {
    let st = img.storage_with(Some(m.file()), &bytes);
    match pending_strings(&st, &img.root) {
      Err(p) => failure = Some(Failure { sig: None, what: format!("Wal::last_pending_ops panicked: {p}"), class: "wal-panic".into() }),
      Ok(Err(_)) => {}
      Ok(Ok(list)) => {
        if list.len() > base.pending.len() || list.iter().zip(&base.pending).any(|(a, b)| a != b) {
          failure = Some(Failure { sig: None, what: format!("Wal::last_pending_ops returned {list:?}, which is not a prefix of the baseline pending list {:?}", base.pending), class: "wal-not-prefix".into() });
        }
      }
    }
    if failure.is_none() {
      match recover_contents(img, img.storage_with(Some(m.file()), &bytes)) {
        Err(p) => failure = Some(Failure { sig: None, what: format!("writer()+commit on the corrupted log panicked: {p}"), class: "wal-panic".into() }),
        Ok(Err(_)) => {}
        Ok(Ok(c)) => {
          if !base.prefix_contents.iter().any(|pc| *pc == c) {
            failure = Some(Failure {
              sig: None,
              what: format!("a new writer + commit on the corrupted log committed {:?}, which is not what any intact prefix of the pending log yields {:?}", c.keys().collect::<Vec<_>>(), base.prefix_contents.iter().map(|p| p.keys().cloned().collect::<Vec<_>>()).collect::<Vec<_>>()),
              class: "wal-recovery-not-prefix".into(),
            });
          }
        }
      }
    }
  }
  (format!("{}{kind}:{class}", if live { "live-" } else { "" }), failure)
}

// ---------------------------------------------------------------------------------------------
// Worker subprocesses

const WORKER_KEY: &str = "c17_worker";

fn intern_sig(s: Option<&str>) -> Option<&'static str> {
  let s = s?;
  ["segments[].doc_count", "segments[].deleted_docs", "segments[].max_doc_id", "segments[].generation", "segments[].avg_field_lengths", "segments[].blockmax", "segments[].id", "schema"]
    .iter()
    .filter_map(|p| manifest_signature(p))
    .find(|k| *k == s)
}

/// One item = (live?, mutation). Compact wire form: [live, file, 0 xor | 1 truncate, offset or len, mask].
fn item_to_json(live: bool, m: &Mutation) -> Value {
  match m {
    Mutation::Xor { file, offset, mask } => json!([live as u8, file, 0, offset, mask]),
    Mutation::Truncate { file, len } => json!([live as u8, file, 1, len, 0]),
  }
}

fn item_from_json(v: &Value) -> (bool, Mutation) {
  let g = |i: usize| v[i].as_u64().unwrap_or(0) as usize;
  let live = g(0) == 1;
  if g(2) == 0 {
    (live, Mutation::Xor { file: g(1), offset: g(3), mask: g(4) as u8 })
  } else {
    (live, Mutation::Truncate { file: g(1), len: g(3) })
  }
}

fn worker(spec: &Value) -> i32 {
  let img = Image::from_json(&spec["image"]);
  let probes: Vec<Value> = spec["probes"].as_array().cloned().unwrap_or_default();
  let out = std::io::stdout();
  let base = match baseline(&img, &probes) {
    Ok(b) => b,
    Err(e) => {
      let _ = writeln!(out.lock(), "X {e}");
      return 2;
    }
  };
  for (i, it) in spec["items"].as_array().cloned().unwrap_or_default().iter().enumerate() {
    let (live, m) = item_from_json(it);
    {
      let mut o = out.lock();
      let _ = writeln!(o, "S {i}");
      let _ = o.flush();
    }
    let (class, failure) = evaluate(&img, &base, &probes, &m, live);
    let f = failure.map(|f| json!({"sig": f.sig, "what": f.what, "class": f.class}));
    let mut o = out.lock();
    let _ = writeln!(o, "D {i} {}", json!({"c": class, "f": f}));
  }
  let mut o = out.lock();
  let _ = writeln!(o, "E");
  let _ = o.flush();
  0
}

fn cpu_seconds(pid: u32) -> f64 {
  let Ok(stat) = std::fs::read_to_string(format!("/proc/{pid}/stat")) else { return 0.0 };
  let Some(rest) = stat.rfind(')').map(|i| &stat[i + 1..]) else { return 0.0 };
  let f: Vec<&str> = rest.split_whitespace().collect();
  let ticks: u64 = f.get(11).and_then(|x| x.parse::<u64>().ok()).unwrap_or(0) + f.get(12).and_then(|x| x.parse::<u64>().ok()).unwrap_or(0);
  ticks as f64 / (unsafe { libc::sysconf(libc::_SC_CLK_TCK) }.max(1) as f64)
}

enum Line {
  S(usize),
  D(usize, Value),
  E,
  X(String),
}

static BATCH_SEQ: AtomicUsize = AtomicUsize::new(0);

/// Evaluate `items` in worker processes; a worker that dies or burns 20 s of CPU on one mutant is
/// attributed to that mutant (reported as a failure) and restarted on the rest.
fn run_items(tier: &str, scratch: &Path, img: &Image, img_json: &Value, probes: &[Value], items: &[(bool, Mutation)], stop: &AtomicBool) -> Vec<Option<(String, Option<Failure>)>> {
  let mut results: Vec<Option<(String, Option<Failure>)>> = (0..items.len()).map(|_| None).collect();
  let exe = std::env::current_exe().expect("current_exe");
  let mut pos = 0usize;
  while pos < items.len() && !stop.load(Ordering::Relaxed) {
    let file = scratch.join(format!("batch{}.json", BATCH_SEQ.fetch_add(1, Ordering::Relaxed)));
    let wire: Vec<Value> = items[pos..].iter().map(|(l, m)| item_to_json(*l, m)).collect();
    std::fs::write(&file, json!({WORKER_KEY: {"image": img_json, "probes": probes, "items": wire}}).to_string()).expect("write batch file");
    let err_path = file.with_extension("err");
    let err_file = std::fs::File::create(&err_path).expect("stderr file");
    let mut child = Command::new(&exe)
      .args(["C17", tier, "--replay"])
      .arg(&file)
      .stdin(Stdio::null())
      .stdout(Stdio::piped())
      .stderr(Stdio::from(err_file))
      .spawn()
      .unwrap_or_else(|e| vcore::ev::machinery_failure(&format!("C17: cannot spawn worker: {e}")));
    let pid = child.id();
    let stdout = child.stdout.take().unwrap();
    let (tx, rx) = mpsc::channel::<Line>();
    let reader = std::thread::spawn(move || {
      for line in BufReader::new(stdout).lines() {
        let Ok(line) = line else { break };
        let msg = if let Some(r) = line.strip_prefix("S ") {
          r.trim().parse().ok().map(Line::S)
        } else if let Some(r) = line.strip_prefix("D ") {
          let mut it = r.splitn(2, ' ');
          match (it.next().and_then(|x| x.parse().ok()), it.next().and_then(|x| serde_json::from_str(x).ok())) {
            (Some(i), Some(v)) => Some(Line::D(i, v)),
            _ => None,
          }
        } else if let Some(r) = line.strip_prefix("X ") {
          Some(Line::X(r.to_string()))
        } else if line.trim() == "E" {
          Some(Line::E)
        } else {
          None
        };
        if let Some(m) = msg {
          if tx.send(m).is_err() {
            break;
          }
        }
      }
    });
    let mut cur: Option<(usize, Instant, f64)> = None;
    let mut finished = false;
    let mut advanced_to = pos;
    let describe = |i: usize| {
      let (live, m) = &items[i];
      format!("{}{}", if *live { "[damage under a live handle] " } else { "" }, m.to_json(img))
    };
    loop {
      match rx.recv_timeout(Duration::from_millis(50)) {
        Ok(Line::S(i)) => cur = Some((i, Instant::now(), cpu_seconds(pid))),
        Ok(Line::D(i, v)) => {
          let f = if v["f"].is_null() { None } else { Some(Failure { sig: intern_sig(v["f"]["sig"].as_str()), what: v["f"]["what"].as_str().unwrap_or("").to_string(), class: v["f"]["class"].as_str().unwrap_or("").to_string() }) };
          results[pos + i] = Some((v["c"].as_str().unwrap_or("?").to_string(), f));
          advanced_to = pos + i + 1;
          cur = None;
        }
        Ok(Line::E) => finished = true,
        Ok(Line::X(m)) => vcore::ev::machinery_failure(&format!("C17 worker: {m}")),
        Err(mpsc::RecvTimeoutError::Timeout) => {
          if let Some((i, t0, c0)) = cur {
            let cpu = cpu_seconds(pid) - c0;
            if cpu > 20.0 || t0.elapsed() > Duration::from_secs(300) {
              unsafe {
                libc::kill(pid as i32, libc::SIGKILL);
              }
              let _ = child.wait();
              results[pos + i] = Some(("hang".into(), Some(Failure { sig: None, what: format!("{}: no result after {:.0} s of CPU time ({:.0} s wall)", describe(pos + i), cpu, t0.elapsed().as_secs_f64()), class: "hang".into() })));
              advanced_to = pos + i + 1;
              break;
            }
          }
        }
        Err(mpsc::RecvTimeoutError::Disconnected) => {
          let status = child.wait().ok();
          if let Some((i, _, _)) = cur {
            use std::os::unix::process::ExitStatusExt;
            let err = std::fs::read_to_string(&err_path).unwrap_or_default();
            let line = err.lines().find(|l| l.contains("memory allocation of") || l.contains("overflowed its stack")).or_else(|| err.trim().lines().last()).unwrap_or("").to_string();
            let how = status.map(|s| match s.signal() {
              Some(sig) => format!("killed by signal {sig} (6 = abort, 11 = segfault)"),
              None => format!("exited with {:?}", s.code()),
            });
            results[pos + i] = Some(("died".into(), Some(Failure { sig: None, what: format!("{}: the process evaluating this mutant was {}; stderr: {:?}", describe(pos + i), how.unwrap_or_default(), line), class: "process-died".into() })));
            advanced_to = pos + i + 1;
          } else if !finished {
            vcore::ev::machinery_failure(&format!("C17: worker exited between mutants without finishing ({status:?})"));
          }
          break;
        }
      }
    }
    let _ = reader.join();
    let _ = std::fs::remove_file(&file);
    let _ = std::fs::remove_file(&err_path);
    if finished && cur.is_none() {
      break;
    }
    if advanced_to == pos {
      vcore::ev::machinery_failure("C17: worker made no progress");
    }
    pos = advanced_to;
  }
  results
}

pub fn run(ctx: &Ctx) -> i32 {
  let replay_json: Option<Value> = ctx.replay.as_ref().map(|p| serde_json::from_slice(&std::fs::read(p).expect("replay file")).expect("json"));
  if let Some(v) = &replay_json {
    if let Some(spec) = v.get(WORKER_KEY) {
      return worker(spec);
    }
  }
  let mut rep = Reporter::new("C17", ctx.tier, "fault_enumeration");
  let quick = ctx.tier.is_quick();
  let scratch = Scratch::new("c17");
  let stop = AtomicBool::new(false);
  if let (Some(path), Some(v)) = (&ctx.replay, &replay_json) {
    rep.set_replaying(true);
    let cs = &v["case"];
    let img = Image::from_json(&cs["image"]);
    let probes: Vec<Value> = cs["world"]["probes"].as_array().cloned().unwrap_or_default();
    let m = Mutation::from_json(&img, &cs["mutation"]);
    let live = cs["live_handle"].as_bool().unwrap_or(false);
    let once = || run_items(ctx.tier.name(), &scratch.path, &img, &cs["image"], &probes, &[(live, m.clone())], &stop).pop().flatten().and_then(|r| r.1).map(|f| f.what);
    let (a, b) = (once(), once());
    if a.is_some() != b.is_some() {
      vcore::ev::machinery_failure("NONDETERMINISM on replay");
    }
    return match a {
      Some(w) => {
        println!("VIOLATION property=C17 replay={path}\n  what: {w}");
        1
      }
      None => {
        println!("replay: no violation");
        0
      }
    };
  }

  let deadline = if quick { 28.0 } else { 840.0 };
  let mut evals = 0u64;
  let mut outcome_counts: BTreeMap<String, u64> = BTreeMap::new();
  let mut failure_classes: BTreeMap<String, u64> = BTreeMap::new();
  let mut world_stats = Vec::new();
  let mut firsts: Vec<(Option<&'static str>, String, Value)> = Vec::new();
  let mut rest: Vec<(Option<&'static str>, String, Value)> = Vec::new();
  let mut nontrivial = 0u64;
  for w in worlds(quick) {
    let img = build_image(&w);
    let probes: Vec<Value> = w["probes"].as_array().cloned().unwrap();
    let base = baseline(&img, &probes).unwrap_or_else(|e| vcore::ev::machinery_failure(&format!("C17 world {}: {e}", w["name"])));
    // sanity: the baseline match_all must list exactly the live committed ids
    let mut want: BTreeSet<String> = w["commits"].as_array().unwrap().iter().flat_map(|c| c.as_array().unwrap().iter().map(|d| d["_id"].as_str().unwrap().to_string())).collect();
    for d in w["deleted"].as_array().unwrap() {
      want.remove(d.as_str().unwrap());
    }
    let got: BTreeSet<String> = base.results[0]["hits"].as_array().unwrap().iter().map(|h| h["id"].as_str().unwrap().to_string()).collect();
    if want != got || base.results[1]["hits"].as_array().unwrap().is_empty() {
      vcore::ev::machinery_failure(&format!("C17 world {}: baseline probes do not see the committed documents ({got:?} vs {want:?})", w["name"]));
    }
    let muts = all_mutations(&img, quick);
    world_stats.push(json!({"world": w["name"], "files": img.files.iter().map(|f| json!({"file": f.0, "bytes": f.2.len()})).collect::<Vec<_>>(), "fresh_mutants": muts.len()}));
    // items: every mutant freshly opened, then every mutant applied under a live handle
    // (a live handle keeps the manifest in memory and a reader never touches the log, so the
    // live mode covers the segment files; quick: xor mask 0x01 and every truncation only)
    let seg_file = |m: &Mutation| !matches!(img.files[m.file()].0.as_str(), "MANIFEST.json" | "wal.log");
    let live_pick = |m: &Mutation| seg_file(m) && (!quick || matches!(m, Mutation::Truncate { .. } | Mutation::Xor { mask: 0x01, .. }));
    let items: Vec<(bool, Mutation)> = muts.iter().map(|m| (false, m.clone())).chain(muts.iter().filter(|m| live_pick(m)).map(|m| (true, m.clone()))).collect();
    let live_count = items.iter().filter(|i| i.0).count();
    let img_json = img.to_json();
    let nthreads = vcore::threads().max(2);
    if let Some(ws) = world_stats.last_mut() {
      ws["live_handle_mutants"] = json!(live_count);
    }
    let chunk = items.len().div_ceil(nthreads).max(1);
    let chunks: Vec<(usize, &[(bool, Mutation)])> = items.chunks(chunk).enumerate().map(|(k, c)| (k * chunk, c)).collect();
    let results: Mutex<Vec<Option<(String, Option<Failure>)>>> = Mutex::new((0..items.len()).map(|_| None).collect());
    let next = AtomicUsize::new(0);
    std::thread::scope(|sc| {
      for _ in 0..nthreads {
        sc.spawn(|| loop {
          let j = next.fetch_add(1, Ordering::Relaxed);
          if j >= chunks.len() || stop.load(Ordering::Relaxed) {
            break;
          }
          if rep.elapsed_s() > deadline {
            stop.store(true, Ordering::Relaxed);
            break;
          }
          let (from, c) = chunks[j];
          let out = run_items(ctx.tier.name(), &scratch.path, &img, &img_json, &probes, c, &stop);
          let mut r = results.lock();
          for (k, o) in out.into_iter().enumerate() {
            r[from + k] = o;
          }
        });
      }
    });
    nontrivial += items.len() as u64;
    let results = results.into_inner();
    for ((live, m), r) in items.iter().zip(results) {
      let Some((class, failure)) = r else { continue };
      evals += 1;
      *outcome_counts.entry(class).or_insert(0) += 1;
      if !rep.sample_full() && matches!(m, Mutation::Xor { offset: 40, mask: 1, .. }) {
        rep.sample(json!({"world": w["name"], "live_handle": live, "mutation": m.to_json(&img), "failed": failure.is_some()}));
      }
      if let Some(f) = failure {
        if f.class == "machinery" {
          vcore::ev::machinery_failure(&format!("C17: {}", f.what));
        }
        let key = format!("{} [{}]", f.class, f.sig.unwrap_or("-"));
        let n = failure_classes.entry(key).or_insert(0);
        *n += 1;
        let item = (
          f.sig,
          format!("world [{}: commits {} deleted {} pending {}] mutation {}{} : {}", w["name"].as_str().unwrap_or(""), w["commits"], w["deleted"], w["pending"], m.to_json(&img), if *live { " applied under a live Index handle" } else { "" }, f.what),
          json!({"engine": "corruptmc", "world": w, "image": img_json, "mutation": m.to_json(&img), "live_handle": live}),
        );
        if *n == 1 {
          firsts.push(item);
        } else if rest.len() < 2000 {
          rest.push(item);
        }
      }
    }
  }
  // the first witness of every failure class first, then the rest in enumeration order
  for (sig, what, case) in firsts.into_iter().chain(rest) {
    rep.fail(sig, &what, case);
  }
  rep.add_evals(evals);
  let to = stop.load(Ordering::Relaxed);
  let distinct: BTreeSet<&str> = outcome_counts.keys().map(|k| k.rsplit(':').next().unwrap_or("")).collect();
  if distinct.len() < 2 {
    vcore::ev::machinery_failure("C17: fewer than 2 distinct outcomes observed (vacuous)");
  }
  let cov = vcore::cov! {
    "distinct_nontrivial" => nontrivial,
    "rule" => "mutants = per world, for every index file (MANIFEST.json, wal.log, and the meta/terms/post/docs/fast file of every segment) every byte offset x xor mask (quick {0x01,0x80,0xFF}; thorough every single-bit mask and 0xFF) and every truncation length 0..len-1; every mutant changes exactly one file and is non-trivial (its bytes differ from the committed image). Every mutant is evaluated freshly: loaded into a fresh InMemoryStorage and opened. Every mutant of a segment file (quick: xor mask 0x01 and truncations only) is also evaluated under a live handle: the intact image is opened and read through reader() first (results must equal the baseline), then the damaged bytes are written into the same storage and reader() is called again on the same Index handle. Probes = match_all with stored fields, a term query with scores, and a filter+sort+aggregation request over fast fields. Mutants run in worker subprocesses so that aborts and hangs are attributed to the mutant.",
    "modes" => ["fresh index handle", "damage under a live index handle"],
    "xor_masks" => masks(quick),
    "worlds" => world_stats,
    "outcome_counts" => outcome_counts,
    "failure_classes" => failure_classes,
    "distinct_observed_outcomes" => distinct.len(),
    "cap_hit" => if to { Some(format!("wall budget {deadline}s")) } else { None },
    "exhaustive" => !to,
  };
  rep.finish(
    cov,
    vec![
      "an Err from open, reader() or any probe search counts as detection, whatever the message".into(),
      "corruptions of fields that no probe can observe (uuid, committed_at, checksum-map keys) are accepted when all probe results are identical".into(),
      "single-file corruptions only; multi-byte edits other than truncation are not enumerated".into(),
      "for wal.log an Err from last_pending_ops / writer() / commit is accepted; otherwise the recovered operations must be a prefix of the logged ones and the committed result must equal that of an intact prefix".into(),
      "live-handle mode: a reader that was opened BEFORE the damage is not re-examined; only readers opened after the damage must detect it or be unaffected (MANIFEST.json damage is invisible to a live handle, which keeps the manifest in memory)".into(),
    ],
  )
}
