//! C17 — corrupted index files are detected.
//! Engine: corruptmc — small indexes built on InMemoryStorage; for every file, every byte offset x
//! xor masks {0x01, 0x80, 0xFF} and every truncation length, a fresh InMemoryStorage is populated
//! with the (one-file-mutated) file set and opened. Oracle: open / reader() / every probe search
//! returns Err somewhere, or all probe results are identical to the unmutated baseline; never a
//! panic. For wal.log: Wal::last_pending_ops of the mutant is a prefix of the baseline list and a
//! new writer + commit yields exactly the contents of some intact prefix of the pending log.

use std::collections::{BTreeMap, BTreeSet};
use std::path::{Path, PathBuf};
use std::sync::atomic::{AtomicBool, AtomicU64, Ordering};
use std::sync::Arc;

use parking_lot::Mutex;
use rayon::prelude::*;
use serde_json::{json, Value};

use searchlite_core::api::types::StorageType;
use searchlite_core::api::Index;
use searchlite_core::wal::Wal;
use searchlite_core::storage::{InMemoryStorage, Storage};

use vcore::ev::Reporter;
use vcore::inp::approx;
use vcore::world::*;

use crate::Ctx;

// ---------------------------------------------------------------------------------------------
// Worlds

fn schema_flat() -> Value {
  vcore::inp::schema_text_kw_num()
}

fn schema_nested() -> Value {
  json!({"doc_id_field": "_id",
    "text_fields": [{"name": "body", "analyzer": "default", "stored": true, "indexed": true}],
    "keyword_fields": [{"name": "kw", "stored": true, "indexed": true, "fast": true}],
    "numeric_fields": [{"name": "n", "i64": true, "fast": true, "stored": true},
                       {"name": "f", "i64": false, "fast": true, "stored": true}],
    "nested_fields": [
      {"name": "c", "fields": [
        {"type": "keyword", "name": "a", "stored": true, "indexed": true, "fast": true},
        {"type": "numeric", "name": "v", "i64": true, "fast": true, "stored": true, "nullable": true},
        {"type": "object", "name": "r", "nullable": true, "fields": [
          {"type": "keyword", "name": "t", "stored": true, "indexed": true, "fast": true}]}]}]})
}

/// world JSON: {name, schema_json, commits: [[doc..]..], deleted: [id..], pending: [{"add": doc} | {"delete": id}], probes: [request..]}
fn worlds(quick: bool) -> Vec<Value> {
  let flat_probes = json!([
    {"query": {"type": "match_all"}, "limit": 100, "return_stored": true},
    {"query": "a", "limit": 100, "return_stored": false},
    {"query": {"type": "match_all"}, "limit": 100, "filter": {"KeywordEq": {"field": "kw", "value": "x"}}, "sort": [{"field": "n", "order": "asc"}],
     "aggs": {"k": {"type": "terms", "field": "kw"}, "s": {"type": "stats", "field": "n"}}}
  ]);
  let w1 = json!({"name": "1 segment, 2 docs, 2 pending WAL ops", "schema_json": schema_flat(),
    "commits": [[{"_id": "A", "body": "a b", "kw": "x", "n": 1, "f": 0.5}, {"_id": "B", "body": "a", "kw": "y", "n": 2, "f": 1.5}]],
    "deleted": [], "pending": [{"add": {"_id": "C", "body": "a c", "kw": "x", "n": 3}}, {"delete": "A"}], "probes": flat_probes});
  let w2 = json!({"name": "2 segments + tombstone + 3 pending WAL ops", "schema_json": schema_flat(),
    "commits": [[{"_id": "A", "body": "a b", "kw": "x", "n": 1, "f": 0.5}, {"_id": "B", "body": "a", "kw": "y", "n": 2, "f": 1.5}],
                [{"_id": "C", "body": "b c a", "kw": ["x", "y"], "n": [1, 2], "f": [0.5, 2.5]}, {"_id": "D", "body": "c", "kw": "x", "n": 4}]],
    "deleted": ["B"], "pending": [{"add": {"_id": "E", "body": "a e", "kw": "y", "n": 5}}, {"delete": "C"}, {"add": {"_id": "A", "body": "z", "kw": "x", "n": 9}}], "probes": flat_probes});
  if quick {
    return vec![w1, w2];
  }
  let w3 = json!({"name": "nested + multi-valued fast fields, 1 segment, 1 pending WAL op", "schema_json": schema_nested(),
    "commits": [[{"_id": "A", "body": "a b", "kw": ["x", "y"], "n": [1, 2], "f": [0.5, 2.5], "c": [{"a": "p", "v": 1, "r": [{"t": "u"}, {"t": "w"}]}, {"a": "q", "r": {"t": "w"}}]},
                 {"_id": "B", "body": "a", "kw": "x", "n": 3, "c": {"a": "q", "v": 7}},
                 {"_id": "C", "body": "b", "kw": "y", "f": 1.5}]],
    "deleted": [], "pending": [{"add": {"_id": "D", "body": "a d", "c": [{"a": "p"}]}}],
    "probes": [
      {"query": {"type": "match_all"}, "limit": 100, "return_stored": true},
      {"query": "a", "limit": 100, "return_stored": false},
      {"query": {"type": "match_all"}, "limit": 100, "filter": {"Nested": {"path": "c", "filter": {"KeywordEq": {"field": "a", "value": "q"}}}}, "sort": [{"field": "n", "order": "desc"}],
       "aggs": {"k": {"type": "terms", "field": "kw"}, "s": {"type": "stats", "field": "f"}}}
    ]});
  let w4 = json!({"name": "3 segments with upserts (tombstones from re-added ids), empty WAL", "schema_json": schema_flat(),
    "commits": [[{"_id": "A", "body": "a b", "kw": "x", "n": 1, "f": 0.5}, {"_id": "B", "body": "a", "kw": "y", "n": 2}],
                [{"_id": "A", "body": "a a c", "kw": "y", "n": 11}, {"_id": "C", "body": "c", "kw": "x", "n": 3}],
                [{"_id": "B", "body": "b a", "kw": "x", "n": 12, "f": 3.5}]],
    "deleted": [], "pending": [], "probes": flat_probes});
  vec![w1, w2, w3, w4]
}

/// The byte image of an index: virtual root + (relative label, absolute path, bytes).
#[derive(Clone)]
struct Image {
  root: PathBuf,
  files: Vec<(String, PathBuf, Vec<u8>)>,
  /// wal.log length after each pending op (record boundaries), starting with 0
  wal_boundaries: Vec<usize>,
}

fn hex(b: &[u8]) -> String {
  let mut s = String::with_capacity(b.len() * 2);
  for x in b {
    s.push_str(&format!("{x:02x}"));
  }
  s
}

fn unhex(s: &str) -> Vec<u8> {
  (0..s.len() / 2).map(|i| u8::from_str_radix(&s[2 * i..2 * i + 2], 16).unwrap()).collect()
}

impl Image {
  fn to_json(&self) -> Value {
    json!({"root": self.root.to_string_lossy(), "wal_boundaries": self.wal_boundaries,
      "files": self.files.iter().map(|(l, p, b)| json!({"label": l, "path": p.to_string_lossy(), "hex": hex(b)})).collect::<Vec<_>>()})
  }
  fn from_json(v: &Value) -> Image {
    Image {
      root: PathBuf::from(v["root"].as_str().unwrap()),
      wal_boundaries: v["wal_boundaries"].as_array().unwrap().iter().map(|x| x.as_u64().unwrap() as usize).collect(),
      files: v["files"].as_array().unwrap().iter().map(|f| (f["label"].as_str().unwrap().to_string(), PathBuf::from(f["path"].as_str().unwrap()), unhex(f["hex"].as_str().unwrap()))).collect(),
    }
  }
  fn storage_with(&self, file_idx: Option<usize>, replacement: &[u8]) -> Arc<InMemoryStorage> {
    let st = Arc::new(InMemoryStorage::new(self.root.clone()));
    for (i, (_, p, b)) in self.files.iter().enumerate() {
      let data: &[u8] = if Some(i) == file_idx { replacement } else { b };
      st.write_all(p, data).expect("populate storage");
    }
    st
  }
}

fn build_image(w: &Value) -> Image {
  let sch = schema(w["schema_json"].clone());
  let (idx, storage, root) = mem_index_opts(&sch, true);
  for commit in w["commits"].as_array().unwrap() {
    let mut wr = idx.writer().expect("writer");
    for d in commit.as_array().unwrap() {
      wr.add_document(&doc(d)).expect("add");
    }
    wr.commit().expect("commit");
  }
  let del: Vec<&str> = w["deleted"].as_array().unwrap().iter().map(|x| x.as_str().unwrap()).collect();
  if !del.is_empty() {
    delete_commit(&idx, &del);
  }
  let wal_path = root.join("wal.log");
  let mut wal_boundaries = vec![0usize];
  {
    let mut wr = idx.writer().expect("writer");
    for op in w["pending"].as_array().unwrap() {
      if let Some(d) = op.get("add") {
        wr.add_document(&doc(d)).expect("pending add");
      } else {
        wr.delete_document(op["delete"].as_str().unwrap()).expect("pending delete");
      }
      wal_boundaries.push(storage.read_to_end(&wal_path).expect("wal").len());
    }
  }
  let manifest = idx.manifest();
  let mut files: Vec<(String, PathBuf)> = vec![("MANIFEST.json".into(), root.join("MANIFEST.json")), ("wal.log".into(), wal_path)];
  for (i, seg) in manifest.segments.iter().enumerate() {
    for (kind, p) in [("meta", &seg.paths.meta), ("terms", &seg.paths.terms), ("post", &seg.paths.postings), ("docs", &seg.paths.docstore), ("fast", &seg.paths.fast)] {
      files.push((format!("seg{i}.{kind}"), PathBuf::from(p)));
    }
  }
  let files = files
    .into_iter()
    .map(|(l, p)| {
      let b = storage.read_to_end(&p).unwrap_or_else(|e| vcore::ev::machinery_failure(&format!("C17: cannot read {p:?}: {e:#}")));
      (l, p, b)
    })
    .collect();
  Image { root, files, wal_boundaries }
}

// ---------------------------------------------------------------------------------------------
// Observation

fn open_image(root: &Path, st: Arc<InMemoryStorage>) -> anyhow::Result<Index> {
  Index::open_with_storage(opts(root, StorageType::InMemory), st as Arc<dyn Storage>)
}

/// Normalized result of one probe.
fn normalize(res: &searchlite_core::api::SearchResult) -> Value {
  json!({
    "total": res.total_hits_estimate,
    "hits": res.hits.iter().map(|h| json!({"id": h.doc_id, "score": h.score, "fields": h.fields, "snippet": h.snippet})).collect::<Vec<_>>(),
    "next_cursor": res.next_cursor.is_some(),
    "aggs": serde_json::to_value(&res.aggregations).unwrap_or(Value::Null),
  })
}

fn same_probe(a: &Value, b: &Value) -> bool {
  if a["total"] != b["total"] || a["next_cursor"] != b["next_cursor"] || a["aggs"] != b["aggs"] {
    return false;
  }
  let (ha, hb) = (a["hits"].as_array().unwrap(), b["hits"].as_array().unwrap());
  ha.len() == hb.len()
    && ha.iter().zip(hb).all(|(x, y)| {
      x["id"] == y["id"] && x["fields"] == y["fields"] && x["snippet"] == y["snippet"] && approx(x["score"].as_f64().unwrap_or(f64::NAN) as f32, y["score"].as_f64().unwrap_or(f64::NAN) as f32, 1e-5)
    })
}

#[derive(Debug, Clone)]
enum Seen {
  /// Err at the named stage: the corruption was detected
  Detected(String),
  Panic(String),
  Results(Vec<Value>),
}

fn observe(img: &Image, st: Arc<InMemoryStorage>, probes: &[Value]) -> Seen {
  let root = img.root.clone();
  let r = vcore::catch(move || -> Result<Vec<Value>, String> {
    let idx = open_image(&root, st).map_err(|e| format!("open: {e:#}"))?;
    let reader = idx.reader().map_err(|e| format!("reader: {e:#}"))?;
    let mut out = Vec::new();
    for (i, p) in probes.iter().enumerate() {
      let res = reader.search(&req(p.clone())).map_err(|e| format!("search probe {i}: {e:#}"))?;
      out.push(normalize(&res));
    }
    Ok(out)
  });
  match r {
    Err(p) => Seen::Panic(p),
    Ok(Err(e)) => Seen::Detected(e),
    Ok(Ok(v)) => Seen::Results(v),
  }
}

fn pending_strings(st: &InMemoryStorage, root: &Path) -> Result<Result<Vec<String>, String>, String> {
  vcore::catch(|| Wal::last_pending_ops(st, &root.join("wal.log")).map(|v| v.iter().map(|e| format!("{e:?}")).collect::<Vec<_>>()).map_err(|e| format!("{e:#}")))
}

/// writer() (replays the log) + commit + committed contents.
fn recover_contents(img: &Image, st: Arc<InMemoryStorage>) -> Result<Result<BTreeMap<String, Value>, String>, String> {
  let root = img.root.clone();
  vcore::catch(move || -> Result<BTreeMap<String, Value>, String> {
    let idx = open_image(&root, st).map_err(|e| format!("open: {e:#}"))?;
    let mut w = idx.writer().map_err(|e| format!("writer: {e:#}"))?;
    w.commit().map_err(|e| format!("commit: {e:#}"))?;
    contents(&idx).map_err(|e| format!("contents: {e:#}"))
  })
}

struct Baseline {
  results: Vec<Value>,
  pending: Vec<String>,
  /// committed contents after recovering exactly the first k pending ops, k = 0..=len
  prefix_contents: Vec<BTreeMap<String, Value>>,
  manifest: Value,
}

fn baseline(img: &Image, probes: &[Value]) -> Result<Baseline, String> {
  let results = match observe(img, img.storage_with(None, &[]), probes) {
    Seen::Results(v) => v,
    other => return Err(format!("baseline image does not open/search cleanly: {other:?}")),
  };
  let st = img.storage_with(None, &[]);
  let pending = pending_strings(&st, &img.root).map_err(|p| format!("baseline wal panic {p}"))??;
  if pending.len() + 1 != img.wal_boundaries.len() {
    return Err(format!("baseline WAL has {} pending ops, expected {}", pending.len(), img.wal_boundaries.len() - 1));
  }
  let wal_idx = img.files.iter().position(|f| f.0 == "wal.log").unwrap();
  let wal = img.files[wal_idx].2.clone();
  let mut prefix_contents = Vec::new();
  for &b in &img.wal_boundaries {
    let st = img.storage_with(Some(wal_idx), &wal[..b]);
    prefix_contents.push(recover_contents(img, st).map_err(|p| format!("baseline recovery panic {p}"))??);
  }
  let manifest: Value = serde_json::from_slice(&img.files[0].2).map_err(|e| format!("baseline manifest: {e}"))?;
  Ok(Baseline { results, pending, prefix_contents, manifest })
}

// ---------------------------------------------------------------------------------------------
// Mutations

#[derive(Clone, Debug)]
enum Mutation {
  Xor { file: usize, offset: usize, mask: u8 },
  Truncate { file: usize, len: usize },
}

impl Mutation {
  fn file(&self) -> usize {
    match self {
      Mutation::Xor { file, .. } | Mutation::Truncate { file, .. } => *file,
    }
  }
  fn apply(&self, img: &Image) -> Vec<u8> {
    let mut b = img.files[self.file()].2.clone();
    match self {
      Mutation::Xor { offset, mask, .. } => b[*offset] ^= mask,
      Mutation::Truncate { len, .. } => b.truncate(*len),
    }
    b
  }
  fn to_json(&self, img: &Image) -> Value {
    let label = &img.files[self.file()].0;
    match self {
      Mutation::Xor { offset, mask, .. } => json!({"file": label, "xor": {"offset": offset, "mask": mask}}),
      Mutation::Truncate { len, .. } => json!({"file": label, "truncate_to": len}),
    }
  }
  fn from_json(img: &Image, v: &Value) -> Mutation {
    let file = img.files.iter().position(|f| json!(f.0) == v["file"]).expect("file label");
    if let Some(x) = v.get("xor") {
      Mutation::Xor { file, offset: x["offset"].as_u64().unwrap() as usize, mask: x["mask"].as_u64().unwrap() as u8 }
    } else {
      Mutation::Truncate { file, len: v["truncate_to"].as_u64().unwrap() as usize }
    }
  }
}

fn masks(quick: bool) -> Vec<u8> {
  if quick {
    vec![0x01, 0x80, 0xFF]
  } else {
    vec![0x01, 0x02, 0x04, 0x08, 0x10, 0x20, 0x40, 0x80, 0xFF]
  }
}

fn all_mutations(img: &Image, quick: bool) -> Vec<Mutation> {
  let mut out = Vec::new();
  for (fi, (_, _, b)) in img.files.iter().enumerate() {
    for offset in 0..b.len() {
      for mask in masks(quick) {
        out.push(Mutation::Xor { file: fi, offset, mask });
      }
    }
    for len in 0..b.len() {
      out.push(Mutation::Truncate { file: fi, len });
    }
  }
  out
}

/// First differing location between two JSON values, array indices written as [].
fn json_diff_path(a: &Value, b: &Value, path: &str) -> Option<String> {
  match (a, b) {
    (Value::Object(x), Value::Object(y)) => {
      for (k, va) in x {
        let p = if path.is_empty() { k.clone() } else { format!("{path}.{k}") };
        match y.get(k) {
          None => return Some(format!("{p} (key renamed)")),
          Some(vb) => {
            if let Some(d) = json_diff_path(va, vb, &p) {
              return Some(d);
            }
          }
        }
      }
      for k in y.keys() {
        if !x.contains_key(k) {
          return Some(format!("{path}.{k} (key added)"));
        }
      }
      None
    }
    (Value::Array(x), Value::Array(y)) => {
      if x.len() != y.len() {
        return Some(format!("{path}[] (length)"));
      }
      x.iter().zip(y).find_map(|(va, vb)| json_diff_path(va, vb, &format!("{path}[]")))
    }
    _ => {
      if a == b {
        None
      } else {
        Some(path.to_string())
      }
    }
  }
}

/// Signature for an undetected MANIFEST.json corruption: the manifest carries no checksum, so any
/// flip that keeps it parseable is loaded as is. Keyed by the JSON location that changed.
fn manifest_signature(path: &str) -> Option<&'static str> {
  let p = path.split(' ').next().unwrap_or("");
  let known: [(&str, &'static str); 8] = [
    ("segments[].doc_count", "C17-manifest-unchecksummed-doc_count"),
    ("segments[].deleted_docs", "C17-manifest-unchecksummed-deleted_docs"),
    ("segments[].deleted_docs[]", "C17-manifest-unchecksummed-deleted_docs"),
    ("segments[].max_doc_id", "C17-manifest-unchecksummed-max_doc_id"),
    ("segments[].generation", "C17-manifest-unchecksummed-generation"),
    ("segments[].avg_field_lengths", "C17-manifest-unchecksummed-avg_field_lengths"),
    ("segments[].blockmax", "C17-manifest-unchecksummed-blockmax"),
    ("segments[].id", "C17-manifest-unchecksummed-segment-id"),
  ];
  for (k, s) in known {
    if p == k {
      return Some(s);
    }
  }
  if p.starts_with("schema.") || p == "schema" {
    return Some("C17-manifest-unchecksummed-schema");
  }
  None
}

struct Failure {
  sig: Option<&'static str>,
  what: String,
  class: String,
}

/// Evaluate one mutant. Returns (outcome class for coverage, failure).
fn evaluate(img: &Image, base: &Baseline, probes: &[Value], m: &Mutation) -> (String, Option<Failure>) {
  let label = img.files[m.file()].0.clone();
  let kind = if label == "MANIFEST.json" {
    "manifest".to_string()
  } else if label == "wal.log" {
    "wal".to_string()
  } else {
    label.split('.').nth(1).unwrap_or("?").to_string()
  };
  let bytes = m.apply(img);
  let seen = observe(img, img.storage_with(Some(m.file()), &bytes), probes);
  let mut failure: Option<Failure> = None;
  let class;
  match &seen {
    Seen::Detected(stage) => {
      class = format!("detected@{}", stage.split(':').next().unwrap_or("?").split(' ').next().unwrap_or("?"));
    }
    Seen::Panic(p) => {
      class = "panic".to_string();
      failure = Some(Failure { sig: None, what: format!("open/reader/search panicked: {p}"), class: format!("{kind}-panic") });
    }
    Seen::Results(v) => {
      let diff = v.iter().zip(&base.results).position(|(a, b)| !same_probe(a, b));
      match diff {
        None => class = "identical".to_string(),
        Some(i) => {
          class = "silently-different".to_string();
          let (sig, loc) = if kind == "manifest" {
            match serde_json::from_slice::<Value>(&bytes).ok().and_then(|mv| json_diff_path(&base.manifest, &mv, "")) {
              Some(p) => (manifest_signature(&p), format!(" (manifest location changed: {p})")),
              None => (None, String::new()),
            }
          } else {
            (None, String::new())
          };
          failure = Some(Failure {
            sig,
            what: format!("index opens and searches without error but probe {i} {} returns {} instead of the baseline {}{loc}", probes[i], v[i], base.results[i]),
            class: format!("{kind}-silent{}", loc),
          });
        }
      }
    }
  }
  if kind == "wal" && failure.is_none() {
    let st = img.storage_with(Some(m.file()), &bytes);
    match pending_strings(&st, &img.root) {
      Err(p) => failure = Some(Failure { sig: None, what: format!("Wal::last_pending_ops panicked: {p}"), class: "wal-panic".into() }),
      Ok(Err(_)) => {}
      Ok(Ok(list)) => {
        if list.len() > base.pending.len() || list.iter().zip(&base.pending).any(|(a, b)| a != b) {
          failure = Some(Failure { sig: None, what: format!("Wal::last_pending_ops returned {list:?}, which is not a prefix of the baseline pending list {:?}", base.pending), class: "wal-not-prefix".into() });
        }
      }
    }
    if failure.is_none() {
      match recover_contents(img, img.storage_with(Some(m.file()), &bytes)) {
        Err(p) => failure = Some(Failure { sig: None, what: format!("writer()+commit on the corrupted log panicked: {p}"), class: "wal-panic".into() }),
        Ok(Err(_)) => {}
        Ok(Ok(c)) => {
          if !base.prefix_contents.iter().any(|pc| *pc == c) {
            failure = Some(Failure {
              sig: None,
              what: format!("a new writer + commit on the corrupted log committed {:?}, which is not what any intact prefix of the pending log yields {:?}", c.keys().collect::<Vec<_>>(), base.prefix_contents.iter().map(|p| p.keys().cloned().collect::<Vec<_>>()).collect::<Vec<_>>()),
              class: "wal-recovery-not-prefix".into(),
            });
          }
        }
      }
    }
  }
  (format!("{kind}:{class}"), failure)
}

pub fn run(ctx: &Ctx) -> i32 {
  let mut rep = Reporter::new("C17", ctx.tier, "exploration");
  let quick = ctx.tier.is_quick();
  if let Some(path) = &ctx.replay {
    rep.set_replaying(true);
    let v: Value = serde_json::from_slice(&std::fs::read(path).expect("replay file")).expect("json");
    let cs = &v["case"];
    let img = Image::from_json(&cs["image"]);
    let probes: Vec<Value> = cs["world"]["probes"].as_array().cloned().unwrap_or_default();
    let base = baseline(&img, &probes).unwrap_or_else(|e| vcore::ev::machinery_failure(&format!("C17 replay: {e}")));
    let m = Mutation::from_json(&img, &cs["mutation"]);
    let once = || evaluate(&img, &base, &probes, &m).1.map(|f| f.what);
    let (a, b) = (once(), once());
    if a.is_some() != b.is_some() {
      vcore::ev::machinery_failure("NONDETERMINISM on replay");
    }
    return match a {
      Some(w) => {
        println!("VIOLATION property=C17 replay={path}\n  what: {w}");
        1
      }
      None => {
        println!("replay: no violation");
        0
      }
    };
  }

  let deadline = if quick { 30.0 } else { 840.0 };
  let timed_out = AtomicBool::new(false);
  let evals = AtomicU64::new(0);
  let outcome_counts: Mutex<BTreeMap<String, u64>> = Mutex::new(BTreeMap::new());
  let failure_classes: Mutex<BTreeMap<String, u64>> = Mutex::new(BTreeMap::new());
  let mut world_stats = Vec::new();
  let mut firsts: Vec<(Option<&'static str>, String, Value)> = Vec::new();
  let mut rest: Vec<(Option<&'static str>, String, Value)> = Vec::new();
  let mut nontrivial = 0u64;
  for w in worlds(quick) {
    let img = build_image(&w);
    let probes: Vec<Value> = w["probes"].as_array().cloned().unwrap();
    let base = baseline(&img, &probes).unwrap_or_else(|e| vcore::ev::machinery_failure(&format!("C17 world {}: {e}", w["name"])));
    // sanity: the baseline match_all must list exactly the live committed ids
    let mut want: BTreeSet<String> = w["commits"].as_array().unwrap().iter().flat_map(|c| c.as_array().unwrap().iter().map(|d| d["_id"].as_str().unwrap().to_string())).collect();
    for d in w["deleted"].as_array().unwrap() {
      want.remove(d.as_str().unwrap());
    }
    let got: BTreeSet<String> = base.results[0]["hits"].as_array().unwrap().iter().map(|h| h["id"].as_str().unwrap().to_string()).collect();
    if want != got || base.results[1]["hits"].as_array().unwrap().is_empty() {
      vcore::ev::machinery_failure(&format!("C17 world {}: baseline probes do not see the committed documents ({got:?} vs {want:?})", w["name"]));
    }
    let muts = all_mutations(&img, quick);
    world_stats.push(json!({"world": w["name"], "files": img.files.iter().map(|f| json!({"file": f.0, "bytes": f.2.len()})).collect::<Vec<_>>(), "mutants": muts.len()}));
    let results: Vec<Option<Failure>> = muts
      .par_iter()
      .map(|m| {
        if rep.elapsed_s() > deadline {
          timed_out.store(true, Ordering::Relaxed);
          return None;
        }
        let (class, failure) = evaluate(&img, &base, &probes, m);
        evals.fetch_add(1, Ordering::Relaxed);
        *outcome_counts.lock().entry(class).or_insert(0) += 1;
        if !rep.sample_full() && matches!(m, Mutation::Xor { offset: 40, .. }) {
          rep.sample(json!({"world": w["name"], "mutation": m.to_json(&img), "failed": failure.is_some()}));
        }
        failure
      })
      .collect();
    nontrivial += muts.len() as u64;
    for (m, f) in muts.iter().zip(results) {
      if let Some(f) = f {
        let key = format!("{} [{}]", f.class, f.sig.unwrap_or("-"));
        let mut fc = failure_classes.lock();
        let n = fc.entry(key).or_insert(0);
        *n += 1;
        let item = (
          f.sig,
          format!("world [{}: commits {} deleted {} pending {}] mutation {} : {}", w["name"].as_str().unwrap_or(""), w["commits"], w["deleted"], w["pending"], m.to_json(&img), f.what),
          json!({"engine": "corruptmc", "world": w, "image": img.to_json(), "mutation": m.to_json(&img)}),
        );
        if *n == 1 {
          firsts.push(item);
        } else {
          rest.push(item);
        }
      }
    }
  }
  // the first witness of every failure class first, then the rest in enumeration order
  for (sig, what, case) in firsts.into_iter().chain(rest) {
    rep.fail(sig, &what, case);
  }
  rep.add_evals(evals.load(Ordering::Relaxed));
  let to = timed_out.load(Ordering::Relaxed);
  let oc = outcome_counts.lock().clone();
  let distinct: BTreeSet<&str> = oc.keys().map(|k| k.split(':').nth(1).unwrap_or("")).collect();
  if distinct.len() < 2 {
    vcore::ev::machinery_failure("C17: fewer than 2 distinct outcomes observed (vacuous)");
  }
  let cov = vcore::cov! {
    "distinct_nontrivial" => nontrivial,
    "rule" => "mutants = per world, for every index file (MANIFEST.json, wal.log, and the meta/terms/post/docs/fast file of every segment) every byte offset x xor mask (quick {0x01,0x80,0xFF}; thorough every single-bit mask and 0xFF) and every truncation length 0..len-1; every mutant changes exactly one file and is non-trivial (its bytes differ from the committed image). Each is loaded into a fresh InMemoryStorage and opened; probes = match_all with stored fields, a term query with scores, and a filter+sort+aggregation request over fast fields.",
    "xor_masks" => masks(quick),
    "worlds" => world_stats,
    "outcome_counts" => oc,
    "failure_classes" => failure_classes.lock().clone(),
    "distinct_observed_outcomes" => distinct.len(),
    "cap_hit" => if to { Some(format!("wall budget {deadline}s")) } else { None },
    "exhaustive" => !to,
  };
  rep.finish(
    cov,
    vec![
      "an Err from open, reader() or any probe search counts as detection, whatever the message".into(),
      "corruptions of fields that no probe can observe (uuid, committed_at, checksum-map keys) are accepted when all probe results are identical".into(),
      "single-file corruptions only; multi-byte edits other than truncation are not enumerated".into(),
      "for wal.log an Err from last_pending_ops / writer() / commit is accepted; otherwise the recovered operations must be a prefix of the logged ones and the committed result must equal that of an intact prefix".into(),
    ],
  )
}
