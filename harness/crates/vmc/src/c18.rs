//! C18 — collapse returns the best hit of each group.
//! Engine: inputmc collapse — small tie-prone worlds x segment layouts x (main sort x inner sort x
//! inner from x inner size x limit), each collapsed response compared with what the *same* request
//! without `collapse` (and limit = corpus size) implies. Differential between two runs of the
//! implementation: ranking itself is C10's concern, grouping is this check's.

use std::collections::{BTreeMap, HashMap, HashSet};
use std::sync::atomic::{AtomicBool, AtomicU64, Ordering};

use parking_lot::Mutex;
use rayon::prelude::*;
use searchlite_core::api::IndexReader;
use serde_json::{json, Value};

use vcore::ev::Reporter;
use vcore::inp::*;
use vcore::world::*;

use crate::Ctx;

fn schema_json() -> Value {
  json!({"doc_id_field": "_id",
    "text_fields": [{"name": "body", "analyzer": "default", "stored": true, "indexed": true}],
    "keyword_fields": [{"name": "g", "stored": true, "indexed": true, "fast": true},
                       {"name": "kw", "stored": true, "indexed": true, "fast": true}],
    "numeric_fields": [{"name": "n", "i64": true, "fast": true, "stored": true}]})
}

/// Document variants: two score levels for the query `a`, two `n` values, two `kw` values, and one
/// missing sort value each — every sort key ties often.
fn variants() -> Vec<Value> {
  vec![
    json!({"body": "a", "n": 1, "kw": "p"}),
    json!({"body": "a", "n": 2, "kw": "q"}),
    json!({"body": "a b", "n": 1, "kw": "q"}),
    json!({"body": "a b", "kw": "p"}),
  ]
}

fn main_plans() -> Vec<Value> {
  vec![
    json!([]),
    json!([{"field": "n", "order": "asc"}]),
    json!([{"field": "n", "order": "desc"}, {"field": "_score", "order": "desc"}]),
    json!([{"field": "kw", "order": "asc"}, {"field": "_score", "order": "asc"}]),
  ]
}

fn inner_plans() -> Vec<Value> {
  vec![
    json!([{"field": "_score", "order": "desc"}]),
    json!([{"field": "n", "order": "desc"}]),
    json!([{"field": "kw", "order": "desc"}, {"field": "n", "order": "asc"}]),
  ]
}

/// Group assignments of n documents in canonical form: each position is missing (None) or a group
/// label; labels appear in first-use order (x, then y, then z); at most 3 groups of size <= 4.
fn group_seqs(n: usize) -> Vec<Vec<Option<u8>>> {
  fn rec(n: usize, cur: &mut Vec<Option<u8>>, used: u8, out: &mut Vec<Vec<Option<u8>>>) {
    if cur.len() == n {
      out.push(cur.clone());
      return;
    }
    for l in 0..=used.min(2) {
      if cur.iter().filter(|x| **x == Some(l)).count() >= 4 {
        continue;
      }
      cur.push(Some(l));
      rec(n, cur, if l == used { used + 1 } else { used }, out);
      cur.pop();
    }
    cur.push(None);
    rec(n, cur, used, out);
    cur.pop();
  }
  let mut out = Vec::new();
  rec(n, &mut Vec::new(), 0, &mut out);
  out
}

const LABELS: [&str; 3] = ["x", "y", "z"];

fn mk_world(gs: &[Option<u8>], vs: &[usize], layout: &[usize]) -> World {
  let var = variants();
  let docs: Vec<Value> = gs
    .iter()
    .zip(vs)
    .enumerate()
    .map(|(i, (g, v))| {
      let mut d = var[*v].clone();
      d["_id"] = json!(id_of(i));
      if let Some(l) = g {
        d["g"] = json!(LABELS[*l as usize]);
      }
      d
    })
    .collect();
  World::new("body+g+kw+n", schema_json(), docs).with_layout(layout.to_vec())
}

/// One or two segments.
fn layouts(n: usize) -> Vec<Vec<usize>> {
  let mut out = vec![vec![n]];
  for k in 1..n {
    out.push(vec![k, n - k]);
  }
  out
}

/// Fixed variant patterns for the larger worlds (position i gets pattern[i]).
fn patterns(thorough: bool) -> Vec<Vec<usize>> {
  let all = ["000000", "200000", "012301", "321032", "001122", "213213", "313101", "103210", "020213", "333333", "010101", "232323", "302130", "120312", "001100", "221133", "310203"];
  all[..if thorough { 17 } else { 8 }].iter().map(|s| s.bytes().map(|b| (b - b'0') as usize).collect()).collect()
}

// ---------------------------------------------------------------------------------------------

/// The uncollapsed ranking under one sort plan, with tie classes.
struct Ref {
  order: Vec<String>,
  pos: HashMap<String, usize>,
  class: HashMap<String, usize>,
  total: u64,
}

fn reference(reader: &IndexReader, docs: &HashMap<String, Value>, query: &Value, sort: &Value) -> Result<Ref, String> {
  let n = docs.len();
  let r = search_caught(reader, &req(json!({"query": query, "sort": sort, "limit": n}))).map_err(|e| format!("uncollapsed reference request failed: {e}"))?;
  if r.hits.len() != n {
    return Err(format!("uncollapsed reference request (limit {n}) returned {} of {n} matching documents", r.hits.len()));
  }
  let specs: Vec<Value> = match sort.as_array() {
    Some(a) if !a.is_empty() => a.clone(),
    _ => vec![json!({"field": "_score"})],
  };
  let mut order = Vec::new();
  let mut pos = HashMap::new();
  let mut class = HashMap::new();
  let mut cur = 0usize;
  let mut prev: Option<(Vec<Value>, Vec<f32>)> = None;
  for (i, h) in r.hits.iter().enumerate() {
    let d = docs.get(&h.doc_id).ok_or_else(|| format!("unknown id {} in reference", h.doc_id))?;
    let mut vals = Vec::new();
    let mut scores = Vec::new();
    for s in &specs {
      let f = s["field"].as_str().unwrap_or("");
      if f == "_score" {
        scores.push(h.score);
      } else {
        vals.push(d.get(f).cloned().unwrap_or(Value::Null));
      }
    }
    if let Some((pv, ps)) = &prev {
      let same = *pv == vals && ps.iter().zip(&scores).all(|(a, b)| approx(*a, *b, 1e-5));
      if !same {
        cur += 1;
      }
    }
    prev = Some((vals, scores));
    order.push(h.doc_id.clone());
    pos.insert(h.doc_id.clone(), i);
    class.insert(h.doc_id.clone(), cur);
  }
  if pos.len() != n {
    return Err("uncollapsed reference request returned a duplicate id".into());
  }
  Ok(Ref { order, pos, class, total: r.total_hits_estimate })
}

struct Outcome {
  groups: usize,
  collapsed_away: usize,
  inner_total: usize,
  tie_divergence: bool,
  total_groups_short: bool,
  /// rescored request whose candidate list is not in key order after rescoring
  rescore_unordered: bool,
  /// rescored request where groups are first seen in another order than their representatives rank
  rescore_first_seen_differs: bool,
  /// some group's other members are ranked differently by the request sort and the inner sort
  orders_disagree: bool,
}

fn sort_key(v: &Value) -> String {
  match v.as_array() {
    Some(a) if !a.is_empty() => v.to_string(),
    _ => "[]".to_string(),
  }
}

const SIG_INNER_SCORE: &str = "C18-inner-score-sort-without-main-score";
const SIG_SEG_TOPK: &str = "C18-collapse-over-per-segment-topk";

#[derive(PartialEq)]
enum Kind {
  Other,
  /// the failure is only about the order / window position of inner hits
  InnerOrder,
}

struct Fail {
  kind: Kind,
  what: String,
}

fn other(what: String) -> Fail {
  Fail { kind: Kind::Other, what }
}

type Obs = Vec<(String, String, Vec<String>)>; // (group, representative, inner ids)

fn show(o: &Obs) -> String {
  o.iter().map(|(g, r, i)| format!("{g}:{r}{i:?}")).collect::<Vec<_>>().join(" ")
}

struct Case<'a> {
  n: usize,
  limit: usize,
  has_inner: bool,
  from: usize,
  size: Option<usize>,
  rm: &'a Ref,
  obs: &'a Obs,
  group_order: &'a [String],
  members: &'a BTreeMap<String, Vec<String>>,
  missing: usize,
  total_groups: Option<u64>,
  g_of: &'a dyn Fn(&str) -> Option<String>,
}

/// Judge the observed grouping against the uncollapsed main ranking `c.rm` and inner ranking `ri`.
fn judge(c: &Case, ri: &Ref, exact: bool) -> Result<Outcome, Fail> {
  let (obs, rm, members, group_order) = (c.obs, c.rm, c.members, c.group_order);
  let window = |sorted: &[String]| -> Vec<String> {
    if !c.has_inner {
      return vec![];
    }
    let mut v: Vec<String> = sorted.iter().skip(c.from).cloned().collect();
    if let Some(s) = c.size {
      v.truncate(s);
    }
    v
  };
  let mut expected: Obs = Vec::new();
  for g in group_order {
    let m = &members[g];
    let mut others: Vec<String> = m[1..].to_vec();
    others.sort_by_key(|id| ri.pos[id]);
    expected.push((g.clone(), m[0].clone(), window(&others)));
  }
  let full = c.limit >= c.n;
  let mut out = Outcome { groups: obs.len(), collapsed_away: 0, inner_total: obs.iter().map(|o| o.2.len()).sum(), tie_divergence: false, total_groups_short: false, rescore_unordered: false, rescore_first_seen_differs: false, orders_disagree: false };
  out.collapsed_away = c.n.saturating_sub(c.missing).saturating_sub(obs.len());
  if c.has_inner {
    out.orders_disagree = group_order.iter().any(|g| {
      let by_main: Vec<&String> = members[g][1..].iter().collect();
      let mut by_inner = by_main.clone();
      by_inner.sort_by_key(|id| ri.pos[*id]);
      by_main != by_inner
    });
  }

  // invariants of the statement (hold for every limit); tie classes make them tolerant of a
  // different tie-break between two runs
  let mut seen_g: HashSet<&str> = HashSet::new();
  let mut prev_class: Option<usize> = None;
  for (g, rep, inner) in obs {
    if !seen_g.insert(g.as_str()) {
      return Err(other(format!("two hits for collapse value {g}: observed {}", show(obs))));
    }
    let rc = rm.class[rep];
    if let Some(better) = members[g].iter().find(|m| rm.class[*m] < rc) {
      return Err(other(format!("hit {rep} represents group {g} but {better} of the same group ranks strictly better under the request sort (uncollapsed order {:?}); observed {}", rm.order, show(obs))));
    }
    if let Some(p) = prev_class {
      if rc < p {
        return Err(other(format!("groups are not in the order of their best hits: observed {} ; uncollapsed order {:?}", show(obs), rm.order)));
      }
    }
    prev_class = Some(rc);
    let mut seen_i: HashSet<&str> = HashSet::new();
    for i in inner {
      if i == rep {
        return Err(other(format!("inner_hits of {rep} contain the representative itself: observed {}", show(obs))));
      }
      if (c.g_of)(i).as_deref() != Some(g.as_str()) {
        return Err(other(format!("inner_hits of {rep} (group {g}) contain {i} which is not in that group: observed {}", show(obs))));
      }
      if !seen_i.insert(i.as_str()) {
        return Err(other(format!("inner_hits of {rep} contain {i} twice: observed {}", show(obs))));
      }
    }
    if !c.has_inner && !inner.is_empty() {
      return Err(other(format!("inner_hits returned although the request has none: observed {}", show(obs))));
    }
    if let Some(s) = c.size {
      if inner.len() > s {
        return Err(other(format!("inner_hits of {rep} has {} entries for size {s}: observed {}", inner.len(), show(obs))));
      }
    }
  }
  // a group whose best hit ranks strictly before a returned group's best hit must be returned too
  if let Some(last) = prev_class {
    for g in group_order {
      if !seen_g.contains(g.as_str()) && rm.class[&members[g][0]] < last {
        return Err(other(format!("group {g} (best hit {}) ranks before a returned group but is not returned: observed {} ; uncollapsed order {:?}", members[g][0], show(obs), rm.order)));
      }
    }
  }
  for (_, rep, inner) in obs {
    for w in inner.windows(2) {
      if ri.class[&w[1]] < ri.class[&w[0]] {
        return Err(Fail { kind: Kind::InnerOrder, what: format!("inner_hits of {rep} are not ordered by the inner sort: {:?} but the uncollapsed order under the inner sort is {:?}", inner, ri.order) });
      }
    }
  }

  if !full {
    if let Some(tg) = c.total_groups {
      if (tg as usize) < group_order.len() {
        out.total_groups_short = true;
      }
    }
    return Ok(out);
  }

  // limit >= n: full equality
  let v = group_order.len();
  let tg_ok = match c.total_groups.map(|x| x as usize) {
    Some(t) => t == v || (c.missing > 0 && (t == v + 1 || t == v + c.missing)),
    None => false,
  };
  if !tg_ok {
    return Err(other(format!("total_groups {:?} but the matching documents have {v} distinct collapse values ({} documents without a value)", c.total_groups, c.missing)));
  }
  if exact && *obs == expected {
    return Ok(out);
  }
  // tolerant judgement (ties may be broken differently between two runs)
  if obs.len() != expected.len() {
    return Err(other(format!("expected one hit per collapse value: {} ; observed {}", show(&expected), show(obs))));
  }
  for (g, rep, inner) in obs {
    let others: Vec<&String> = members[g].iter().filter(|m| *m != rep).collect();
    let exp_len = if !c.has_inner {
      0
    } else {
      let avail = others.len().saturating_sub(c.from);
      c.size.map(|s| s.min(avail)).unwrap_or(avail)
    };
    if inner.len() != exp_len {
      return Err(other(format!("inner_hits of {rep} (group {g}) has {} entries, expected {exp_len} (others {:?}, from {}, size {:?}): expected {} ; observed {}", inner.len(), others, c.from, c.size, show(&expected), show(obs))));
    }
    for (j, x) in inner.iter().enumerate() {
      let p = c.from + j;
      let cx = ri.class[x];
      let less = others.iter().filter(|o| ri.class[**o] < cx).count();
      let leq = others.iter().filter(|o| ri.class[**o] <= cx).count();
      if !(less <= p && p < leq) {
        return Err(Fail { kind: Kind::InnerOrder, what: format!("inner_hits of {rep} (group {g}): {x} cannot stand at position {p} of the group's other members under the inner sort (uncollapsed inner order {:?}): expected {} ; observed {}", ri.order, show(&expected), show(obs)) });
      }
    }
  }
  out.tie_divergence = exact;
  Ok(out)
}

fn fast_path(sort: &Value) -> bool {
  match sort.as_array() {
    None => true,
    Some(a) if a.is_empty() => true,
    Some(a) => a.len() == 1 && a[0]["field"] == "_score" && a[0].get("order").map(|o| o.is_null() || o == "desc").unwrap_or(true),
  }
}

fn has_score(sort: &Value) -> bool {
  sort.as_array().map(|a| a.is_empty() || a.iter().any(|s| s["field"] == "_score")).unwrap_or(true)
}

/// Judge one collapsed request. `refs` caches the uncollapsed rankings per sort plan.
fn check(reader: &IndexReader, world: &World, reqj: &Value, refs: &mut HashMap<String, Ref>) -> Result<Outcome, (Option<&'static str>, String)> {
  let un = |e: String| (None, e);
  if reqj.get("rescore").map(|r| !r.is_null()).unwrap_or(false) {
    return check_rescored(reader, world, reqj, refs).map_err(un);
  }
  let docs: HashMap<String, Value> = world.docs.iter().map(|d| (d["_id"].as_str().unwrap().to_string(), d.clone())).collect();
  let n = docs.len();
  let query = &reqj["query"];
  let main_sort = reqj.get("sort").cloned().unwrap_or(json!([]));
  let collapse = &reqj["collapse"];
  let inner_cfg = collapse.get("inner_hits").filter(|v| !v.is_null());
  let inner_sort: Value = inner_cfg.and_then(|c| c.get("sort").cloned()).unwrap_or(json!([]));
  let from = inner_cfg.and_then(|c| c.get("from")).and_then(|v| v.as_u64()).unwrap_or(0) as usize;
  let size: Option<usize> = inner_cfg.and_then(|c| c.get("size")).and_then(|v| v.as_u64()).map(|x| x as usize);
  let limit = reqj["limit"].as_u64().unwrap_or(0) as usize;
  for s in [&main_sort, &inner_sort] {
    let k = sort_key(s);
    if !refs.contains_key(&k) {
      let r = reference(reader, &docs, query, s).map_err(un)?;
      refs.insert(k, r);
    }
  }
  let g_of = |id: &str| -> Option<String> { docs.get(id).and_then(|d| d.get("g")).and_then(|v| v.as_str()).map(|s| s.to_string()) };

  // expected grouping from the uncollapsed ranking
  let mut group_order: Vec<String> = Vec::new();
  let mut members: BTreeMap<String, Vec<String>> = BTreeMap::new();
  let mut missing = 0usize;
  for id in &refs[&sort_key(&main_sort)].order {
    match g_of(id) {
      Some(g) => {
        if !members.contains_key(&g) {
          group_order.push(g.clone());
        }
        members.entry(g).or_default().push(id.clone());
      }
      None => missing += 1,
    }
  }

  let res = search_caught(reader, &req(reqj.clone())).map_err(|e| un(format!("collapsed request failed: {e}")))?;
  let rm_total = refs[&sort_key(&main_sort)].total;
  if res.total_hits_estimate != rm_total {
    return Err(un(format!("total_hits_estimate {} with collapse but {} without (README: the overall hit count still reflects all matching documents)", res.total_hits_estimate, rm_total)));
  }
  if res.hits.len() > limit {
    return Err(un(format!("{} hits for limit {limit}", res.hits.len())));
  }
  // observed, restricted to hits that have a collapse value (documents without one: not demanded)
  let mut obs: Obs = Vec::new();
  let mut all_scores_zero = true;
  for h in &res.hits {
    let inner: Vec<String> = h.inner_hits.as_ref().map(|v| v.iter().map(|x| x.doc_id.clone()).collect()).unwrap_or_default();
    all_scores_zero &= h.score == 0.0 && h.inner_hits.as_ref().map(|v| v.iter().all(|x| x.score == 0.0)).unwrap_or(true);
    match g_of(&h.doc_id) {
      Some(g) => obs.push((g, h.doc_id.clone(), inner)),
      None => {
        // not demanded whether such a document is returned, but it can never carry members of a group
        if inner.iter().any(|i| g_of(i).is_some()) {
          return Err(un(format!("hit {} has no collapse value but its inner_hits {:?} contain documents of a group", h.doc_id, inner)));
        }
      }
    }
  }
  let c = Case { n, limit, has_inner: inner_cfg.is_some(), from, size, rm: &refs[&sort_key(&main_sort)], obs: &obs, group_order: &group_order, members: &members, missing, total_groups: res.total_groups, g_of: &g_of };
  match judge(&c, &refs[&sort_key(&inner_sort)], true) {
    Ok(o) => Ok(o),
    Err(f) => {
      // Narrow classifier for one established defect: when the request sort does not mention
      // `_score` the segment search runs in match-only mode and every hit carries score 0, so an
      // inner sort on `_score` has nothing to sort by. Explained iff (1) the main sort has no
      // `_score`, (2) the inner sort has, (3) every score in the response is 0, (4) the failure is
      // only about inner order / window position, and (5) the response is exactly right once
      // `_score` is treated as constant in the inner sort.
      if f.kind == Kind::InnerOrder && !has_score(&main_sort) && has_score(&inner_sort) && all_scores_zero {
        let rest: Vec<Value> = inner_sort.as_array().map(|a| a.iter().filter(|s| s["field"] != "_score").cloned().collect()).unwrap_or_default();
        let alt = if rest.is_empty() {
          let rm = &refs[&sort_key(&main_sort)];
          Ref { order: rm.order.clone(), pos: rm.pos.clone(), class: rm.order.iter().map(|i| (i.clone(), 0)).collect(), total: rm.total }
        } else {
          reference(reader, &docs, query, &Value::Array(rest)).map_err(un)?
        };
        if judge(&c, &alt, false).is_ok() {
          return Err((Some(SIG_INNER_SCORE), f.what));
        }
      }
      // Second established defect: on the score fast path (sort = `_score` desc only) every segment
      // contributes its own top-(limit+1) candidates and the merged list is collapsed without being
      // cut back to the global top-(limit+1), so with limit < n a group can be represented by, or
      // ordered after, documents that only the per-segment surplus brought in. Explained iff
      // limit < n, >= 2 segments, fast-path sort, and the whole response (representatives and inner
      // hits) equals what collapsing the per-segment candidates yields while collapsing the global
      // top-(limit+1) would yield something else.
      if limit < n && world.layout.len() >= 2 && fast_path(&main_sort) {
        let rm = &refs[&sort_key(&main_sort)];
        let ri = &refs[&sort_key(&inner_sort)];
        let mut seg_of: HashMap<&str, usize> = HashMap::new();
        let mut i = 0;
        for (si, k) in world.layout.iter().enumerate() {
          for d in &world.docs[i..i + k] {
            seg_of.insert(d["_id"].as_str().unwrap(), si);
          }
          i += k;
        }
        let collapse_list = |cands: &[String]| -> Obs {
          let mut order: Vec<String> = Vec::new();
          let mut mem: BTreeMap<String, Vec<String>> = BTreeMap::new();
          for id in cands {
            if let Some(g) = g_of(id) {
              if !mem.contains_key(&g) {
                order.push(g.clone());
              }
              mem.entry(g).or_default().push(id.clone());
            }
          }
          let mut out: Obs = Vec::new();
          for g in order.into_iter().take(limit) {
            let m = &mem[&g];
            let mut others: Vec<String> = m[1..].to_vec();
            others.sort_by_key(|id| ri.pos[id]);
            let inner: Vec<String> = if inner_cfg.is_some() {
              let mut v: Vec<String> = others.into_iter().skip(from).collect();
              if let Some(z) = size {
                v.truncate(z);
              }
              v
            } else {
              vec![]
            };
            out.push((g, m[0].clone(), inner));
          }
          out
        };
        let global: Vec<String> = rm.order.iter().take(limit + 1).cloned().collect();
        let mut per_seg: Vec<String> = Vec::new();
        for si in 0..world.layout.len() {
          per_seg.extend(rm.order.iter().filter(|id| seg_of[id.as_str()] == si).take(limit + 1).cloned());
        }
        per_seg.sort_by_key(|id| rm.pos[id]);
        let predicted = collapse_list(&per_seg);
        if predicted == obs && predicted != collapse_list(&global) {
          return Err((Some(SIG_SEG_TOPK), f.what));
        }
      }
      Err((None, f.what))
    }
  }
}

/// Rescore variants: (score_mode, weight of the rescore function_score over match_all). The first-pass
/// scores of the worlds lie between 0.05 and 2, so `multiply` by 0.5 and `min` with 0.05 lower the
/// window hits, often below the hits behind the window (the candidate list is then no longer in key
/// order; measured in the evidence), while `total` raises them.
fn rescore_variants() -> Vec<Value> {
  let mut out = Vec::new();
  for w in 1..=3usize {
    for (mode, weight) in [("multiply", 0.5), ("min", 0.05), ("total", 0.5)] {
      out.push(json!({"window_size": w, "score_mode": mode,
        "query": {"type": "function_score", "query": {"type": "match_all"}, "functions": [{"type": "weight", "weight": weight}]}}));
    }
  }
  out
}

/// Compare two documents under a sort plan using the final (rescored) scores `fs` for `_score` and,
/// for a field, the implementation's own ordering of that field (tie classes of the uncollapsed,
/// un-rescored ranking sorted by that field alone).
fn cmp_plan(a: &str, b: &str, specs: &[Value], fs: &HashMap<String, f32>, refs: &HashMap<String, Ref>) -> std::cmp::Ordering {
  use std::cmp::Ordering::*;
  for s in specs {
    let f = s["field"].as_str().unwrap_or("");
    let o = if f == "_score" {
      let (x, y) = (fs[a], fs[b]);
      if approx(x, y, 1e-5) {
        Equal
      } else {
        let asc = s.get("order").map(|o| o == "asc").unwrap_or(false);
        let c = x.partial_cmp(&y).unwrap_or(Equal);
        if asc {
          c
        } else {
          c.reverse()
        }
      }
    } else {
      let r = &refs[&sort_key(&json!([s]))];
      r.class[a].cmp(&r.class[b])
    };
    if o != Equal {
      return o;
    }
  }
  Equal
}

/// Collapse combined with a rescore whose window is smaller than the candidate pool. README:
/// "ordering outside the window is unchanged", so the candidate list is not globally ordered and the
/// order of groups is not judged. Judged (statement): at most one hit per value; every inner hit is
/// another member of its representative's group; the representative is the best-ranked member of
/// its group under the request sort with the rescored scores (taken from the same rescored request
/// without collapse); inner hits follow the inner sort and the from/size window.
fn check_rescored(reader: &IndexReader, world: &World, reqj: &Value, refs: &mut HashMap<String, Ref>) -> Result<Outcome, String> {
  let docs: HashMap<String, Value> = world.docs.iter().map(|d| (d["_id"].as_str().unwrap().to_string(), d.clone())).collect();
  let n = docs.len();
  let query = &reqj["query"];
  let main_sort = reqj.get("sort").cloned().unwrap_or(json!([]));
  let collapse = &reqj["collapse"];
  let inner_cfg = collapse.get("inner_hits").filter(|v| !v.is_null());
  let inner_sort: Value = inner_cfg.and_then(|c| c.get("sort").cloned()).unwrap_or(json!([]));
  let from = inner_cfg.and_then(|c| c.get("from")).and_then(|v| v.as_u64()).unwrap_or(0) as usize;
  let size: Option<usize> = inner_cfg.and_then(|c| c.get("size")).and_then(|v| v.as_u64()).map(|x| x as usize);
  let limit = reqj["limit"].as_u64().unwrap_or(0) as usize;
  let specs_of = |s: &Value| -> Vec<Value> {
    match s.as_array() {
      Some(a) if !a.is_empty() => a.clone(),
      _ => vec![json!({"field": "_score"})],
    }
  };
  let (main_specs, inner_specs) = (specs_of(&main_sort), specs_of(&inner_sort));
  // the implementation's ordering of each sort field (un-rescored, uncollapsed)
  for s in main_specs.iter().chain(inner_specs.iter()) {
    if s["field"] != "_score" {
      let one = json!([s]);
      let k = sort_key(&one);
      if !refs.contains_key(&k) {
        let r = reference(reader, &docs, query, &one)?;
        refs.insert(k, r);
      }
    }
  }
  // the same rescored request without collapse, covering the corpus: final scores and list order
  let rk = format!("rescored:{}:{}", sort_key(&main_sort), reqj["rescore"]);
  if !refs.contains_key(&rk) {
    let r = search_caught(reader, &req(json!({"query": query, "sort": main_sort, "rescore": reqj["rescore"], "limit": n}))).map_err(|e| format!("uncollapsed rescored reference failed: {e}"))?;
    if r.hits.len() != n {
      return Err(format!("uncollapsed rescored reference (limit {n}) returned {} of {n} documents", r.hits.len()));
    }
    let order: Vec<String> = r.hits.iter().map(|h| h.doc_id.clone()).collect();
    let pos: HashMap<String, usize> = order.iter().enumerate().map(|(i, x)| (x.clone(), i)).collect();
    // `class` carries the final score bits (decoded below); tie classes are not used for this Ref
    let class: HashMap<String, usize> = r.hits.iter().map(|h| (h.doc_id.clone(), h.score.to_bits() as usize)).collect();
    refs.insert(rk.clone(), Ref { order, pos, class, total: r.total_hits_estimate });
  }
  let rr = &refs[&rk];
  let fs: HashMap<String, f32> = rr.class.iter().map(|(k, v)| (k.clone(), f32::from_bits(*v as u32))).collect();
  let g_of = |id: &str| -> Option<String> { docs.get(id).and_then(|d| d.get("g")).and_then(|v| v.as_str()).map(|s| s.to_string()) };
  let mut members: BTreeMap<String, Vec<String>> = BTreeMap::new();
  let mut first_seen: Vec<String> = Vec::new();
  let mut missing = 0usize;
  for id in &rr.order {
    match g_of(id) {
      Some(g) => {
        if !members.contains_key(&g) {
          first_seen.push(g.clone());
        }
        members.entry(g).or_default().push(id.clone());
      }
      None => missing += 1,
    }
  }
  let res = search_caught(reader, &req(reqj.clone())).map_err(|e| format!("collapsed rescored request failed: {e}"))?;
  if res.hits.len() > limit {
    return Err(format!("{} hits for limit {limit}", res.hits.len()));
  }
  let mut obs: Obs = Vec::new();
  for h in &res.hits {
    let inner: Vec<String> = h.inner_hits.as_ref().map(|v| v.iter().map(|x| x.doc_id.clone()).collect()).unwrap_or_default();
    match g_of(&h.doc_id) {
      Some(g) => obs.push((g, h.doc_id.clone(), inner)),
      None => {
        if inner.iter().any(|i| g_of(i).is_some()) {
          return Err(format!("hit {} has no collapse value but its inner_hits {:?} contain documents of a group", h.doc_id, inner));
        }
      }
    }
  }
  let scores_s = || rr.order.iter().map(|i| format!("{i}={}", fs[i])).collect::<Vec<_>>().join(" ");
  let full = limit >= n;
  let mut seen_g: HashSet<&str> = HashSet::new();
  for (g, rep, inner) in &obs {
    if !seen_g.insert(g.as_str()) {
      return Err(format!("two hits for collapse value {g}: observed {}", show(&obs)));
    }
    let mut seen_i: HashSet<&str> = HashSet::new();
    for i in inner {
      if i == rep {
        return Err(format!("inner_hits of {rep} contain the representative itself: observed {}", show(&obs)));
      }
      if g_of(i).as_deref() != Some(g.as_str()) {
        return Err(format!("inner_hits of {rep} (group {g}) contain {i}, a document of group {:?}: observed {} ; rescored uncollapsed list {}", g_of(i), show(&obs), scores_s()));
      }
      if !seen_i.insert(i.as_str()) {
        return Err(format!("inner_hits of {rep} contain {i} twice: observed {}", show(&obs)));
      }
    }
    if inner_cfg.is_none() && !inner.is_empty() {
      return Err(format!("inner_hits returned although the request has none: observed {}", show(&obs)));
    }
    if let Some(s) = size {
      if inner.len() > s {
        return Err(format!("inner_hits of {rep} has {} entries for size {s}: observed {}", inner.len(), show(&obs)));
      }
    }
    for w in inner.windows(2) {
      if cmp_plan(&w[1], &w[0], &inner_specs, &fs, refs) == std::cmp::Ordering::Less {
        return Err(format!("inner_hits of {rep} are not ordered by the inner sort with the rescored scores: {:?} ; rescored uncollapsed list {}", inner, scores_s()));
      }
    }
    if full {
      // the whole corpus is in the candidate pool: the representative is its group's best
      if let Some(better) = members[g].iter().find(|m| cmp_plan(m, rep, &main_specs, &fs, refs) == std::cmp::Ordering::Less) {
        return Err(format!("hit {rep} represents group {g} but {better} of the same group ranks strictly better under the request sort after rescoring: observed {} ; rescored uncollapsed list {}", show(&obs), scores_s()));
      }
      let others: Vec<&String> = members[g].iter().filter(|m| *m != rep).collect();
      let exp_len = if inner_cfg.is_none() {
        0
      } else {
        let avail = others.len().saturating_sub(from);
        size.map(|s| s.min(avail)).unwrap_or(avail)
      };
      if inner.len() != exp_len {
        return Err(format!("inner_hits of {rep} (group {g}) has {} entries, expected {exp_len} (other members {:?}, from {from}, size {:?}): observed {}", inner.len(), others, size, show(&obs)));
      }
      for (j, x) in inner.iter().enumerate() {
        let p = from + j;
        let less = others.iter().filter(|o| cmp_plan(o, x, &inner_specs, &fs, refs) == std::cmp::Ordering::Less).count();
        let leq = others.iter().filter(|o| cmp_plan(o, x, &inner_specs, &fs, refs) != std::cmp::Ordering::Greater).count();
        if !(less <= p && p < leq) {
          return Err(format!("inner_hits of {rep} (group {g}): {x} cannot stand at position {p} of the group's other members under the inner sort with the rescored scores: observed {} ; rescored uncollapsed list {}", show(&obs), scores_s()));
        }
      }
    }
  }
  if full {
    if obs.len() != members.len() {
      return Err(format!("{} hits with a collapse value but the matching documents have {} distinct values: observed {}", obs.len(), members.len(), show(&obs)));
    }
    let v = members.len();
    let tg_ok = match res.total_groups.map(|x| x as usize) {
      Some(t) => t == v || (missing > 0 && (t == v + 1 || t == v + missing)),
      None => false,
    };
    if !tg_ok {
      return Err(format!("total_groups {:?} but the matching documents have {v} distinct collapse values", res.total_groups));
    }
  }
  // how hard the case is: is the rescored candidate list out of key order, and would ordering the
  // representatives by key permute the groups?
  let unordered = rr.order.windows(2).any(|w| cmp_plan(&w[1], &w[0], &main_specs, &fs, refs) == std::cmp::Ordering::Less);
  let best_of = |g: &String| -> &String { members[g].iter().fold(&members[g][0], |b, m| if cmp_plan(m, b, &main_specs, &fs, refs) == std::cmp::Ordering::Less { m } else { b }) };
  let differs = first_seen.windows(2).any(|w| cmp_plan(best_of(&w[1]), best_of(&w[0]), &main_specs, &fs, refs) == std::cmp::Ordering::Less);
  Ok(Outcome {
    groups: obs.len(),
    collapsed_away: n.saturating_sub(missing).saturating_sub(obs.len()),
    inner_total: obs.iter().map(|o| o.2.len()).sum(),
    tie_divergence: false,
    total_groups_short: false,
    rescore_unordered: unordered,
    rescore_first_seen_differs: differs && full,
    orders_disagree: false,
  })
}

/// All collapsed requests for a world of n documents, simplest first.
fn requests(n: usize) -> Vec<Value> {
  let mut limits = vec![n];
  for l in [1usize, 2] {
    if l < n {
      limits.push(l);
    }
  }
  let mut out = Vec::new();
  for (mi, m) in main_plans().iter().enumerate() {
    let mut inners: Vec<Option<Value>> = vec![None];
    let mut sorts: Vec<Option<Value>> = inner_plans().into_iter().map(Some).collect();
    if mi == 0 {
      // inner_hits without its own sort: only under the default main sort, where "request sort" and
      // "default sort" coincide
      sorts.push(None);
    }
    for s in sorts {
      for from in [None, Some(1), Some(2)] {
        for size in [None, Some(0), Some(1), Some(2)] {
          let mut ih = json!({});
          if let Some(s) = &s {
            ih["sort"] = s.clone();
          }
          if let Some(f) = from {
            ih["from"] = json!(f);
          }
          if let Some(z) = size {
            ih["size"] = json!(z);
          }
          inners.push(Some(ih));
        }
      }
    }
    // from: 0 spelled out once
    inners.push(Some(json!({"from": 0, "size": 1, "sort": inner_plans()[1]})));
    for ih in inners {
      for l in &limits {
        let mut c = json!({"field": "g"});
        if let Some(ih) = &ih {
          c["inner_hits"] = ih.clone();
        }
        out.push(json!({"query": "a", "sort": m, "collapse": c, "limit": l, "execution": "bm25"}));
      }
    }
  }
  // collapse + inner_hits combined with a rescore window (1..3) that is smaller than the pool
  if n >= 2 {
    let ip = inner_plans();
    let inner_cfgs = [json!({"sort": ip[0]}), json!({"sort": ip[1], "from": 1}), json!({"sort": ip[2], "size": 1})];
    let mut lims = vec![n];
    if n > 2 {
      lims.push(2);
    }
    for m in [&main_plans()[0], &main_plans()[2]] {
      for rs in rescore_variants() {
        for ih in &inner_cfgs {
          for l in &lims {
            out.push(json!({"query": "a", "sort": m, "collapse": {"field": "g", "inner_hits": ih}, "rescore": rs, "limit": l, "execution": "bm25"}));
          }
        }
      }
    }
  }
  out
}

/// Sort keys of the pair family.
fn sort_keys() -> Vec<Value> {
  let mut v = Vec::new();
  for f in ["_score", "n", "kw"] {
    for o in if f == "_score" { ["desc", "asc"] } else { ["asc", "desc"] } {
      v.push(json!({"field": f, "order": o}));
    }
  }
  v
}

/// inner is a permutation of main's (field, order) pairs but not the same sequence
fn is_nonidentical_permutation(main: &[Value], inner: &[Value]) -> bool {
  if main.len() != inner.len() || main == inner {
    return false;
  }
  let mut a: Vec<String> = main.iter().map(|x| x.to_string()).collect();
  let mut b: Vec<String> = inner.iter().map(|x| x.to_string()).collect();
  a.sort();
  b.sort();
  a == b
}

/// The sort-pair family: the request sort and the inner_hits sort both range over ALL ordered
/// sequences of length 0..max_len over {_score, n, kw} x {asc, desc} (repeated keys included), so
/// every relation between the two occurs: identical, permutation, prefix, one order flipped,
/// unrelated. Other dimensions shrink with the total number of keys k = |main| + |inner|:
///   k <= 2: from {0,1} x size {1,2,all} x limit {n,1,2};
///   k = 3 : from {0,1} x size {1,2,all} at limit n, (0,all) at limits 1,2;
///   k = 4 : (0,all) (1,1) (1,2) at limit n, (0,all) at limit 2;
///   k >= 5: (0,all) (1,1) at limit n.
/// An inner_hits without its own sort (length 0) is only combined with main sorts [] and
/// [_score desc] (fallback sort undocumented otherwise). Returns (requests, skipped pairs).
fn pair_requests(n: usize, max_len: usize) -> (Vec<Value>, usize) {
  let plans = sequences(&sort_keys(), 0, max_len);
  let default_main = vec![json!({"field": "_score", "order": "desc"})];
  let mut out = Vec::new();
  let mut skipped = 0;
  for main in &plans {
    for inner in &plans {
      if inner.is_empty() && !(main.is_empty() || *main == default_main) {
        skipped += 1;
        continue;
      }
      let k = main.len() + inner.len();
      let all_w: Vec<(usize, Option<usize>)> = vec![(0, None), (0, Some(1)), (0, Some(2)), (1, None), (1, Some(1)), (1, Some(2))];
      let mut combos: Vec<(usize, Option<usize>, usize)> = Vec::new(); // from, size, limit
      match k {
        0..=2 => {
          for l in [n, 1, 2] {
            for (f, z) in &all_w {
              combos.push((*f, *z, l));
            }
          }
        }
        3 => {
          for (f, z) in &all_w {
            combos.push((*f, *z, n));
          }
          combos.push((0, None, 1));
          combos.push((0, None, 2));
        }
        4 => {
          combos.extend([(0, None, n), (1, Some(1), n), (1, Some(2), n), (0, None, 2)]);
        }
        _ => {
          combos.extend([(0, None, n), (1, Some(1), n)]);
        }
      }
      let mut seen_l: HashSet<(usize, Option<usize>, usize)> = HashSet::new();
      for (f, z, l) in combos {
        if l > n || (l < n && l == 0) || !seen_l.insert((f, z, l)) {
          continue;
        }
        let mut ih = json!({"from": f});
        if !inner.is_empty() {
          ih["sort"] = json!(inner);
        }
        if let Some(z) = z {
          ih["size"] = json!(z);
        }
        out.push(json!({"query": "a", "sort": main, "collapse": {"field": "g", "inner_hits": ih}, "limit": l, "execution": "bm25"}));
      }
    }
  }
  (out, skipped)
}

/// Worlds of the pair family: some group has >= 3 members carrying >= 2 distinct `n` values and
/// >= 2 distinct `kw` values (so the n-order and the kw-order of its members can disagree).
fn pair_world(w: &World) -> bool {
  let mut groups: BTreeMap<String, Vec<&Value>> = BTreeMap::new();
  for d in &w.docs {
    if let Some(g) = d.get("g").and_then(|v| v.as_str()) {
      groups.entry(g.to_string()).or_default().push(d);
    }
  }
  groups.values().any(|m| {
    let ns: HashSet<String> = m.iter().filter_map(|d| d.get("n")).map(|v| v.to_string()).collect();
    let ks: HashSet<String> = m.iter().filter_map(|d| d.get("kw")).map(|v| v.to_string()).collect();
    m.len() >= 3 && ns.len() >= 2 && ks.len() >= 2
  })
}

fn case_json(world: &World, r: &Value) -> Value {
  json!({"engine": "inputmc-collapse", "world": world.to_json(), "request": r})
}

fn brief(world: &World) -> String {
  let ds: Vec<String> = world
    .docs
    .iter()
    .map(|d| format!("{}(g={},body={},n={},kw={})", d["_id"].as_str().unwrap(), d.get("g").map(|v| v.to_string()).unwrap_or("-".into()), d["body"], d.get("n").map(|v| v.to_string()).unwrap_or("-".into()), d.get("kw").map(|v| v.to_string()).unwrap_or("-".into())))
    .collect();
  format!("docs [{}] layout {:?}", ds.join(", "), world.layout)
}

pub fn run(ctx: &Ctx) -> i32 {
  let mut rep = Reporter::new("C18", ctx.tier, "exploration");
  let quick = ctx.tier.is_quick();
  if let Some(path) = &ctx.replay {
    rep.set_replaying(true);
    let v: Value = serde_json::from_slice(&std::fs::read(path).expect("replay file")).expect("json");
    let cs = &v["case"];
    let world = World::from_json(&cs["world"]);
    let run = || {
      let idx = world.build();
      let reader = idx.reader().expect("reader");
      check(&reader, &world, &cs["request"], &mut HashMap::new()).err()
    };
    let (a, b) = (run(), run());
    if a.is_some() != b.is_some() {
      vcore::ev::machinery_failure("NONDETERMINISM on replay");
    }
    return match a {
      Some((sig, w)) => {
        println!("VIOLATION property=C18 replay={path}\n  signature: {}\n  what: {w}", sig.unwrap_or("-"));
        1
      }
      None => {
        println!("replay: no violation");
        0
      }
    };
  }

  // worlds, simplest first
  let nv = variants().len();
  let full_n: Vec<usize> = if quick { vec![1, 2, 3] } else { vec![1, 2, 3, 4] };
  let pattern_n: Vec<usize> = if quick { vec![4] } else { vec![5, 6] };
  let mut worlds: Vec<World> = Vec::new();
  for &n in &full_n {
    let vseqs = sequences(&(0..nv).collect::<Vec<_>>(), n, n);
    for gs in group_seqs(n) {
      for vs in &vseqs {
        for lay in layouts(n) {
          worlds.push(mk_world(&gs, vs, &lay));
        }
      }
    }
  }
  for &n in &pattern_n {
    let lays: Vec<Vec<usize>> = if quick { vec![vec![n], vec![1, n - 1], vec![n / 2, n - n / 2]] } else { layouts(n) };
    for gs in group_seqs(n) {
      for p in patterns(!quick) {
        for lay in &lays {
          worlds.push(mk_world(&gs, &p[..n], lay));
        }
      }
    }
  }
  if quick {
    // a thin n = 5 slice: the smallest worlds in which per-segment candidate lists matter
    for gs in group_seqs(5) {
      for p in [[3usize, 1, 3, 1, 0], [2, 0, 0, 0, 0]] {
        worlds.push(mk_world(&gs, &p, &[1, 4]));
      }
    }
  }
  // pair-family worlds (a world may also be in the base list; the two request families are disjoint
  // runs): n = 3 one group, all variant sequences; n = 4 (quick, thorough) and n = 5 (thorough) with a
  // group of >= 3, fixed variant patterns; layouts [n] and one split
  let mut pair_worlds: Vec<World> = Vec::new();
  {
    let vseqs3 = sequences(&(0..nv).collect::<Vec<_>>(), 3, 3);
    for vs in &vseqs3 {
      for lay in [vec![3], vec![1, 2]] {
        pair_worlds.push(mk_world(&[Some(0), Some(0), Some(0)], vs, &lay));
      }
    }
    let big: Vec<usize> = if quick { vec![4] } else { vec![4, 5] };
    for n in big {
      for gs in group_seqs(n) {
        if !(0..3u8).any(|l| gs.iter().filter(|x| **x == Some(l)).count() >= 3) {
          continue;
        }
        // n = 4: all patterns of the tier; n = 5 (thorough): the first four patterns
        let pats = patterns(!quick);
        for p in pats.iter().take(if n == 4 { pats.len() } else { 4 }) {
          for lay in [vec![n], vec![n / 2, n - n / 2]] {
            pair_worlds.push(mk_world(&gs, &p[..n], &lay));
          }
        }
      }
    }
    pair_worlds.retain(pair_world);
  }
  let max_len = if quick { 2 } else { 3 };
  let mut pair_skipped = 0usize;
  let pair_reqs_by_n: HashMap<usize, Vec<Value>> = (3..=5)
    .map(|n| {
      let (r, sk) = pair_requests(n, max_len);
      pair_skipped = sk;
      (n, r)
    })
    .collect();
  let n_plans = sequences(&sort_keys(), 0, max_len).len();
  let perm_pairs = {
    let plans = sequences(&sort_keys(), 0, max_len);
    plans.iter().map(|m| plans.iter().filter(|i| is_nonidentical_permutation(m, i)).count()).sum::<usize>()
  };
  if std::env::var("C18_COUNTS").is_ok() {
    println!("pair worlds {} pair requests(n=3) {} (n=4) {} plans {} perm pairs {} skipped pairs {}", pair_worlds.len(), pair_reqs_by_n[&3].len(), pair_reqs_by_n[&4].len(), n_plans, perm_pairs, pair_skipped);
    println!("worlds {} requests(n=4) {} requests(n=6) {}", worlds.len(), requests(4).len(), requests(6).len());
    return 0;
  }

  let evals = AtomicU64::new(0);
  let nontrivial = AtomicU64::new(0);
  let full_cases = AtomicU64::new(0);
  let tie_div = AtomicU64::new(0);
  let tg_short = AtomicU64::new(0);
  let resc_cases = AtomicU64::new(0);
  let resc_unordered = AtomicU64::new(0);
  let resc_differs = AtomicU64::new(0);
  let outcomes: Mutex<HashSet<(usize, usize, usize)>> = Mutex::new(HashSet::new());
  let kept: Mutex<Vec<(usize, Option<&'static str>, String, Value)>> = Mutex::new(Vec::new());
  let fail_counts: Mutex<BTreeMap<String, u64>> = Mutex::new(BTreeMap::new());
  let sent_known = AtomicBool::new(false);
  let seg_topk_no_missing = AtomicU64::new(0);
  let seg_topk_witness: Mutex<Option<String>> = Mutex::new(None);
  let deadline: f64 = std::env::var("VERIF_DEADLINE_S").ok().and_then(|v| v.parse().ok()).unwrap_or(if quick { 33.0 } else { 840.0 });
  let timed_out = AtomicBool::new(false);
  let worlds_done = AtomicU64::new(0);
  let reqs_by_n: HashMap<usize, Vec<Value>> = (1..=6).map(|n| (n, requests(n))).collect();

  // per pair request: is the inner sort a non-identical permutation of the request sort?
  let pair_perm_by_n: HashMap<usize, Vec<bool>> = pair_reqs_by_n
    .iter()
    .map(|(n, v)| {
      let flags = v
        .iter()
        .map(|r| {
          let m = r["sort"].as_array().cloned().unwrap_or_default();
          let i = r["collapse"]["inner_hits"]["sort"].as_array().cloned().unwrap_or_default();
          is_nonidentical_permutation(&m, &i)
        })
        .collect();
      (*n, flags)
    })
    .collect();
  let pair_cases = AtomicU64::new(0);
  let pair_disagree = AtomicU64::new(0);
  let perm_cases = AtomicU64::new(0);
  let perm_disagree = AtomicU64::new(0);
  // tasks: base family on the base worlds, then the pair family on the pair worlds (the pair worlds
  // are interleaved early enough to be reached under a tight wall budget)
  let mut tasks: Vec<(&World, bool)> = Vec::new();
  {
    let split = worlds.len().min(if quick { 1500 } else { worlds.len() / 8 });
    tasks.extend(worlds[..split].iter().map(|w| (w, false)));
    tasks.extend(pair_worlds.iter().map(|w| (w, true)));
    tasks.extend(worlds[split..].iter().map(|w| (w, false)));
  }

  for chunk in tasks.chunks(2048) {
    chunk.par_iter().for_each(|(world, pair_family)| {
      let (world, pair_family) = (*world, *pair_family);
      if rep.elapsed_s() > deadline {
        timed_out.store(true, Ordering::Relaxed);
        return;
      }
      let idx = world.build();
      let reader = idx.reader().expect("reader");
      let n = world.docs.len();
      let mut refs: HashMap<String, Ref> = HashMap::new();
      let mut local: HashSet<(usize, usize, usize)> = HashSet::new();
      let (mut ev, mut nt, mut fc, mut td, mut ts, mut rc, mut ru, mut rd) = (0u64, 0u64, 0u64, 0u64, 0u64, 0u64, 0u64, 0u64);
      let (mut pc, mut pd, mut qc, mut qd) = (0u64, 0u64, 0u64, 0u64);
      let reqs: &Vec<Value> = if pair_family { &pair_reqs_by_n[&n] } else { &reqs_by_n[&n] };
      for (ri_, r) in reqs.iter().enumerate() {
        ev += 1;
        let is_perm = pair_family && pair_perm_by_n[&n][ri_];
        match check(&reader, world, r, &mut refs) {
          Ok(o) => {
            if o.collapsed_away > 0 && o.inner_total > 0 {
              nt += 1;
              if !rep.sample_full() && r["limit"].as_u64() == Some(n as u64) && n >= 4 {
                rep.sample(json!({"world": brief(world), "request": r, "groups_returned": o.groups, "inner_hits_total": o.inner_total}));
              }
            }
            if r["limit"].as_u64().unwrap_or(0) as usize >= n {
              fc += 1;
            }
            if pair_family {
              pc += 1;
              if o.orders_disagree {
                pd += 1;
              }
              if is_perm {
                qc += 1;
                if o.orders_disagree {
                  qd += 1;
                }
              }
            }
            if r.get("rescore").is_some() {
              rc += 1;
              if o.rescore_unordered {
                ru += 1;
              }
              if o.rescore_first_seen_differs {
                rd += 1;
              }
            }
            if o.tie_divergence {
              td += 1;
              if std::env::var("C18_SHOW_TIES").is_ok() {
                println!("TIE-DIVERGENCE {} request {}", brief(world), r);
              }
            }
            if o.total_groups_short {
              ts += 1;
            }
            local.insert((o.groups, o.collapsed_away.min(9), o.inner_total.min(9)));
          }
          Err((sig, what)) => {
            if sig == Some(SIG_SEG_TOPK) && world.docs.iter().all(|d| d.get("g").is_some()) {
              seg_topk_no_missing.fetch_add(1, Ordering::Relaxed);
              let mut w = seg_topk_witness.lock();
              if w.is_none() {
                *w = Some(format!("{} -- {} request {}", what, brief(world), r));
              }
            }
            let label = sig.unwrap_or("unexplained");
            *fail_counts.lock().entry(label.to_string()).or_default() += 1;
            if let Some(s) = sig {
              if rep.is_known_open(s) {
                if !sent_known.swap(true, Ordering::SeqCst) {
                  rep.fail(Some(s), &format!("{} -- {} request {}", what, brief(world), r), case_json(world, r));
                } else {
                  rep.fail(Some(s), "", Value::Null);
                }
                continue;
              }
            }
            let key = n * 1000 + r.to_string().len();
            let mut k = kept.lock();
            let same: Vec<usize> = k.iter().enumerate().filter(|(_, x)| x.1 == sig).map(|(i, _)| i).collect();
            if same.len() < 5 {
              k.push((key, sig, format!("{} -- {} request {}", what, brief(world), r), case_json(world, r)));
            } else if let Some(wi) = same.iter().max_by_key(|i| k[**i].0).copied() {
              if key < k[wi].0 {
                k[wi] = (key, sig, format!("{} -- {} request {}", what, brief(world), r), case_json(world, r));
              }
            }
          }
        }
      }
      evals.fetch_add(ev, Ordering::Relaxed);
      nontrivial.fetch_add(nt, Ordering::Relaxed);
      full_cases.fetch_add(fc, Ordering::Relaxed);
      tie_div.fetch_add(td, Ordering::Relaxed);
      tg_short.fetch_add(ts, Ordering::Relaxed);
      resc_cases.fetch_add(rc, Ordering::Relaxed);
      resc_unordered.fetch_add(ru, Ordering::Relaxed);
      resc_differs.fetch_add(rd, Ordering::Relaxed);
      pair_cases.fetch_add(pc, Ordering::Relaxed);
      pair_disagree.fetch_add(pd, Ordering::Relaxed);
      perm_cases.fetch_add(qc, Ordering::Relaxed);
      perm_disagree.fetch_add(qd, Ordering::Relaxed);
      worlds_done.fetch_add(1, Ordering::Relaxed);
      let mut o = outcomes.lock();
      for x in local {
        o.insert(x);
      }
    });
  }
  rep.add_evals(evals.load(Ordering::Relaxed));
  // report the smallest kept failures: unexplained first, classes interleaved
  let mut k = std::mem::take(&mut *kept.lock());
  k.sort_by(|a, b| (a.1.is_some(), a.0).cmp(&(b.1.is_some(), b.0)));
  let mut rank: HashMap<Option<&str>, usize> = HashMap::new();
  let mut ranked: Vec<(usize, usize)> = Vec::new();
  for (i, x) in k.iter().enumerate() {
    let r = rank.entry(x.1).or_insert(0);
    ranked.push((*r, i));
    *r += 1;
  }
  ranked.sort();
  let mut reported: BTreeMap<String, u64> = BTreeMap::new();
  for (_, i) in ranked {
    let x = &k[i];
    rep.fail(x.1, &x.2, x.3.clone());
    *reported.entry(x.1.unwrap_or("unexplained").to_string()).or_default() += 1;
  }
  let counts = fail_counts.lock().clone();
  for (label, cnt) in &counts {
    let sig = if label == "unexplained" { None } else { Some(label.as_str()) };
    if let Some(s) = sig {
      if rep.is_known_open(s) {
        continue;
      }
    }
    for _ in reported.get(label).copied().unwrap_or(0)..*cnt {
      rep.fail(sig, "(further case of the same class)", Value::Null);
    }
  }
  let to = timed_out.load(Ordering::Relaxed);
  let n_out = outcomes.lock().len();
  if n_out < 2 || nontrivial.load(Ordering::Relaxed) == 0 {
    vcore::ev::machinery_failure("C18 vacuous: collapse never removed a hit or never produced inner hits");
  }
  let cov = vcore::cov! {
    "distinct_nontrivial" => nontrivial.load(Ordering::Relaxed),
    "rule" => "cases = world x collapsed request; a case is non-trivial when collapse removed at least one matching document from the top-level hits and at least one inner_hits list is non-empty. Worlds: every canonical assignment of <= 3 group values (sizes 1-4) or no value to n documents x document variants (2 score levels x n in {1,2,missing} x kw in {p,q,missing}) x 1-2 segment layouts; all 4^n variant sequences for the small n, 8 (quick) / 17 (thorough) fixed tie-prone variant patterns for the larger n. Requests: 4 main sorts x (no inner_hits | 3 inner sorts [+ inner_hits without sort under the default main sort] x from {absent,1,2} x size {absent,0,1,2}) x limit {n,1,2}, query `a` (matches every document), execution bm25.",
    "worlds" => worlds.len() + pair_worlds.len(),
    "sort_pair_family" => json!({
      "rule": format!("request sort and inner_hits sort each range over all {} ordered sequences of length 0..{} over {{_score,n,kw}} x {{asc,desc}} (every pair; {} pairs with an inner_hits without own sort under a non-default request sort left out); windows/limits reduced with the total key count k: k<=2 from{{0,1}} x size{{1,2,all}} x limit{{n,1,2}}; k=3 the six windows at limit n + (0,all) at limits 1,2; k=4 (0,all),(1,1),(1,2) at limit n + (0,all) at limit 2; k>=5 (0,all),(1,1) at limit n. Worlds: a group of >= 3 members with >= 2 distinct n and >= 2 distinct kw values; n=3 all variant sequences, n=4 the tier's fixed patterns{}; layouts [n] and one split", n_plans, max_len, pair_skipped, if quick { "" } else { ", n=5 four patterns" }),
      "worlds": pair_worlds.len(),
      "requests_per_world_n3": pair_reqs_by_n[&3].len(),
      "requests_per_world_n4": pair_reqs_by_n[&4].len(),
      "cases": pair_cases.load(Ordering::Relaxed),
      "cases_where_request_sort_and_inner_sort_rank_a_groups_other_members_differently": pair_disagree.load(Ordering::Relaxed),
      "distinct_pairs_inner_is_nonidentical_permutation_of_main": perm_pairs,
      "cases_inner_is_nonidentical_permutation_of_main": perm_cases.load(Ordering::Relaxed),
      "of_those_the_two_orders_disagree_inside_a_group": perm_disagree.load(Ordering::Relaxed),
    }),
    "worlds_done" => worlds_done.load(Ordering::Relaxed),
    "doc_counts_all_variant_sequences" => full_n,
    "doc_counts_pattern_variants" => pattern_n,
    "quick_extra" => if quick { "n = 5: every group assignment x variant patterns 31310 / 20000 x layout [1,4]" } else { "" },
    "requests_per_world_n4" => reqs_by_n[&4].len(),
    "cases_with_limit_ge_n_full_equality" => full_cases.load(Ordering::Relaxed),
    "rescored_cases" => resc_cases.load(Ordering::Relaxed),
    "rescored_cases_candidate_list_out_of_key_order" => resc_unordered.load(Ordering::Relaxed),
    "rescored_cases_groups_first_seen_in_other_order_than_their_representatives_rank" => resc_differs.load(Ordering::Relaxed),
    "rescore_rule" => "2 main sorts ([] and [n desc,_score desc]) x window 1..3 x {multiply by 0.5, min with 0.05, total + 0.5} (function_score weight over match_all) x 3 inner_hits configs x limit {n,2}; group order is not judged for these (README: ordering outside the window is unchanged), the representative-is-best and window-position checks apply at limit = n",
    "cases_equal_only_up_to_ties" => tie_div.load(Ordering::Relaxed),
    "info_cases_limit_lt_n_where_total_groups_is_below_the_number_of_groups" => tg_short.load(Ordering::Relaxed),
    "per_segment_topk_failures_in_worlds_where_every_document_has_a_collapse_value" => seg_topk_no_missing.load(Ordering::Relaxed),
    "per_segment_topk_witness_without_missing_values" => seg_topk_witness.lock().clone(),
    "failure_classes" => counts.iter().map(|(k, v)| (k.clone(), json!(v))).collect::<serde_json::Map<String, Value>>(),
    "distinct_observed_outcomes" => n_out,
    "cap_hit" => if to { Some(format!("wall budget {deadline}s")) } else { None },
    "exhaustive" => !to,
  };
  rep.finish(
    cov,
    vec![
      "documents without a value for the collapse field: the documentation does not say whether they are returned; hits without a value are ignored (the implementation drops them), total_groups may or may not count them, but they may never appear inside a group's inner_hits".into(),
      "inner_hits without its own `sort` is only exercised under the default main sort (README: 'sorted independently if you supply sort'; whether the fallback is the request sort or the default sort is not documented; the implementation uses the default sort)".into(),
      "limit < n: only the invariants of the statement are demanded (one hit per value, representative is its group's best, group order, inner hits are other members of the same group in inner-sort order, at most `size`); the number of returned groups may be below `limit` and total_groups / inner_hits only reflect the top limit+1 ranked documents (counted as info, not judged)".into(),
      "collapse field values are single-valued by construction; sort fields are single-valued".into(),
      "collapse + rescore: the final scores and the candidate list are taken from the same rescored request without collapse (C19's concern); the order of groups is not judged because a lowering rescore leaves the candidate list out of key order by design".into(),
      "ranking itself (scores, sort order of the uncollapsed response) is taken from the implementation (C10's concern)".into(),
    ],
  )
}
