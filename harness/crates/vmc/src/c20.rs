//! C20 — explain and profile do not change results.
//! Engine: inputmc explain — small worlds (tie-prone texts, present / missing / multi-valued fast
//! fields, 1-2 segments) x a request alphabet covering every top-level feature (limits, executions,
//! sort plans, filters, custom scoring, aggregations, collapse with inner hits, rescore, second
//! pages of cursor walks) x {explain, profile} in 2^2, compared with the flags-off run.
//! A second sweep (run first) uses 24-64 documents with identical text - large score-tie classes
//! whose field keys run against insertion order - in 1-3 segments x multi-key sort plans led by
//! `_score` and by a field x limits {1,3,5} x the first three pages of a cursor walk.

use std::collections::BTreeSet;
use std::sync::atomic::{AtomicBool, AtomicU64, Ordering};

use parking_lot::Mutex;
use serde_json::{json, Value};

use searchlite_core::api::{IndexReader, SearchResult};
use vcore::ev::Reporter;
use vcore::inp::*;
use vcore::world::*;

use crate::c09::{self, FailLog, TOL};
use crate::Ctx;

pub const SIG_FIELD_SORT_SCORES: &str = "C20-explain-fills-scores-under-field-only-sort";
pub const SIG_POOL: &str = "C20-explain-widens-candidate-pool-for-rescore-and-collapse";

fn shapes() -> Vec<Value> {
  vec![
    json!({"body": "a", "kw": "x", "n": 1, "f": 1.0, "pop": 1}),
    json!({"body": "a a b", "kw": "x", "n": 2, "f": 0.5, "pop": 9}),
    json!({"body": "a b", "kw": "y", "n": [1, 2], "f": 2.5, "pop": 3}),
    json!({"body": "b", "kw": "y", "n": 2, "pop": 2}),
    json!({"body": "a b b c c c", "f": [0.5, 2.5], "pop": 5}),
    json!({"body": "a", "kw": "z", "n": 1, "f": 1.0, "pop": 4}),
  ]
}

fn mk_world(shape_idx: &[usize], layout: &[usize]) -> World {
  let sh = shapes();
  let docs: Vec<Value> = shape_idx
    .iter()
    .enumerate()
    .map(|(i, s)| {
      let mut d = sh[*s].clone();
      d["_id"] = json!(id_of(i));
      d
    })
    .collect();
  World::new("body+kw+pop+n+f", c09::schema_json(), docs).with_layout(layout.to_vec())
}

/// (name, request without flags, walk to the second page first?)
fn requests() -> Vec<(&'static str, Value, bool)> {
  let term_b = json!({"type": "term", "field": "body", "value": "b"});
  let fs = json!({"type": "function_score", "query": {"type": "query_string", "query": "a b"}, "boost_mode": "multiply",
    "functions": [{"type": "weight", "weight": 2.0, "filter": {"I64Range": {"field": "pop", "min": 3, "max": 1000}}}]});
  let aggs = json!({"by_kw": {"type": "terms", "field": "kw"}, "n_stats": {"type": "stats", "field": "n"}});
  let mut v: Vec<(&'static str, Value, bool)> = vec![
    ("top2-wand", json!({"query": "a", "limit": 2, "execution": "wand"}), false),
    ("top2-bm25", json!({"query": "a b", "limit": 2, "execution": "bm25"}), false),
    ("top1-bmw", json!({"query": "a b", "limit": 1, "execution": "bmw", "bmw_block_size": 2}), false),
    ("all", json!({"query": "a b c", "limit": 100, "execution": "wand"}), false),
    ("score-asc", json!({"query": "a b", "limit": 2, "execution": "wand", "sort": [{"field": "_score", "order": "asc"}]}), false),
    ("sort-kw", json!({"query": "a b", "limit": 2, "execution": "wand", "sort": [{"field": "kw"}]}), false),
    ("sort-n-kw", json!({"query": "a b", "limit": 2, "execution": "bm25", "sort": [{"field": "n", "order": "desc"}, {"field": "kw", "order": "asc"}]}), false),
    ("sort-f-score", json!({"query": "a b c", "limit": 3, "execution": "wand", "sort": [{"field": "f", "order": "desc"}, {"field": "_score", "order": "desc"}]}), false),
    ("match-all", json!({"query": {"type": "match_all"}, "limit": 2, "execution": "wand"}), false),
    ("match-all-sort", json!({"query": {"type": "match_all"}, "limit": 2, "execution": "wand", "sort": [{"field": "kw", "order": "desc"}]}), false),
    ("function-score", json!({"query": fs, "limit": 2, "execution": "bm25"}), false),
    ("function-score-min", json!({"query": {"type": "function_score", "query": {"type": "query_string", "query": "a"}, "boost_mode": "sum", "min_score": 1.2,
        "functions": [{"type": "field_value_factor", "field": "pop", "factor": 0.1}]}, "limit": 2, "execution": "bm25"}), false),
    ("script-score", json!({"query": {"type": "script_score", "query": {"type": "query_string", "query": "a b"}, "script": "_score + pop * 0.1"}, "limit": 2, "execution": "bm25"}), false),
    ("rank-feature", json!({"query": {"type": "bool", "must": [{"type": "term", "field": "body", "value": "a"}], "should": [{"type": "rank_feature", "field": "pop", "modifier": "sqrt"}]}, "limit": 2, "execution": "bm25"}), false),
    ("filter", json!({"query": "a b", "limit": 2, "execution": "wand", "filter": {"I64Range": {"field": "n", "min": 2, "max": 9}}}), false),
    ("aggs", json!({"query": "a b", "limit": 2, "execution": "wand", "aggs": aggs}), false),
    ("aggs-sort", json!({"query": "a", "limit": 1, "execution": "bm25", "sort": [{"field": "kw"}], "aggs": aggs}), false),
    ("aggs-only", json!({"query": "a b", "limit": 1, "return_hits": false, "execution": "wand", "aggs": aggs}), false),
    ("collapse", json!({"query": "a b", "limit": 2, "execution": "bm25", "collapse": {"field": "kw"}}), false),
    ("collapse-inner", json!({"query": "a b c", "limit": 100, "execution": "bm25", "collapse": {"field": "kw", "inner_hits": {"size": 2}}}), false),
    ("collapse-sort", json!({"query": "a b", "limit": 1, "execution": "bm25", "sort": [{"field": "n"}], "collapse": {"field": "kw", "inner_hits": {"size": 1}}}), false),
  ];
  for (name, w, mode) in [("rescore-w1", 1, "total"), ("rescore-w2", 2, "multiply"), ("rescore-w3", 3, "total"), ("rescore-w9", 9, "max")] {
    v.push((name, json!({"query": "a", "limit": 2, "execution": "bm25", "rescore": {"window_size": w, "query": term_b, "score_mode": mode}}), false));
  }
  v.push(("rescore-score-asc", json!({"query": "a b", "limit": 1, "execution": "bm25", "sort": [{"field": "_score", "order": "asc"}], "rescore": {"window_size": 9, "query": term_b, "score_mode": "total"}}), false));
  v.push(("rescore-sort-kw", json!({"query": "a b", "limit": 2, "execution": "bm25", "sort": [{"field": "kw"}, {"field": "_score"}], "rescore": {"window_size": 2, "query": term_b, "score_mode": "multiply"}}), false));
  v.push(("collapse-score-asc", json!({"query": "a b", "limit": 1, "execution": "bm25", "sort": [{"field": "_score", "order": "asc"}], "collapse": {"field": "kw"}}), false));
  v.push(("rescore-all", json!({"query": "a b", "limit": 100, "execution": "bm25", "rescore": {"window_size": 3, "query": term_b, "score_mode": "total"}}), false));
  // second pages
  v.push(("page2-score", json!({"query": "a b", "limit": 1, "execution": "wand"}), true));
  v.push(("page2-score-bm25", json!({"query": "a b c", "limit": 2, "execution": "bm25"}), true));
  v.push(("page2-sort", json!({"query": "a b", "limit": 1, "execution": "bm25", "sort": [{"field": "kw"}, {"field": "n", "order": "desc"}]}), true));
  v.push(("page2-aggs", json!({"query": "a b", "limit": 1, "execution": "wand", "aggs": aggs}), true));
  v
}

// --- large score-tie family: many documents with identical text (one or two score classes) whose
// field keys order them against insertion order, so that secondary sort keys - not the internal
// document id - decide who makes a page.

/// Document i of n: text of score class i mod classes, `n` and `kw` decreasing with insertion
/// order, `f` increasing with it.
fn tie_world(n: usize, classes: usize, segs: usize) -> World {
  let texts = ["a", "a a"];
  let docs: Vec<Value> = (0..n)
    .map(|i| json!({"_id": format!("d{i:02}"), "body": texts[i % classes], "kw": format!("k{:02}", n - i), "n": n - i, "f": i as f64 * 0.5, "pop": 1 + (i % 3)}))
    .collect();
  let mut layout = vec![n / segs; segs];
  *layout.last_mut().unwrap() += n - (n / segs) * segs;
  World::new("body+kw+pop+n+f", c09::schema_json(), docs).with_layout(layout)
}

fn tie_worlds(sizes: &[usize]) -> Vec<World> {
  let mut out = Vec::new();
  for &n in sizes {
    for classes in 1..=2 {
      for segs in 1..=3 {
        out.push(tie_world(n, classes, segs));
      }
    }
  }
  out
}

/// Multi-key plans led by `_score` and by a field, plus single-key controls.
fn tie_plans() -> Vec<Value> {
  vec![
    json!([{"field": "_score", "order": "desc"}, {"field": "n", "order": "asc"}]),
    json!([{"field": "_score"}, {"field": "n", "order": "desc"}]),
    json!([{"field": "_score", "order": "desc"}, {"field": "kw", "order": "asc"}]),
    json!([{"field": "_score"}, {"field": "f", "order": "desc"}, {"field": "kw"}]),
    json!([{"field": "_score", "order": "asc"}, {"field": "n", "order": "asc"}]),
    json!([{"field": "n", "order": "asc"}, {"field": "_score"}]),
    json!([{"field": "kw", "order": "desc"}, {"field": "_score", "order": "desc"}]),
    json!([{"field": "pop"}, {"field": "_score"}, {"field": "n"}]),
    json!([{"field": "n", "order": "asc"}]),
    json!([]),
  ]
}

fn tie_queries() -> Vec<(Value, &'static str)> {
  let term = json!({"type": "term", "field": "body", "value": "a"});
  vec![
    (json!("a"), "wand"),
    (json!("a"), "bm25"),
    (json!({"type": "function_score", "query": term, "boost_mode": "multiply", "functions": [{"type": "weight", "weight": 2.0}]}), "wand"),
    (json!({"type": "match_all"}), "wand"),
  ]
}

fn with_flags(base: &Value, explain: bool, profile: bool) -> Value {
  let mut r = base.clone();
  r["explain"] = json!(explain);
  r["profile"] = json!(profile);
  r
}

fn hit_list(res: &SearchResult) -> Vec<(String, f32)> {
  id_scores(res)
}

/// Compare two hit lists. Returns the differing aspects: "hits" (ids / order / count) or "scores".
/// A swap is tolerated only between hits whose scores are within TOL of each other and not
/// bit-identical across the two runs.
fn diff_hits(on: &[(String, f32)], off: &[(String, f32)]) -> Option<(&'static str, String)> {
  if on.len() != off.len() {
    return Some(("hits", format!("{} hits instead of {}", on.len(), off.len())));
  }
  for (i, (a, b)) in on.iter().zip(off).enumerate() {
    if a.0 != b.0 {
      match off.iter().find(|h| h.0 == a.0) {
        Some(h) if approx(h.1, a.1, TOL) && approx(b.1, a.1, TOL) && h.1.to_bits() != a.1.to_bits() => {}
        _ => return Some(("hits", format!("rank {}: {} with the flag, {} without", i + 1, a.0, b.0))),
      }
    }
  }
  for (i, (a, b)) in on.iter().zip(off).enumerate() {
    if !approx(a.1, b.1, TOL) {
      return Some(("scores", format!("rank {}: {} scores {} with the flag, {} scores {} without", i + 1, a.0, a.1, b.0, b.1)));
    }
  }
  None
}

fn explanation_consistent(res: &SearchResult) -> Result<u64, String> {
  let mut n = 0;
  for h in &res.hits {
    let mut all = vec![h];
    if let Some(inner) = &h.inner_hits {
      all.extend(inner.iter());
    }
    for x in all {
      if let Some(e) = &x.explanation {
        n += 1;
        if !approx(e.final_score, x.score, 1e-6) {
          return Err(format!("hit {} has score {} but its explanation.final_score is {}", x.doc_id, x.score, e.final_score));
        }
      }
    }
  }
  Ok(n)
}

/// All differing aspects between the flagged and the flags-off response, plus the number of
/// explanations whose final_score was checked.
fn diff(on: &SearchResult, off: &SearchResult, explain: bool) -> (Vec<(&'static str, String)>, u64) {
  let mut d: Vec<(&'static str, String)> = Vec::new();
  if let Some(x) = diff_hits(&hit_list(on), &hit_list(off)) {
    d.push(x);
  }
  if on.total_hits_estimate != off.total_hits_estimate {
    d.push(("total_hits_estimate", format!("total_hits_estimate {} with the flag, {} without", on.total_hits_estimate, off.total_hits_estimate)));
  }
  if on.total_groups != off.total_groups {
    d.push(("total_groups", format!("total_groups {:?} with the flag, {:?} without", on.total_groups, off.total_groups)));
  }
  if on.next_cursor != off.next_cursor {
    d.push(("next_cursor", format!("next_cursor {:?} with the flag, {:?} without", on.next_cursor, off.next_cursor)));
  }
  let (a, b) = (serde_json::to_value(&on.aggregations).unwrap_or(Value::Null), serde_json::to_value(&off.aggregations).unwrap_or(Value::Null));
  if a != b {
    d.push(("aggregations", format!("aggregations {a} with the flag, {b} without")));
  }
  if on.hits.len() == off.hits.len() {
    for (h1, h2) in on.hits.iter().zip(&off.hits) {
      let i1: Vec<(String, f32)> = h1.inner_hits.as_ref().map(|v| v.iter().map(|h| (h.doc_id.clone(), h.score)).collect()).unwrap_or_default();
      let i2: Vec<(String, f32)> = h2.inner_hits.as_ref().map(|v| v.iter().map(|h| (h.doc_id.clone(), h.score)).collect()).unwrap_or_default();
      if let Some((k, e)) = diff_hits(&i1, &i2) {
        d.push((if k == "hits" { "inner_hits" } else { "inner_scores" }, format!("inner_hits of {}: {e}", h1.doc_id)));
        break;
      }
    }
  }
  if explain {
    if let Some(h) = on.hits.iter().find(|h| h.explanation.is_none()) {
      d.push(("explanation_missing", format!("explain is on but hit {} carries no explanation", h.doc_id)));
    }
  }
  let n = match explanation_consistent(on) {
    Ok(n) => n,
    Err(e) => {
      d.push(("explanation_final_score", e));
      0
    }
  };
  (d, n)
}

struct Prepared {
  base: Value,
}

/// Resolve the request (walk to page 2 when asked). None: no second page in this world.
fn prepare(reader: &IndexReader, base: &Value, skip_pages: usize) -> Result<Option<Prepared>, String> {
  let mut b = base.clone();
  for _ in 0..skip_pages {
    let page = search_caught(reader, &req(with_flags(&b, false, false)))?;
    match page.next_cursor {
      Some(c) => b["cursor"] = json!(c),
      None => return Ok(None),
    }
  }
  Ok(Some(Prepared { base: b }))
}

fn sort_has_score(base: &Value) -> bool {
  match base.get("sort").and_then(|s| s.as_array()) {
    Some(a) if !a.is_empty() => a.iter().any(|k| k["field"].as_str() == Some("_score")),
    _ => true,
  }
}

/// Classifiers for the explain defects observed on the pinned tree (reader.rs `search` /
/// `search_segment`). A failure is attributed only when the flagged response is *exactly* what the
/// named mechanism predicts; everything else stays unexplained.
///
///  * SIG_FIELD_SORT_SCORES — under a sort plan without `_score` (and a tree without custom scoring)
///    the engine runs in match-only mode and reports score 0 for every hit; `explain` forces the
///    score hook (`use_score_hook = needs_score_hook || explain`), so the same hits come back with
///    their BM25 scores. Attributed when only scores differ, every flags-off score is 0 and every
///    flagged score equals the document's score under the default sort.
///  * SIG_POOL — with `explain` and a sort plan other than the default, `search` sets the
///    per-segment rank limit to `live_docs` and bypasses the shared limit+1 heap (`collect_hits` is
///    only installed when `!req.explain`), so rescoring and collapsing see every match instead of
///    the limit+1 candidates of the flags-off run. Attributed when the flagged response equals the
///    flags-off response of the same request with `candidate_size` raised to cover every match,
///    i.e. the only thing `explain` changed is the candidate pool handed to rescore / collapse.
fn classify(reader: &IndexReader, base: &Value, explain: bool, on: &SearchResult, off: &SearchResult, aspects: &[&'static str]) -> Option<&'static str> {
  if !explain {
    return None;
  }
  if aspects.iter().all(|a| *a == "scores" || *a == "inner_scores") && !sort_has_score(base) {
    if !off.hits.iter().all(|h| h.score == 0.0) {
      return None;
    }
    let mut plain = json!({"query": base["query"], "limit": 100, "execution": "bm25"});
    if let Some(f) = base.get("filter") {
      plain["filter"] = f.clone();
    }
    let truth = search_caught(reader, &req(plain)).ok()?;
    for h in &on.hits {
      match truth.hits.iter().find(|t| t.doc_id == h.doc_id) {
        Some(t) if approx(t.score, h.score, TOL) => {}
        _ => return None,
      }
    }
    return Some(SIG_FIELD_SORT_SCORES);
  }
  let has_rescore = base.get("rescore").map(|r| !r.is_null()).unwrap_or(false);
  let has_collapse = base.get("collapse").map(|r| !r.is_null()).unwrap_or(false);
  if has_rescore || has_collapse {
    let mut wide = with_flags(base, false, false);
    wide["candidate_size"] = json!(10_000);
    let w = search_caught(reader, &req(wide)).ok()?;
    // with the widened pool the flags-off run may return more hits than `limit`-truncated... it does
    // not: limit still applies. Scores under field-only sorts are 0 without the flag: ignore them.
    let ids = |r: &SearchResult| r.hits.iter().map(|h| h.doc_id.clone()).collect::<Vec<_>>();
    let same = if sort_has_score(base) { diff_hits(&hit_list(on), &hit_list(&w)).is_none() } else { ids(on) == ids(&w) };
    if same && on.total_groups == w.total_groups {
      return Some(SIG_POOL);
    }
  }
  None
}

enum Outcome {
  Same { explanations: u64, hits: usize },
  Skipped,
  Fail(Option<&'static str>, String, String),
}

fn check_case(reader: &IndexReader, base: &Value, skip_pages: usize, explain: bool, profile: bool) -> Outcome {
  let p = match prepare(reader, base, skip_pages) {
    Ok(Some(p)) => p,
    Ok(None) => return Outcome::Skipped,
    Err(e) => return Outcome::Fail(None, "first-page".into(), format!("first page failed: {e}")),
  };
  let off = search_caught(reader, &req(with_flags(&p.base, false, false)));
  let on = search_caught(reader, &req(with_flags(&p.base, explain, profile)));
  match (on, off) {
    (Ok(on), Ok(off)) => {
      if profile && on.profile.is_none() {
        return Outcome::Fail(None, "profile-missing".into(), "profile is on but the response carries no profile".into());
      }
      let (d, n) = diff(&on, &off, explain);
      if d.is_empty() {
        return Outcome::Same { explanations: n, hits: on.hits.len() };
      }
      let aspects: Vec<&'static str> = d.iter().map(|x| x.0).collect();
      let sig = classify(reader, &p.base, explain, &on, &off, &aspects);
      Outcome::Fail(
        sig,
        aspects.join("+"),
        format!("with the flag: hits {:?}; without: hits {:?}: {}", hit_list(&on), hit_list(&off), d.iter().map(|x| x.1.clone()).collect::<Vec<_>>().join("; ")),
      )
    }
    (Err(a), Err(b)) => {
      if a.starts_with("PANIC") != b.starts_with("PANIC") {
        Outcome::Fail(None, "error".into(), format!("with the flag: {a}; without: {b}"))
      } else {
        Outcome::Skipped
      }
    }
    (Err(a), Ok(_)) => Outcome::Fail(None, "error".into(), format!("fails only with the flag: {a}")),
    (Ok(_), Err(b)) => Outcome::Fail(None, "error".into(), format!("fails only without the flag: {b}")),
  }
}

pub fn run(ctx: &Ctx) -> i32 {
  let mut rep = Reporter::new("C20", ctx.tier, "exploration");
  let quick = ctx.tier.is_quick();
  if let Some(path) = &ctx.replay {
    rep.set_replaying(true);
    let v: Value = serde_json::from_slice(&std::fs::read(path).expect("replay file")).expect("json");
    let cs = &v["case"];
    let world = World::from_json(&cs["world"]);
    let (explain, profile) = (cs["explain"].as_bool().unwrap_or(false), cs["profile"].as_bool().unwrap_or(false));
    let page2 = cs["skip_pages"].as_u64().map(|p| p as usize).unwrap_or(if cs["second_page"].as_bool().unwrap_or(false) { 1 } else { 0 });
    let run1 = || {
      let idx = world.build();
      let reader = idx.reader().expect("reader");
      match check_case(&reader, &cs["request"], page2, explain, profile) {
        Outcome::Fail(sig, _, what) => Some(format!("[{}] {}", sig.unwrap_or("-"), what)),
        _ => None,
      }
    };
    let (a, b) = (run1(), run1());
    if a.is_some() != b.is_some() {
      vcore::ev::machinery_failure("NONDETERMINISM on replay");
    }
    return match a {
      Some(w) => {
        println!("VIOLATION property=C20 replay={path}\n  what: {w}");
        1
      }
      None => {
        println!("replay: no violation");
        0
      }
    };
  }

  let k = shapes().len();
  let sidx: Vec<usize> = (0..k).collect();
  let mut ws: Vec<World> = Vec::new();
  for s in sequences(&sidx, 2, if quick { 3 } else { 6 }) {
    for lay in c09::layouts_1_2(s.len()) {
      ws.push(mk_world(&s, &lay));
    }
  }
  if quick {
    for m in multisets(k, 4) {
      for lay in [vec![4], vec![2, 2]] {
        ws.push(mk_world(&m, &lay));
      }
    }
  }
  let reqs = requests();
  let flags = [(true, false), (false, true), (true, true)];
  let deadline = c09::budget(if quick { 30.0 } else { 840.0 });
  let log = FailLog::new();
  let evals = AtomicU64::new(0);
  let nontrivial = AtomicU64::new(0);
  let explanations = AtomicU64::new(0);
  let worlds_done = AtomicU64::new(0);
  let timed_out = AtomicBool::new(false);
  let outcomes: Mutex<BTreeSet<String>> = Mutex::new(BTreeSet::new());
  // ---- large score-tie sweep (small and run first, so that a busy machine never caps it away)
  let tie_sizes: Vec<usize> = if quick { vec![24, 64] } else { vec![24, 32, 40, 48, 56, 64] };
  let ws_t = tie_worlds(&tie_sizes);
  let plans_t = tie_plans();
  let qs_t = tie_queries();
  let deadline_t = c09::budget(if quick { 12.0 } else { 200.0 });
  let tie_cases = AtomicU64::new(0);
  let tie_nontrivial = AtomicU64::new(0);
  let (done_t, capped_t) = c09::par_sweep(&ws_t, &rep, deadline_t, |wi, world| {
    let idx = world.build();
    let reader = idx.reader().expect("reader");
    let mut local: BTreeSet<String> = BTreeSet::new();
    for (qi, (q, exec)) in qs_t.iter().enumerate() {
      for (pi, plan) in plans_t.iter().enumerate() {
        for (li, limit) in [1usize, 3, 5].iter().enumerate() {
          let base = json!({"query": q, "execution": exec, "sort": plan, "limit": limit});
          for skip in 0..3usize {
            for (fi, (explain, profile)) in flags.iter().enumerate() {
              evals.fetch_add(1, Ordering::Relaxed);
              tie_cases.fetch_add(1, Ordering::Relaxed);
              match check_case(&reader, &base, skip, *explain, *profile) {
                Outcome::Skipped => {
                  local.insert("tie-sweep: skipped (no such page)".into());
                }
                Outcome::Same { explanations: n, hits } => {
                  explanations.fetch_add(n, Ordering::Relaxed);
                  if hits >= 1 {
                    nontrivial.fetch_add(1, Ordering::Relaxed);
                    tie_nontrivial.fetch_add(1, Ordering::Relaxed);
                  }
                  local.insert(format!("tie-sweep: same, page {} explanations{}", skip + 1, n.min(1)));
                }
                Outcome::Fail(sig, aspects, what) => {
                  local.insert(format!("tie-sweep: violation[{}] differs-in={}", sig.unwrap_or("-"), aspects));
                  log.add(
                    sig,
                    vec![1, wi as u64, qi as u64, pi as u64, li as u64, skip as u64, fi as u64],
                    || {
                      format!(
                        "{} documents d00.. (text of doc i: {}; n = kw = {}-i, f = i/2), layout {:?}; request={} page={} explain={} profile={}: {}",
                        world.docs.len(),
                        if world.docs.iter().any(|d| d["body"] == "a a") { "\"a\" / \"a a\" alternating" } else { "\"a\"" },
                        world.docs.len(),
                        world.layout,
                        base,
                        skip + 1,
                        explain,
                        profile,
                        what
                      )
                    },
                    || json!({"engine": "inputmc-explain/tie", "world": world.to_json(), "request_name": "tie", "request": base, "skip_pages": skip, "explain": explain, "profile": profile}),
                  );
                }
              }
            }
          }
        }
      }
    }
    outcomes.lock().extend(local);
  });

  let (done, capped) = c09::par_sweep(&ws, &rep, deadline, |wi, world| {
    let idx = world.build();
    let reader = idx.reader().expect("reader");
    let mut local: BTreeSet<String> = BTreeSet::new();
    for (ri, (name, base, page2)) in reqs.iter().enumerate() {
      for (fi, (explain, profile)) in flags.iter().enumerate() {
        evals.fetch_add(1, Ordering::Relaxed);
        match check_case(&reader, base, *page2 as usize, *explain, *profile) {
          Outcome::Skipped => {
            local.insert("skipped (no second page / request rejected either way)".into());
          }
          Outcome::Same { explanations: n, hits } => {
            explanations.fetch_add(n, Ordering::Relaxed);
            if hits >= 1 {
              nontrivial.fetch_add(1, Ordering::Relaxed);
              if !rep.sample_full() && ri % 7 == 3 && hits >= 2 {
                rep.sample(json!({"world": world.describe(), "request": name, "explain": explain, "profile": profile, "hits": hits, "explanations_checked": n}));
              }
            }
            local.insert(format!("same: hits{} explanations{}", hits.min(2), n.min(1)));
          }
          Outcome::Fail(sig, aspects, what) => {
            local.insert(format!("violation[{}] request={} differs-in={}", sig.unwrap_or("-"), name, aspects));
            log.add(
              sig,
              vec![0, wi as u64, ri as u64, fi as u64],
              || format!("{} request[{}]={} second_page={} explain={} profile={}: {}", world.describe(), name, base, page2, explain, profile, what),
              || json!({"engine": "inputmc-explain", "world": world.to_json(), "request_name": name, "request": base, "second_page": page2, "explain": explain, "profile": profile}),
            );
          }
        }
      }
    }
    outcomes.lock().extend(local);
  });
  worlds_done.store(done, Ordering::Relaxed);
  timed_out.store(capped || capped_t, Ordering::Relaxed);
  log.flush(&rep);
  rep.add_evals(evals.load(Ordering::Relaxed));
  let to = timed_out.load(Ordering::Relaxed);
  let outs = outcomes.lock().clone();
  if outs.len() < 2 || explanations.load(Ordering::Relaxed) == 0 {
    vcore::ev::machinery_failure("C20: vacuous (fewer than two outcomes or no explanation checked)");
  }
  let cov = vcore::cov! {
    "distinct_nontrivial" => nontrivial.load(Ordering::Relaxed),
    "rule" => "a (world, request, flag combination) case is non-trivial when the flagged response equals the flags-off response and carries at least one hit (whose explanation.final_score is then compared with its score)",
    "worlds" => ws.len(),
    "worlds_completed" => worlds_done.load(Ordering::Relaxed),
    "world_space" => if quick { "every sequence of 2-3 of 6 document shapes x every 1-2 segment layout, plus every multiset of 4 shapes x {1 segment, 2+2}" } else { "every sequence of 2-6 of 6 document shapes x every 1-2 segment layout" },
    "requests" => reqs.iter().map(|r| json!({"name": r.0, "second_page": r.2, "request": r.1})).collect::<Vec<_>>(),
    "tie_sweep" => json!({"worlds": ws_t.len(), "worlds_completed": done_t, "world_space": format!("{:?} documents x {{1,2}} score classes (identical text per class; n and kw decrease with insertion order, f increases) x {{1,2,3}} segments", tie_sizes), "sort_plans": plans_t, "queries_x_execution": qs_t.iter().map(|(q, e)| json!({"query": q, "execution": e})).collect::<Vec<_>>(), "limits": [1, 3, 5], "pages": "first three pages of the flags-off cursor walk", "cases": tie_cases.load(Ordering::Relaxed), "cases_equal_with_hits": tie_nontrivial.load(Ordering::Relaxed)}),
    "flag_combinations" => ["explain", "profile", "explain+profile"],
    "explanations_checked" => explanations.load(Ordering::Relaxed),
    "distinct_observed_outcomes" => outs.len(),
    "observed_outcomes" => outs.iter().cloned().collect::<Vec<_>>(),
    "failure_classes" => log.classes().iter().map(|(s, n)| json!({"signature": s, "cases": n})).collect::<Vec<_>>(),
    "cap_hit" => if to { Some(format!("wall budget {deadline}s")) } else { None },
    "exhaustive" => !to,
  };
  rep.finish(
    cov,
    vec![
      "scores are compared within 1e-5 relative; two hits may swap only when their scores are within that tolerance and not bit-identical across the runs".into(),
      "explanation.final_score is compared with the hit's score within 1e-6 relative, for hits and inner hits".into(),
      "the profile and explanation members themselves are not compared with anything (only their presence)".into(),
      "no deletions; keyword field single-valued or missing (collapse key)".into(),
    ],
  )
}
