//! C08 — filters follow the documented filter semantics.
//! Engine: inputmc filter — every document shape of a three-level nested schema (x segment layouts)
//! x every filter tree up to a leaf/depth bound, each evaluated by the real `search(match_all,
//! filter)` and by an independent evaluator over the source JSON.
//!
//! Known defect reproduced by this check (classifier `h7_explains`): per-parent child object indices
//! restart in `collect_nested` (segment.rs), signature `C08-nested-child-parent-binding`.

use std::collections::{BTreeMap, HashMap, HashSet};
use std::sync::atomic::{AtomicBool, AtomicU64, Ordering};
use std::sync::Arc;

use parking_lot::Mutex;
use rayon::prelude::*;
use searchlite_core::api::types::{Filter, SearchRequest};
use serde_json::{json, Map, Value};

use vcore::ev::Reporter;
use vcore::inp::*;
use vcore::world::*;

use crate::Ctx;

const SIG_H7: &str = "C08-nested-child-parent-binding";

// ---------------------------------------------------------------------------------------------
// Schema: top-level kw / n / f and comment{author, score, reply{tag, n, deep{k}}}.

fn schema_json() -> Value {
  json!({"doc_id_field": "_id",
    "text_fields": [{"name": "body", "analyzer": "default", "stored": true, "indexed": true, "nullable": true}],
    "keyword_fields": [{"name": "kw", "stored": true, "indexed": true, "fast": true, "nullable": true}],
    "numeric_fields": [{"name": "n", "i64": true, "fast": true, "stored": true, "nullable": true},
                       {"name": "f", "i64": false, "fast": true, "stored": true, "nullable": true}],
    "nested_fields": [{"name": "comment", "nullable": true, "fields": [
      {"type": "keyword", "name": "author", "stored": true, "indexed": true, "fast": true, "nullable": true},
      {"type": "numeric", "name": "score", "i64": true, "fast": true, "stored": true, "nullable": true},
      {"type": "object", "name": "reply", "nullable": true, "fields": [
        {"type": "keyword", "name": "tag", "stored": true, "indexed": true, "fast": true, "nullable": true},
        {"type": "numeric", "name": "n", "i64": true, "fast": true, "stored": true, "nullable": true},
        {"type": "object", "name": "deep", "nullable": true, "fields": [
          {"type": "keyword", "name": "k", "stored": true, "indexed": true, "fast": true, "nullable": true}]}]}]}]})
}

#[derive(Clone, Copy, PartialEq, Eq, Debug)]
enum FT {
  Kw,
  I64,
  F64,
}

struct Level {
  child: Option<&'static str>,
  fields: &'static [(&'static str, FT)],
}

/// Level 0 = document, 1 = comment, 2 = reply, 3 = deep.
const LEVELS: [Level; 4] = [
  Level { child: Some("comment"), fields: &[("kw", FT::Kw), ("n", FT::I64), ("f", FT::F64)] },
  Level { child: Some("reply"), fields: &[("author", FT::Kw), ("score", FT::I64)] },
  Level { child: Some("deep"), fields: &[("tag", FT::Kw), ("n", FT::I64)] },
  Level { child: None, fields: &[("k", FT::Kw)] },
];

// ---------------------------------------------------------------------------------------------
// Document model for the oracle (parsed from the source JSON; independent of the index).

#[derive(Debug, Clone, Default)]
struct Obj {
  /// values per field of this level (same order as LEVELS[level].fields)
  kw: Vec<Vec<String>>, // lowercased
  i: Vec<Vec<i64>>,
  f: Vec<Vec<f64>>,
  ch: Vec<Obj>,
}

fn parse_obj(level: usize, m: &Map<String, Value>, null_as_empty: bool) -> Obj {
  let lv = &LEVELS[level];
  let n = lv.fields.len();
  let mut o = Obj { kw: vec![vec![]; n], i: vec![vec![]; n], f: vec![vec![]; n], ch: vec![] };
  for (fi, (name, ft)) in lv.fields.iter().enumerate() {
    let Some(v) = m.get(*name) else { continue };
    let items: Vec<&Value> = match v {
      Value::Array(a) => a.iter().collect(),
      Value::Null => vec![],
      other => vec![other],
    };
    for it in items {
      match ft {
        FT::Kw => {
          if let Some(s) = it.as_str() {
            o.kw[fi].push(s.to_lowercase());
          }
        }
        FT::I64 => {
          if let Some(x) = it.as_i64() {
            o.i[fi].push(x);
          }
        }
        FT::F64 => {
          if let Some(x) = it.as_f64() {
            o.f[fi].push(x);
          }
        }
      }
    }
  }
  if let Some(cn) = lv.child {
    match m.get(cn) {
      Some(Value::Array(a)) => {
        for x in a {
          if let Value::Object(mm) = x {
            o.ch.push(parse_obj(level + 1, mm, null_as_empty));
          } else if x.is_null() && null_as_empty {
            o.ch.push(parse_obj(level + 1, &Map::new(), null_as_empty));
          }
        }
      }
      Some(Value::Object(mm)) => o.ch.push(parse_obj(level + 1, mm, null_as_empty)),
      _ => {}
    }
  }
  o
}

fn has_null_element(v: &Value) -> bool {
  match v {
    Value::Array(a) => a.iter().any(|x| x.is_null() || has_null_element(x)),
    Value::Object(m) => m.iter().any(|(k, x)| LEVELS.iter().any(|l| l.child == Some(k.as_str())) && has_null_element(x)),
    _ => false,
  }
}

/// A document as the oracle sees it. A `null` *element* inside an array of nested objects is either
/// no object at all (`a`) or an object without properties (`b`, what the implementation does; it then
/// satisfies `Nested(p, Not(..))`). The documentation does not say which, so both are admitted.
struct Model {
  a: Obj,
  b: Option<Obj>,
}

fn model(doc: &Value) -> Model {
  let m = doc.as_object().expect("document object");
  Model { a: parse_obj(0, m, false), b: if has_null_element(doc) { Some(parse_obj(0, m, true)) } else { None } }
}

// ---------------------------------------------------------------------------------------------
// Compiled filter for the oracle.

#[derive(Debug, Clone)]
enum Pred {
  KwEq(String),
  KwIn(Vec<String>),
  I64(i64, i64),
  F64(f64, f64),
}

#[derive(Debug, Clone)]
enum CT {
  /// `hops` child levels below the scope object, field `idx` of type `ft` there
  Leaf { hops: u8, ft: FT, idx: u8, pred: Pred },
  Not(Box<CT>),
  And(Vec<CT>),
  Or(Vec<CT>),
  Nested(Box<CT>),
}

fn resolve(scope: usize, field: &str) -> Result<(u8, FT, u8), String> {
  let mut level = scope;
  let segs: Vec<&str> = field.split('.').collect();
  for s in &segs[..segs.len() - 1] {
    if LEVELS[level].child != Some(*s) {
      return Err(format!("path segment `{s}` is not the nested child of level {level}"));
    }
    level += 1;
  }
  let last = segs[segs.len() - 1];
  match LEVELS[level].fields.iter().position(|(n, _)| *n == last) {
    Some(i) => Ok(((level - scope) as u8, LEVELS[level].fields[i].1, i as u8)),
    None => Err(format!("unknown field `{field}` in scope level {scope}")),
  }
}

fn compile(f: &Filter, scope: usize) -> Result<CT, String> {
  Ok(match f {
    Filter::KeywordEq { field, value } => {
      let (hops, ft, idx) = resolve(scope, field)?;
      if ft != FT::Kw {
        return Err(format!("keyword filter on numeric field {field}: not in the alphabet"));
      }
      CT::Leaf { hops, ft, idx, pred: Pred::KwEq(value.to_lowercase()) }
    }
    Filter::KeywordIn { field, values } => {
      let (hops, ft, idx) = resolve(scope, field)?;
      if ft != FT::Kw {
        return Err(format!("keyword filter on numeric field {field}: not in the alphabet"));
      }
      CT::Leaf { hops, ft, idx, pred: Pred::KwIn(values.iter().map(|v| v.to_lowercase()).collect()) }
    }
    Filter::I64Range { field, min, max } => {
      let (hops, ft, idx) = resolve(scope, field)?;
      if ft == FT::Kw {
        return Err(format!("range filter on keyword field {field}: not in the alphabet"));
      }
      CT::Leaf { hops, ft, idx, pred: Pred::I64(*min, *max) }
    }
    Filter::F64Range { field, min, max } => {
      let (hops, ft, idx) = resolve(scope, field)?;
      if ft == FT::Kw {
        return Err(format!("range filter on keyword field {field}: not in the alphabet"));
      }
      CT::Leaf { hops, ft, idx, pred: Pred::F64(*min, *max) }
    }
    Filter::Nested { path, filter } => {
      if LEVELS[scope].child != Some(path.as_str()) {
        return Err(format!("Nested path `{path}` is not the nested child of scope level {scope}"));
      }
      CT::Nested(Box::new(compile(filter, scope + 1)?))
    }
    Filter::And(v) => CT::And(v.iter().map(|x| compile(x, scope)).collect::<Result<_, _>>()?),
    Filter::Or(v) => CT::Or(v.iter().map(|x| compile(x, scope)).collect::<Result<_, _>>()?),
    Filter::Not(x) => CT::Not(Box::new(compile(x, scope)?)),
  })
}

fn leaf_here(o: &Obj, ft: FT, idx: usize, pred: &Pred) -> bool {
  match (pred, ft) {
    (Pred::KwEq(v), FT::Kw) => o.kw[idx].iter().any(|x| x == v),
    (Pred::KwIn(vs), FT::Kw) => o.kw[idx].iter().any(|x| vs.iter().any(|v| v == x)),
    (Pred::I64(a, b), FT::I64) => o.i[idx].iter().any(|x| x >= a && x <= b),
    (Pred::F64(a, b), FT::F64) => o.f[idx].iter().any(|x| x >= a && x <= b),
    // a range on a field of the other numeric type matches nothing
    _ => false,
  }
}

fn leaf_any(o: &Obj, hops: u8, ft: FT, idx: usize, pred: &Pred) -> bool {
  if hops == 0 {
    leaf_here(o, ft, idx, pred)
  } else {
    o.ch.iter().any(|c| leaf_any(c, hops - 1, ft, idx, pred))
  }
}

/// The documented semantics. README fixes that sibling Nested clauses with the same path under one
/// And bind to the same object `c`. It does not say whether the clauses' inner filters are then
/// evaluated in `c` one by one (`merge = false`) or as one And-list, so that inner Nested clauses
/// of *different* siblings bind to the same grandchild as well (`merge = true`; this is what
/// `And[Nested c (Nested r A), Nested c (Nested r B)]` means if chains that share a prefix share their
/// objects, the pattern all README examples use). Both readings are computed; a document is judged
/// only when they agree.
fn eval_r(t: &CT, o: &Obj, merge: bool) -> bool {
  match t {
    CT::Leaf { hops, ft, idx, pred } => leaf_any(o, *hops, *ft, *idx as usize, pred),
    CT::Not(x) => !eval_r(x, o, merge),
    CT::Or(v) => v.iter().any(|x| eval_r(x, o, merge)),
    CT::Nested(x) => o.ch.iter().any(|c| eval_r(x, c, merge)),
    CT::And(v) => {
      let refs: Vec<&CT> = v.iter().collect();
      eval_and(&refs, o, merge)
    }
  }
}

fn eval_and(v: &[&CT], o: &Obj, merge: bool) -> bool {
  // every level has exactly one nested child path, so all Nested siblings share their path and
  // must be satisfied by the same object
  let mut inner: Vec<&CT> = Vec::new();
  for x in v {
    match x {
      CT::Nested(i) => inner.push(i.as_ref()),
      other => {
        if !eval_r(other, o, merge) {
          return false;
        }
      }
    }
  }
  if inner.is_empty() {
    return true;
  }
  if merge {
    o.ch.iter().any(|c| eval_and(&inner, c, merge))
  } else {
    o.ch.iter().any(|c| inner.iter().all(|x| eval_r(x, c, merge)))
  }
}

fn eval(t: &CT, o: &Obj) -> bool {
  eval_r(t, o, false)
}

/// Some(answer) when all admissible readings agree, None when the input is ambiguous for `m`.
fn eval_demanded(t: &CT, m: &Model) -> Option<bool> {
  let a = eval_r(t, &m.a, false);
  if a != eval_r(t, &m.a, true) {
    return None;
  }
  if let Some(b) = &m.b {
    if a != eval_r(t, b, false) || a != eval_r(t, b, true) {
      return None;
    }
  }
  Some(a)
}

/// Naive "flattened" reading (no object binding at all): used only to measure how many evaluated
/// cases are decided by the binding rules.
fn eval_flat(t: &CT, root: &Obj, scope: u8) -> bool {
  match t {
    CT::Leaf { hops, ft, idx, pred } => leaf_any(root, scope + *hops, *ft, *idx as usize, pred),
    CT::Not(x) => !eval_flat(x, root, scope),
    CT::Or(v) => v.iter().any(|x| eval_flat(x, root, scope)),
    CT::And(v) => v.iter().all(|x| eval_flat(x, root, scope)),
    CT::Nested(x) => eval_flat(x, root, scope + 1),
  }
}

fn has_nested_at(f: &Filter, depth_now: usize, want: usize) -> bool {
  match f {
    Filter::Nested { filter, .. } => depth_now + 1 >= want || has_nested_at(filter, depth_now + 1, want),
    Filter::And(v) | Filter::Or(v) => v.iter().any(|x| has_nested_at(x, depth_now, want)),
    Filter::Not(x) => has_nested_at(x, depth_now, want),
    _ => false,
  }
}

// ---------------------------------------------------------------------------------------------
// Model of the H7 defect: what `collect_nested` writes (object counts overwritten per parent,
// child indices restarting per parent, values of different parents' children merged by index) and
// what filters.rs then reads. Used only to decide whether a failure is explained by that defect.

#[derive(Default, Debug)]
struct Sim {
  counts: HashMap<String, usize>,
  parents: HashMap<String, Vec<usize>>,
  kw: HashMap<String, Vec<Vec<String>>>,
  i: HashMap<String, Vec<Vec<i64>>>,
}

fn sim_nested(st: &mut Sim, level: usize, v: &Value, prefix: &str, parent: Option<usize>) {
  match v {
    Value::Array(arr) => {
      st.counts.insert(prefix.to_string(), arr.len());
      if let Some(p) = parent {
        let e = st.parents.entry(prefix.to_string()).or_insert_with(|| vec![usize::MAX; arr.len()]);
        if e.len() < arr.len() {
          e.resize(arr.len(), usize::MAX);
        }
        for s in e.iter_mut().take(arr.len()) {
          *s = p;
        }
      } else {
        st.parents.entry(prefix.to_string()).or_insert_with(|| vec![usize::MAX; arr.len()]);
      }
      for (idx, x) in arr.iter().enumerate() {
        if let Value::Object(m) = x {
          sim_object(st, level, m, prefix, idx);
        }
      }
    }
    Value::Object(m) => {
      st.counts.insert(prefix.to_string(), 1);
      st.parents.entry(prefix.to_string()).or_insert_with(|| vec![parent.unwrap_or(usize::MAX)]);
      sim_object(st, level, m, prefix, 0);
    }
    _ => {}
  }
}

fn sim_object(st: &mut Sim, level: usize, m: &Map<String, Value>, prefix: &str, object_idx: usize) {
  let count = *st.counts.get(prefix).unwrap_or(&0);
  let lv = &LEVELS[level];
  for (k, v) in m {
    if Some(k.as_str()) == lv.child {
      if v.is_null() {
        continue;
      }
      sim_nested(st, level + 1, v, &format!("{prefix}.{k}"), Some(object_idx));
      continue;
    }
    let Some((_, ft)) = lv.fields.iter().find(|(n, _)| n == k) else { continue };
    let full = format!("{prefix}.{k}");
    let items: Vec<&Value> = match v {
      Value::Array(a) => a.iter().collect(),
      Value::Null => vec![],
      o => vec![o],
    };
    match ft {
      FT::Kw => {
        let vals: Vec<String> = items.iter().filter_map(|x| x.as_str().map(|s| s.to_string())).collect();
        if !vals.is_empty() {
          let e = st.kw.entry(full).or_insert_with(|| vec![vec![]; count]);
          if e.len() < count {
            e.resize(count, vec![]);
          }
          if object_idx < e.len() {
            e[object_idx].extend(vals);
          }
        }
      }
      FT::I64 => {
        let vals: Vec<i64> = items.iter().filter_map(|x| x.as_i64()).collect();
        if !vals.is_empty() {
          let e = st.i.entry(full).or_insert_with(|| vec![vec![]; count]);
          if e.len() < count {
            e.resize(count, vec![]);
          }
          if object_idx < e.len() {
            e[object_idx].extend(vals);
          }
        }
      }
      FT::F64 => {}
    }
  }
}

fn sim_build(doc: &Value) -> Sim {
  let mut st = Sim::default();
  if let Some(v) = doc.get("comment") {
    if !v.is_null() {
      sim_nested(&mut st, 1, v, "comment", None);
    }
  }
  st
}

fn ci_eq(a: &str, b: &str) -> bool {
  a.to_lowercase() == b.to_lowercase()
}

fn sim_group(st: &Sim, root: &Obj, base: &str, path: &str, parent: Option<usize>, group: &[&Filter]) -> bool {
  let full = if base.is_empty() { path.to_string() } else { format!("{base}.{path}") };
  let count = *st.counts.get(&full).unwrap_or(&0);
  let empty = vec![];
  let parents = st.parents.get(&full).unwrap_or(&empty);
  for idx in 0..count {
    if let Some(p) = parent {
      let got = parents.get(idx).copied().filter(|x| *x != usize::MAX && *x != u32::MAX as usize);
      if got != Some(p) {
        continue;
      }
    }
    if group.iter().all(|f| sim_eval(st, root, f, &full, Some(idx))) {
      return true;
    }
  }
  false
}

fn sim_and(st: &Sim, root: &Obj, filters: &[Filter], base: &str, obj: Option<usize>) -> bool {
  let mut groups: BTreeMap<&str, Vec<&Filter>> = BTreeMap::new();
  for f in filters {
    match f {
      Filter::Nested { path, filter } => groups.entry(path.as_str()).or_default().push(filter.as_ref()),
      other => {
        if !sim_eval(st, root, other, base, obj) {
          return false;
        }
      }
    }
  }
  groups.iter().all(|(p, g)| sim_group(st, root, base, p, obj, g))
}

fn sim_eval(st: &Sim, root: &Obj, f: &Filter, base: &str, obj: Option<usize>) -> bool {
  let q = |field: &str| if base.is_empty() { field.to_string() } else { format!("{base}.{field}") };
  match (f, obj) {
    (Filter::And(v), _) => sim_and(st, root, v, base, obj),
    (Filter::Or(v), _) => v.iter().any(|x| sim_eval(st, root, x, base, obj)),
    (Filter::Not(x), _) => !sim_eval(st, root, x, base, obj),
    (Filter::Nested { path, filter }, _) => sim_group(st, root, base, path, obj, &[filter.as_ref()]),
    // document-level leaves (plain or dotted) read every recorded value: unaffected by the defect
    (leaf, None) => compile(leaf, 0).map(|c| eval(&c, root)).unwrap_or(false),
    (Filter::KeywordEq { field, value }, Some(i)) => st.kw.get(&q(field)).and_then(|v| v.get(i)).map(|vals| vals.iter().any(|x| ci_eq(x, value))).unwrap_or(false),
    (Filter::KeywordIn { field, values }, Some(i)) => {
      st.kw.get(&q(field)).and_then(|v| v.get(i)).map(|vals| vals.iter().any(|x| values.iter().any(|t| ci_eq(t, x)))).unwrap_or(false)
    }
    (Filter::I64Range { field, min, max }, Some(i)) => st.i.get(&q(field)).and_then(|v| v.get(i)).map(|vals| vals.iter().any(|x| x >= min && x <= max)).unwrap_or(false),
    (Filter::F64Range { .. }, Some(_)) => false,
  }
}

/// Level (2 = reply, 3 = deep) at which >= 2 parent objects each carry a non-null child value.
fn h7_doc_level(doc: &Value) -> Option<usize> {
  fn objects<'a>(v: Option<&'a Value>) -> Vec<&'a Map<String, Value>> {
    match v {
      Some(Value::Array(a)) => a.iter().filter_map(|x| x.as_object()).collect(),
      Some(Value::Object(m)) => vec![m],
      _ => vec![],
    }
  }
  let comments = objects(doc.get("comment"));
  let with_reply = comments.iter().filter(|c| c.get("reply").map(|r| !r.is_null()).unwrap_or(false)).count();
  if with_reply >= 2 {
    return Some(2);
  }
  let mut with_deep = 0;
  for c in &comments {
    for r in objects(c.get("reply")) {
      if r.get("deep").map(|d| !d.is_null()).unwrap_or(false) {
        with_deep += 1;
      }
    }
  }
  if with_deep >= 2 {
    return Some(3);
  }
  None
}

/// Narrow classifier for the parent-binding defect: (1) the document has >= 2 objects at one nested
/// level that each carry a child value, (2) the filter evaluates a Nested clause at that child level
/// (a Nested inside a Nested), and (3) the observed answer is exactly what the model of the defect
/// predicts for this document and filter. Anything else stays unexplained.
fn h7_explains(doc: &Value, root: &Obj, f: &Filter, observed: bool) -> bool {
  let Some(level) = h7_doc_level(doc) else { return false };
  if !has_nested_at(f, 0, level) {
    return false;
  }
  let st = sim_build(doc);
  sim_eval(&st, root, f, "", None) == observed
}

// ---------------------------------------------------------------------------------------------
// Filter trees.

#[derive(Clone, Debug, PartialEq, Eq, Hash)]
enum T {
  Leaf(u16),
  Not(Box<T>),
  Nested(u8, Box<T>),
  And(Vec<T>),
  Or(Vec<T>),
}

#[derive(Clone, Copy, PartialEq, Eq, Hash, Debug)]
enum Par {
  Root,
  Not,
  And,
  Or,
  Nested,
}

/// (scope level, filter JSON). Document values are alice/bob (stored as "Alice"/"bob"), x/y (+ "Y",
/// "z"), 1/2/3, 0.5/1.0/1.5/2.5, p/q.
fn leaf_table() -> Vec<(usize, Value)> {
  vec![
    // scope 0
    (0, json!({"KeywordEq": {"field": "kw", "value": "X"}})),                           // 0 case variant
    (0, json!({"I64Range": {"field": "n", "min": 2, "max": 3}})),                       // 1 both bounds hit
    (0, json!({"KeywordEq": {"field": "comment.author", "value": "ALICE"}})),           // 2 dotted, level 1
    (0, json!({"KeywordEq": {"field": "comment.reply.tag", "value": "x"}})),            // 3 dotted, level 2
    (0, json!({"KeywordIn": {"field": "kw", "values": ["y", "Z"]}})),                   // 4
    (0, json!({"F64Range": {"field": "f", "min": 0.5, "max": 1.0}})),                   // 5 both bounds hit
    (0, json!({"I64Range": {"field": "f", "min": 0, "max": 3}})),                       // 6 type mismatch
    (0, json!({"F64Range": {"field": "n", "min": 0.0, "max": 3.0}})),                   // 7 type mismatch
    (0, json!({"I64Range": {"field": "comment.reply.n", "min": 2, "max": 2}})),         // 8 dotted numeric
    (0, json!({"KeywordEq": {"field": "comment.reply.deep.k", "value": "P"}})),         // 9 dotted, level 3
    // scope 1 (inside Nested comment)
    (1, json!({"KeywordEq": {"field": "author", "value": "alice"}})),                   // 10
    (1, json!({"I64Range": {"field": "score", "min": 1, "max": 1}})),                   // 11
    (1, json!({"KeywordIn": {"field": "author", "values": ["BOB", "carol"]}})),         // 12
    (1, json!({"F64Range": {"field": "score", "min": 0.0, "max": 5.0}})),               // 13 type mismatch
    // scope 2 (inside Nested reply)
    (2, json!({"KeywordEq": {"field": "tag", "value": "X"}})),                          // 14
    (2, json!({"I64Range": {"field": "n", "min": 2, "max": 2}})),                       // 15
    (2, json!({"KeywordIn": {"field": "tag", "values": ["y"]}})),                       // 16
    // scope 3 (inside Nested deep)
    (3, json!({"KeywordEq": {"field": "k", "value": "P"}})),                            // 17
    (3, json!({"KeywordIn": {"field": "k", "values": ["q", "r"]}})),                    // 18
  ]
}

/// Leaf alphabets by tree size: trees with few leaves use the full alphabet, larger ones a reduced
/// one (`[scope] -> leaf ids`).
fn leaf_sets(k: usize) -> [Vec<u16>; 4] {
  match k {
    1 | 2 => [vec![0, 1, 2, 3, 4, 5, 6, 7, 8, 9], vec![10, 11, 12, 13], vec![14, 15, 16], vec![17, 18]],
    3 => [vec![0, 1, 2, 3], vec![10, 11], vec![14, 15], vec![17]],
    _ => [vec![0, 3], vec![10, 11], vec![14, 15], vec![17]],
  }
}

struct Gen {
  leaves: [Vec<u16>; 4],
  memo: HashMap<(u8, u8, u8, Par), Arc<Vec<T>>>,
}

fn compositions_k(k: usize) -> Vec<Vec<usize>> {
  // ordered compositions of k with at least 2 parts
  compositions(k).into_iter().filter(|c| c.len() >= 2).collect()
}

impl Tree {
  fn filter(&self) -> &Filter {
    self.req.filter.as_ref().unwrap()
  }
  fn json(&self) -> Value {
    serde_json::to_value(self.filter()).unwrap()
  }
}

impl Gen {
  /// All trees in `scope` with exactly `k` leaves and depth <= `d` whose root may sit under `par`.
  /// Canonical-form reductions: no Not directly under Not, no And directly under And, no Or
  /// directly under Or, And/Or have >= 2 children (children are ordered).
  fn gen(&mut self, scope: u8, k: u8, d: u8, par: Par) -> Arc<Vec<T>> {
    if k == 0 || d == 0 {
      return Arc::new(vec![]);
    }
    if let Some(v) = self.memo.get(&(scope, k, d, par)) {
      return v.clone();
    }
    let mut out: Vec<T> = Vec::new();
    if k == 1 {
      for l in &self.leaves[scope as usize] {
        out.push(T::Leaf(*l));
      }
    }
    if d >= 2 {
      if par != Par::Not {
        for t in self.gen(scope, k, d - 1, Par::Not).iter() {
          out.push(T::Not(Box::new(t.clone())));
        }
      }
      if scope < 3 {
        for t in self.gen(scope + 1, k, d - 1, Par::Nested).iter() {
          out.push(T::Nested(scope + 1, Box::new(t.clone())));
        }
      }
      if k >= 2 {
        for (is_and, p) in [(true, Par::And), (false, Par::Or)] {
          if par == p {
            continue;
          }
          for comp in compositions_k(k as usize) {
            let lists: Vec<Arc<Vec<T>>> = comp.iter().map(|ki| self.gen(scope, *ki as u8, d - 1, p)).collect();
            if lists.iter().any(|l| l.is_empty()) {
              continue;
            }
            let mut idx = vec![0usize; lists.len()];
            'prod: loop {
              let ch: Vec<T> = idx.iter().enumerate().map(|(i, j)| lists[i][*j].clone()).collect();
              out.push(if is_and { T::And(ch) } else { T::Or(ch) });
              let mut pos = lists.len();
              loop {
                if pos == 0 {
                  break 'prod;
                }
                pos -= 1;
                idx[pos] += 1;
                if idx[pos] < lists[pos].len() {
                  break;
                }
                idx[pos] = 0;
              }
            }
          }
        }
      }
    }
    let a = Arc::new(out);
    self.memo.insert((scope, k, d, par), a.clone());
    a
  }
}

fn tree_json(t: &T, leaves: &[(usize, Value)]) -> Value {
  match t {
    T::Leaf(i) => leaves[*i as usize].1.clone(),
    T::Not(x) => json!({"Not": tree_json(x, leaves)}),
    T::Nested(l, x) => json!({"Nested": {"path": LEVELS[*l as usize - 1].child.unwrap(), "filter": tree_json(x, leaves)}}),
    T::And(v) => json!({"And": v.iter().map(|x| tree_json(x, leaves)).collect::<Vec<_>>()}),
    T::Or(v) => json!({"Or": v.iter().map(|x| tree_json(x, leaves)).collect::<Vec<_>>()}),
  }
}

fn tree_leaves(t: &T) -> usize {
  match t {
    T::Leaf(_) => 1,
    T::Not(x) | T::Nested(_, x) => tree_leaves(x),
    T::And(v) | T::Or(v) => v.iter().map(tree_leaves).sum(),
  }
}

fn tree_size(t: &T) -> usize {
  match t {
    T::Leaf(_) => 1,
    T::Not(x) | T::Nested(_, x) => 1 + tree_size(x),
    T::And(v) | T::Or(v) => 1 + v.iter().map(tree_size).sum::<usize>(),
  }
}

struct Tree {
  ct: CT,
  req: SearchRequest,
  leaves: usize,
  size: usize,
}

fn base_request() -> SearchRequest {
  req(json!({"query": {"type": "match_all"}, "limit": 10, "execution": "bm25"}))
}

fn mk_tree(fj: Value, leaves: usize, size: usize, base: &SearchRequest) -> Tree {
  let filter: Filter = serde_json::from_value(fj).expect("filter json");
  let ct = compile(&filter, 0).expect("filter compiles for the oracle");
  let mut r = base.clone();
  r.filter = Some(filter);
  Tree { ct, req: r, leaves, size }
}

/// All trees, simplest first. `max_leaves` 3 (quick) or 4 (thorough); depth <= 4 (a leaf has
/// depth 1).
fn all_trees(max_leaves: usize, depth: u8) -> Vec<Tree> {
  let table = leaf_table();
  let base = base_request();
  let mut out = Vec::new();
  for k in 1..=max_leaves {
    let mut g = Gen { leaves: leaf_sets(k), memo: HashMap::new() };
    let ts = g.gen(0, k as u8, depth, Par::Root);
    let mut v: Vec<&T> = ts.iter().collect();
    v.sort_by_key(|t| tree_size(t));
    for t in v {
      out.push(mk_tree(tree_json(t, &table), tree_leaves(t), tree_size(t), &base));
    }
  }
  out
}

// ---------------------------------------------------------------------------------------------
// Documents.

fn reply_alphabet(thorough: bool) -> Vec<Value> {
  let mut v = vec![
    json!({"tag": "x", "n": 1}),
    json!({"tag": "y", "n": 2}),
    json!({"tag": "x", "n": 2, "deep": {"k": "p"}}),
    json!({"tag": "Y", "n": 1, "deep": {"k": "q"}}),
  ];
  if thorough {
    // multi-valued properties, array-form deep, missing property
    v.push(json!({"tag": ["x", "y"], "n": [1, 2], "deep": [{"k": "p"}]}));
  }
  v
}

/// Values of the `reply` key inside a comment (None = key absent).
fn reply_forms(thorough: bool) -> Vec<Option<Value>> {
  let r = reply_alphabet(thorough);
  let mut out: Vec<Option<Value>> = vec![None, Some(json!([]))];
  if thorough {
    out.push(Some(Value::Null));
    for x in [0usize, 2, 4] {
      out.push(Some(r[x].clone())); // single object instead of an array
    }
    for x in &r {
      out.push(Some(json!([x])));
    }
    for a in &r {
      for b in &r {
        out.push(Some(json!([a, b])));
      }
    }
    out.push(Some(json!([null, r[1]])));
  } else {
    out.push(Some(r[0].clone())); // single object
    out.push(Some(json!([r[1]])));
    out.push(Some(json!([r[3]])));
    out.push(Some(json!([r[0], r[1]])));
    out.push(Some(json!([r[2], r[3]])));
  }
  out
}

fn comment_alphabet(thorough: bool) -> Vec<Value> {
  let mut out = Vec::new();
  for (a, s) in [("Alice", 1), ("bob", 2)] {
    for rf in reply_forms(thorough) {
      let mut c = json!({"author": a, "score": s});
      if let Some(r) = rf {
        c["reply"] = r;
      }
      out.push(c);
    }
  }
  if thorough {
    out.push(json!({"author": ["Alice", "bob"], "score": [1, 2]}));
    out.push(json!({"author": null, "reply": [{"tag": "x", "deep": null}]}));
    out.push(json!({"score": 2, "reply": {"n": 2, "deep": {"k": "p"}}}));
  }
  out
}

/// Values of the `comment` key of a document (None = absent).
fn comment_forms(thorough: bool) -> Vec<Option<Value>> {
  let c = comment_alphabet(thorough);
  let mut out: Vec<Option<Value>> = vec![None, Some(Value::Null), Some(json!([]))];
  for x in &c {
    out.push(Some(x.clone())); // single object
  }
  for x in c.iter().step_by(3) {
    out.push(Some(json!([x]))); // one-element array
  }
  for a in &c {
    for b in &c {
      out.push(Some(json!([a, b])));
    }
  }
  out.push(Some(json!([null, c[c.len() - 1]])));
  out.push(Some(json!([c[2], null])));
  out
}

fn top_variants() -> Vec<Value> {
  vec![
    json!({}),
    json!({"kw": "x", "n": 1, "f": 1.0}),
    json!({"kw": ["x", "Y"], "n": [1, 2], "f": [0.5, 2.5]}),
    json!({"kw": "Y", "n": 2, "f": 2.5}),
    json!({"kw": [], "n": [], "f": []}),
    json!({"kw": ["z"], "n": [3], "f": [1.5]}),
    json!({"kw": null, "n": null, "f": null}),
  ]
}

/// The document set: every `comment` form, each combined with one top-level variant (rotating), plus
/// the full cross product of top-level variants with a small set of comment forms. Without `_id`.
fn documents(thorough: bool) -> Vec<Value> {
  let tops = top_variants();
  let forms = comment_forms(thorough);
  let mut out: Vec<Value> = Vec::new();
  let mut seen: HashSet<String> = HashSet::new();
  let mut push = |d: Value, out: &mut Vec<Value>| {
    let s = d.to_string();
    if seen.insert(s) {
      out.push(d);
    }
  };
  let mk = |t: &Value, c: &Option<Value>| {
    let mut d = t.clone();
    if let Some(c) = c {
      d["comment"] = c.clone();
    }
    d
  };
  // cross product with the simplest comment forms
  let small: Vec<Option<Value>> = vec![None, forms[3].clone(), Some(json!([{"author": "Alice", "score": 1, "reply": [{"tag": "x", "n": 1}]}, {"author": "bob", "score": 2, "reply": [{"tag": "y", "n": 2}]}]))];
  for t in &tops {
    for c in &small {
      push(mk(t, c), &mut out);
    }
  }
  let mut rest: Vec<Value> = Vec::new();
  for (i, c) in forms.iter().enumerate() {
    rest.push(mk(&tops[i % tops.len()], c));
  }
  rest.sort_by_key(|d| d.to_string().len());
  for d in rest {
    push(d, &mut out);
  }
  let (sparse, dense) = sparse_documents();
  for d in sparse.into_iter().chain(dense) {
    push(d, &mut out);
  }
  out
}

/// Documents whose LAST nested object omits a nullable property that an earlier object of the same
/// array has (absent, null or empty array), for every property of every nesting level and both
/// values of its alphabet; and "dense" partner documents whose objects carry one and the same value
/// at every position of every level. In the per-field nested columns a document only occupies
/// slots up to its last object that has a value, so a trailing sparse object has no slot of its
/// own: the partner placed next to it in the same segment supplies the neighbouring slots.
fn sparse_documents() -> (Vec<Value>, Vec<Value>) {
  let vals = [("Alice", 1, "x", 1, "p"), ("bob", 2, "y", 2, "q")];
  let mut sparse = Vec::new();
  for (a, s, t, n, k) in vals {
    // comment level: trailing comment lacks score / author / both
    sparse.push(json!({"comment": [{"author": a, "score": s}, {"author": a}]}));
    sparse.push(json!({"comment": [{"author": a, "score": s}, {"score": s}]}));
    // reply level: trailing reply lacks n / tag
    sparse.push(json!({"comment": [{"author": a, "score": s, "reply": [{"tag": t, "n": n}, {"tag": t}]}]}));
    sparse.push(json!({"comment": [{"author": a, "score": s, "reply": [{"tag": t, "n": n}, {"n": n}]}]}));
    // deep level: trailing deep object lacks k
    sparse.push(json!({"comment": [{"author": a, "score": s, "reply": [{"tag": t, "n": n, "deep": {"k": k}}, {"tag": t, "n": n, "deep": {}}]}]}));
  }
  // null / empty-array instead of an absent property; sparse object in the second comment's replies
  sparse.push(json!({"comment": [{"author": "bob", "score": 2}, {"author": "bob", "score": null}]}));
  sparse.push(json!({"comment": [{"author": "Alice", "score": 1}, {"author": [], "score": 1}]}));
  sparse.push(json!({"comment": [{"author": "bob", "score": 2, "reply": [{"tag": "y", "n": 2}]}, {"author": "bob", "score": 2, "reply": [{"tag": null, "n": []}]}]}));
  let mut dense = Vec::new();
  for (a, s, t, n, k) in vals {
    let r = json!({"tag": t, "n": n, "deep": {"k": k}});
    let c = json!({"author": a, "score": s, "reply": [r.clone(), r]});
    dense.push(json!({"comment": [c.clone(), c]}));
  }
  (sparse, dense)
}

fn with_id(d: &Value, i: usize) -> Value {
  let mut d = d.clone();
  d["_id"] = json!(id_of(i));
  d
}

fn mk_world(docs: &[&Value], layout: &[usize]) -> World {
  let ds: Vec<Value> = docs.iter().enumerate().map(|(i, d)| with_id(d, i)).collect();
  World::new("kw+num+nested3", schema_json(), ds).with_layout(layout.to_vec())
}

// ---------------------------------------------------------------------------------------------
// One case = (world, filter).

struct Failure {
  sig: Option<&'static str>,
  what: String,
}

/// Evaluate one filter on a built world; `roots[i]` is the parsed model of `world.docs[i]`.
fn check_case(reader: &searchlite_core::api::IndexReader, world: &World, roots: &[Model], tree: &Tree) -> (Vec<Option<bool>>, Option<Failure>) {
  let expected: Vec<Option<bool>> = roots.iter().map(|o| eval_demanded(&tree.ct, o)).collect();
  let res = match search_caught(reader, &tree.req) {
    Ok(r) => r,
    Err(e) => {
      return (expected, Some(Failure { sig: None, what: format!("search failed: {e}") }));
    }
  };
  let got: HashSet<&str> = res.hits.iter().map(|h| h.doc_id.as_str()).collect();
  if got.len() != res.hits.len() {
    return (expected, Some(Failure { sig: None, what: "duplicate hit".into() }));
  }
  let mut wrong: Vec<usize> = Vec::new();
  for (i, d) in world.docs.iter().enumerate() {
    let id = d["_id"].as_str().unwrap();
    if let Some(e) = expected[i] {
      if got.contains(id) != e {
        wrong.push(i);
      }
    }
  }
  if wrong.is_empty() {
    if res.total_hits_estimate != res.hits.len() as u64 {
      return (expected, Some(Failure { sig: None, what: format!("total_hits_estimate {} but {} hits were returned by an exhaustive (bm25) search with limit above the corpus size", res.total_hits_estimate, res.hits.len()) }));
    }
    return (expected, None);
  }
  let mut all_explained = true;
  let mut parts = Vec::new();
  for i in &wrong {
    let exp = expected[*i].unwrap();
    let observed = !exp;
    let explained = h7_explains(&world.docs[*i], &roots[*i].a, tree.filter(), observed);
    all_explained &= explained;
    parts.push(format!(
      "doc {} {} {} the filter but the documented semantics say it {}",
      world.docs[*i],
      if observed { "PASSES" } else { "is REJECTED by" },
      tree.json(),
      if exp { "passes" } else { "is rejected" }
    ));
  }
  let others: Vec<String> = world.docs.iter().enumerate().filter(|(i, _)| !wrong.contains(i)).map(|(_, d)| d.to_string()).collect();
  let ctx = if others.is_empty() { String::new() } else { format!(" [other documents of the world, in commit order with the above: {}]", others.join(", ")) };
  let what = format!("layout {:?}: {}{}", world.layout, parts.join("; "), ctx);
  (expected, Some(Failure { sig: if all_explained { Some(SIG_H7) } else { None }, what }))
}

fn case_json(world: &World, filter: &Value) -> Value {
  json!({"engine": "inputmc-filter", "world": world.to_json(), "filter": filter})
}

struct Kept {
  key: (usize, usize, usize, usize),
  sig: Option<&'static str>,
  what: String,
  case: Value,
}

/// Keep at most five failures per signature class, the smallest by `key`.
fn keep_smallest(k: &mut Vec<Kept>, key: (usize, usize, usize, usize), sig: Option<&'static str>, mk: impl FnOnce() -> (String, Value)) {
  let same: Vec<usize> = k.iter().enumerate().filter(|(_, x)| x.sig == sig).map(|(i, _)| i).collect();
  if same.len() < 5 {
    let (what, case) = mk();
    k.push(Kept { key, sig, what, case });
  } else if let Some(worst) = same.iter().max_by_key(|i| k[**i].key).copied() {
    if key < k[worst].key {
      let (what, case) = mk();
      k[worst] = Kept { key, sig, what, case };
    }
  }
}

pub fn run(ctx: &Ctx) -> i32 {
  let mut rep = Reporter::new("C08", ctx.tier, "exploration");
  let quick = ctx.tier.is_quick();
  if let Some(path) = &ctx.replay {
    rep.set_replaying(true);
    let v: Value = serde_json::from_slice(&std::fs::read(path).expect("replay file")).expect("json");
    let cs = &v["case"];
    let world = World::from_json(&cs["world"]);
    let tree = mk_tree(cs["filter"].clone(), 0, 0, &base_request());
    let roots: Vec<Model> = world.docs.iter().map(model).collect();
    let run = || {
      let idx = world.build();
      let reader = idx.reader().expect("reader");
      check_case(&reader, &world, &roots, &tree).1.map(|f| (f.sig, f.what))
    };
    let (a, b) = (run(), run());
    if a.is_some() != b.is_some() {
      vcore::ev::machinery_failure("NONDETERMINISM on replay");
    }
    return match a {
      Some((sig, w)) => {
        println!("VIOLATION property=C08 replay={path}\n  signature: {}\n  what: {w}", sig.unwrap_or("-"));
        1
      }
      None => {
        println!("replay: no violation");
        0
      }
    };
  }

  let trees = all_trees(if quick { 3 } else { 4 }, 4);
  let mut by_leaves: BTreeMap<usize, usize> = BTreeMap::new();
  for t in &trees {
    *by_leaves.entry(t.leaves).or_default() += 1;
  }
  let docs = documents(!quick);
  // worlds, simplest first: single-document worlds over the quick document set; then (thorough) the
  // large document set packed two per world; then all ordered pairs of a small subset x both layouts
  let mut worlds: Vec<World> = Vec::new();
  let quick_docs = documents(false);
  for d in &quick_docs {
    worlds.push(mk_world(&[d], &[1]));
  }
  // every sparse-trailing-object document next to every dense document in ONE segment, both orders
  // (and next to another sparse document of the other value)
  let (sparse, dense) = sparse_documents();
  let mut sparse_worlds = 0usize;
  for d in &sparse {
    for f in &dense {
      worlds.push(mk_world(&[d, f], &[2]));
      worlds.push(mk_world(&[f, d], &[2]));
      sparse_worlds += 2;
    }
  }
  for (i, d) in sparse.iter().enumerate() {
    let e = &sparse[(i + 5) % sparse.len()];
    worlds.push(mk_world(&[d, e], &[2]));
    sparse_worlds += 1;
  }
  let mut bulk_pairs = 0usize;
  if !quick {
    let qs: HashSet<String> = quick_docs.iter().map(|d| d.to_string()).collect();
    let extra: Vec<&Value> = docs.iter().filter(|d| !qs.contains(&d.to_string())).collect();
    for (pi, ch) in extra.chunks(2).enumerate() {
      let lay: Vec<usize> = if ch.len() == 2 {
        if pi % 2 == 0 {
          vec![2]
        } else {
          vec![1, 1]
        }
      } else {
        vec![1]
      };
      worlds.push(mk_world(ch, &lay));
      bulk_pairs += 1;
    }
  }
  let pair_pool: Vec<&Value> = {
    let want = if quick { 8 } else { 32 };
    // a spread over the document set: the first (simplest, all top-level variants) and a stride
    let mut v: Vec<&Value> = quick_docs.iter().take(want / 2).collect();
    let stride = (docs.len() / (want - v.len()).max(1)).max(1);
    let mut i = docs.len() - 1;
    while v.len() < want {
      v.push(&docs[i]);
      if i < stride {
        break;
      }
      i -= stride;
    }
    v
  };
  for a in &pair_pool {
    for b in &pair_pool {
      for lay in [vec![2], vec![1, 1]] {
        worlds.push(mk_world(&[a, b], &lay));
      }
    }
  }
  if std::env::var("C08_COUNTS").is_ok() {
    println!("trees {:?} total {} docs {} worlds {} (pair pool {})", by_leaves, trees.len(), docs.len(), worlds.len(), pair_pool.len());
    return 0;
  }

  let evals = AtomicU64::new(0);
  let doc_evals = AtomicU64::new(0);
  let pass_cnt = AtomicU64::new(0);
  let reject_cnt = AtomicU64::new(0);
  let binding_decisive = AtomicU64::new(0);
  let ambiguous = AtomicU64::new(0);
  let proper_subset = AtomicU64::new(0);
  let tree_true: Vec<AtomicBool> = trees.iter().map(|_| AtomicBool::new(false)).collect();
  let tree_false: Vec<AtomicBool> = trees.iter().map(|_| AtomicBool::new(false)).collect();
  let fail_counts: Mutex<BTreeMap<String, u64>> = Mutex::new(BTreeMap::new());
  let kept: Mutex<Vec<Kept>> = Mutex::new(Vec::new());
  let sent_known = AtomicBool::new(false);
  let deadline = if quick { 33.0 } else { 840.0 };
  let timed_out = AtomicBool::new(false);
  let worlds_done = AtomicU64::new(0);

  // chunks keep the simplest-first order roughly intact under parallel execution
  for chunk in worlds.chunks(256) {
    chunk.par_iter().for_each(|world| {
      if rep.elapsed_s() > deadline {
        timed_out.store(true, Ordering::Relaxed);
        return;
      }
      let idx = world.build();
      let reader = idx.reader().expect("reader");
      let roots: Vec<Model> = world.docs.iter().map(model).collect();
      let (mut ev, mut pc, mut rc, mut bd, mut ps, mut amb) = (0u64, 0u64, 0u64, 0u64, 0u64, 0u64);
      let mut local_counts: BTreeMap<&'static str, u64> = BTreeMap::new();
      let mut local_kept: Vec<Kept> = Vec::new();
      let doc_len: usize = world.docs.iter().map(|d| d.to_string().len()).sum();
      for (ti, tree) in trees.iter().enumerate() {
        if ti % 4096 == 4095 && rep.elapsed_s() > deadline {
          timed_out.store(true, Ordering::Relaxed);
          return;
        }
        ev += 1;
        let (expected, fail) = check_case(&reader, world, &roots, tree);
        let (mut t, mut rj) = (0, 0);
        for (i, e) in expected.iter().enumerate() {
          let Some(e) = e else {
            amb += 1;
            continue;
          };
          if *e {
            pc += 1;
            t += 1;
            if !tree_true[ti].load(Ordering::Relaxed) {
              tree_true[ti].store(true, Ordering::Relaxed);
            }
          } else {
            rc += 1;
            rj += 1;
            if !tree_false[ti].load(Ordering::Relaxed) {
              tree_false[ti].store(true, Ordering::Relaxed);
            }
          }
          if eval_flat(&tree.ct, &roots[i].a, 0) != *e {
            bd += 1;
          }
        }
        if t > 0 && rj > 0 {
          ps += 1;
        }
        if let Some(f) = fail {
          *local_counts.entry(f.sig.unwrap_or("unexplained")).or_default() += 1;
          if let Some(sig) = f.sig {
            if rep.is_known_open(sig) {
              // tolerated known finding: count every case, keep the full witness for the first only
              if !sent_known.swap(true, Ordering::SeqCst) {
                rep.fail(Some(sig), &f.what, case_json(world, &tree.json()));
              } else {
                rep.fail(Some(sig), "", Value::Null);
              }
              continue;
            }
          }
          let key = (world.docs.len(), doc_len, tree.leaves, tree.size);
          keep_smallest(&mut local_kept, key, f.sig, || (f.what.clone(), case_json(world, &tree.json())));
        }
      }
      if !local_counts.is_empty() {
        let mut fc = fail_counts.lock();
        for (l, n) in local_counts {
          *fc.entry(l.to_string()).or_default() += n;
        }
        let mut k = kept.lock();
        for x in local_kept {
          let (key, sig) = (x.key, x.sig);
          let mut slot = Some(x);
          keep_smallest(&mut k, key, sig, || {
            let x = slot.take().unwrap();
            (x.what, x.case)
          });
        }
      }
      evals.fetch_add(ev, Ordering::Relaxed);
      doc_evals.fetch_add(pc + rc, Ordering::Relaxed);
      pass_cnt.fetch_add(pc, Ordering::Relaxed);
      reject_cnt.fetch_add(rc, Ordering::Relaxed);
      binding_decisive.fetch_add(bd, Ordering::Relaxed);
      ambiguous.fetch_add(amb, Ordering::Relaxed);
      proper_subset.fetch_add(ps, Ordering::Relaxed);
      worlds_done.fetch_add(1, Ordering::Relaxed);
      if rep.sample_full() {
        return;
      }
      if world.docs.len() == 2 {
        let tree = &trees[trees.len() / 2];
        rep.sample(json!({"world": world.describe(), "filter": tree.json(), "expected_pass": roots.iter().map(|o| eval_demanded(&tree.ct, o)).collect::<Vec<_>>()}));
      }
    });
  }
  rep.add_evals(evals.load(Ordering::Relaxed));

  // report the kept (smallest) failures: unexplained first, then one class after the other
  let mut k = std::mem::take(&mut *kept.lock());
  k.sort_by(|a, b| (a.sig.is_some(), a.key).cmp(&(b.sig.is_some(), b.key)));
  let mut reported: BTreeMap<String, u64> = BTreeMap::new();
  // interleave classes so that each gets a replay file among the first five
  let mut order: Vec<&Kept> = Vec::new();
  let mut rank: HashMap<Option<&str>, usize> = HashMap::new();
  let mut ranked: Vec<(usize, usize, &Kept)> = Vec::new();
  for (i, x) in k.iter().enumerate() {
    let r = rank.entry(x.sig).or_insert(0);
    ranked.push((*r, i, x));
    *r += 1;
  }
  ranked.sort_by_key(|x| (x.0, x.1));
  for (_, _, x) in ranked {
    order.push(x);
  }
  for x in order {
    rep.fail(x.sig, &x.what, x.case.clone());
    *reported.entry(x.sig.unwrap_or("unexplained").to_string()).or_default() += 1;
  }
  let counts = fail_counts.lock().clone();
  for (label, n) in &counts {
    let sig = if label == "unexplained" { None } else { Some(label.as_str()) };
    if let Some(s) = sig {
      if rep.is_known_open(s) {
        continue;
      }
    }
    let already = reported.get(label).copied().unwrap_or(0);
    for _ in already..*n {
      rep.fail(sig, "(further case of the same class)", Value::Null);
    }
  }

  let to = timed_out.load(Ordering::Relaxed);
  let discriminating = tree_true.iter().zip(&tree_false).filter(|(a, b)| a.load(Ordering::Relaxed) && b.load(Ordering::Relaxed)).count();
  let mut outcomes = 0;
  if pass_cnt.load(Ordering::Relaxed) > 0 {
    outcomes += 1;
  }
  if reject_cnt.load(Ordering::Relaxed) > 0 {
    outcomes += 1;
  }
  if outcomes < 2 || discriminating == 0 {
    vcore::ev::machinery_failure("C08 vacuous: filters never both passed and rejected documents");
  }
  let cov = vcore::cov! {
    "distinct_nontrivial" => discriminating,
    "rule" => "a filter tree is non-trivial when the documented semantics make it pass at least one document of the document set and reject at least one; cases = (world, tree), each deciding every document of the world",
    "trees" => trees.len(),
    "trees_by_leaves" => by_leaves.iter().map(|(k, v)| (k.to_string(), json!(v))).collect::<Map<String, Value>>(),
    "tree_bound" => format!("all ordered And/Or/Not/Nested trees with <= {} leaves and depth <= 4 (leaf = depth 1); canonical-form reductions: no Not under Not, no And under And, no Or under Or, And/Or have >= 2 children; leaf alphabet per scope: full (10/4/3/2 leaves for document/comment/reply/deep scope) for trees with <= 2 leaves, 4/2/2/1 for 3 leaves, 2/2/2/1 for 4 leaves", if quick { 3 } else { 4 }),
    "documents" => docs.len(),
    "worlds" => worlds.len(),
    "worlds_done" => worlds_done.load(Ordering::Relaxed),
    "sparse_trailing_object_worlds" => sparse_worlds,
    "world_rule" => format!("single-document worlds for the {} quick documents; every document whose last comment / reply / deep object omits a nullable property (absent, null, []) in one segment with every dense document (same value at every object position), both orders; {} worlds packing the remaining documents two per world (layouts [2] / [1,1] alternating); all ordered pairs of {} pool documents x layouts [2],[1,1]", quick_docs.len(), bulk_pairs, pair_pool.len()),
    "document_evaluations" => doc_evals.load(Ordering::Relaxed),
    "documents_passing" => pass_cnt.load(Ordering::Relaxed),
    "documents_rejected" => reject_cnt.load(Ordering::Relaxed),
    "binding_decisive_evaluations" => binding_decisive.load(Ordering::Relaxed),
    "document_evaluations_not_demanded_ambiguous" => ambiguous.load(Ordering::Relaxed),
    "binding_rule" => "document evaluations whose documented answer differs from the naive flattened reading (no same-object / parent binding)",
    "cases_matching_proper_subset_of_world" => proper_subset.load(Ordering::Relaxed),
    "failure_classes" => counts.iter().map(|(k, v)| (k.clone(), json!(v))).collect::<Map<String, Value>>(),
    "distinct_observed_outcomes" => outcomes,
    "cap_hit" => if to { Some(format!("wall budget {deadline}s")) } else { None },
    "exhaustive" => !to,
  };
  rep.finish(
    cov,
    vec![
      "And[Nested p X, Nested p Y] binds X and Y to one object c of p (README); whether Nested clauses directly inside X and Y must then also share one grandchild (chains with a common prefix share all their objects, as the implementation does) or are independent existentials is not documented: both readings are computed and a document is only judged when they agree".into(),
      "a null element inside an array of nullable nested objects is admitted both as 'no object' and as 'an object without properties' (the implementation gives it an object slot, so Nested(p, Not(..)) matches it); documents whose answer depends on that are not judged".into(),
      "Not around Nested is the plain negation of the existential (README gives no other reading)".into(),
      "left out because the documentation is silent: dotted-path leaves inside a Nested clause, Nested with a multi-segment path, Nested on a path that is not a child of the current scope, keyword filters on numeric fields and ranges on keyword fields, empty And/Or/KeywordIn, And directly under And (whether sibling binding crosses the inner And is not documented)".into(),
      "every nesting level of the schema has one nested child, so all sibling Nested clauses under one And share their path; sibling Nested clauses with different paths are not exercised".into(),
      "filters are observed through the request-level `filter` with match_all and execution bm25 only (bool.filter / constant_score are C07's concern)".into(),
    ],
  )
}
