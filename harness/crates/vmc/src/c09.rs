//! C09 — pruned top-k (wand / bmw) equals exhaustive top-k (bm25).
//! Engine: inputmc prune — every small corpus over a fixed document-shape alphabet x 1-2 segment
//! layouts x scored query trees x limit 1..4 x {wand, bmw with block sizes 1,2,3,128,300},
//! compared differentially with the `bm25` execution of the same request.
//!
//! This file also hosts the helpers shared with C10 / C19 / C20: the world alphabet, the scored
//! query-tree alphabet, an independent BM25 / score-tree oracle and the ranking comparison.

use std::collections::{BTreeMap, BTreeSet, HashSet};
use std::sync::atomic::{AtomicBool, AtomicU64, Ordering};

use parking_lot::Mutex;
use rayon::prelude::*;
use serde_json::{json, Value};

use searchlite_core::api::IndexReader;
use vcore::ev::Reporter;
use vcore::inp::*;
use vcore::world::*;

use crate::Ctx;

pub const SIG_H8: &str = "C09-pruning-bound-ignores-custom-score";
pub const SIG_BMW: &str = "C09-bmw-current-block-bound-applied-to-later-blocks";

// ---------------------------------------------------------------------------------------------
// Failure log: keeps the smallest witnesses (by enumeration key) per failure class and reports
// them simplest-first after the parallel sweep: unexplained failures first, then one class after
// the other. Every failure is still counted through `Reporter::fail`.

pub type FailKey = Vec<u64>;

/// Run `f` over `items` in parallel, in consecutive chunks (so that under a wall budget the
/// completed part is a prefix of the simplest-first enumeration). Returns (items completed, capped).
pub fn par_sweep<T: Sync>(items: &[T], rep: &Reporter, deadline_s: f64, f: impl Fn(usize, &T) + Sync) -> (u64, bool) {
  let done = AtomicU64::new(0);
  let capped = AtomicBool::new(false);
  let chunk = 256;
  for (ci, part) in items.chunks(chunk).enumerate() {
    if rep.elapsed_s() > deadline_s {
      capped.store(true, Ordering::Relaxed);
      break;
    }
    part.par_iter().enumerate().for_each(|(i, it)| {
      if rep.elapsed_s() > deadline_s {
        capped.store(true, Ordering::Relaxed);
        return;
      }
      f(ci * chunk + i, it);
      done.fetch_add(1, Ordering::Relaxed);
    });
  }
  (done.load(Ordering::Relaxed), capped.load(Ordering::Relaxed))
}

/// Wall budget of a sweep in seconds (VERIF_BUDGET_S overrides, for experiments).
pub fn budget(default_s: f64) -> f64 {
  std::env::var("VERIF_BUDGET_S").ok().and_then(|s| s.parse().ok()).unwrap_or(default_s)
}

struct SigLog {
  count: u64,
  keep: BTreeMap<FailKey, (String, Value)>,
}

pub struct FailLog {
  inner: Mutex<BTreeMap<Option<&'static str>, SigLog>>,
  keep_n: usize,
}

impl Default for FailLog {
  fn default() -> Self {
    FailLog::new()
  }
}

impl FailLog {
  pub fn new() -> FailLog {
    FailLog { inner: Mutex::new(BTreeMap::new()), keep_n: 5 }
  }
  pub fn add(&self, sig: Option<&'static str>, key: FailKey, what: impl FnOnce() -> String, case: impl FnOnce() -> Value) {
    let mut g = self.inner.lock();
    let e = g.entry(sig).or_insert_with(|| SigLog { count: 0, keep: BTreeMap::new() });
    e.count += 1;
    let qualifies = e.keep.len() < self.keep_n || e.keep.keys().next_back().map(|k| &key < k).unwrap_or(true);
    if qualifies {
      e.keep.insert(key, (what(), case()));
      while e.keep.len() > self.keep_n {
        let last = e.keep.keys().next_back().cloned().unwrap();
        e.keep.remove(&last);
      }
    }
  }
  pub fn classes(&self) -> Vec<(Option<&'static str>, u64)> {
    self.inner.lock().iter().map(|(k, v)| (*k, v.count)).collect()
  }
  /// Report: per class the minimal witness first (unexplained class first), then the remaining
  /// kept witnesses, then the bare counts.
  pub fn flush(&self, rep: &Reporter) {
    let g = self.inner.lock();
    // BTreeMap orders None before Some(_)
    for (sig, log) in g.iter() {
      if let Some((_, (what, case))) = log.keep.iter().next() {
        rep.fail(*sig, what, case.clone());
      }
    }
    for (sig, log) in g.iter() {
      let mut reported = 1u64;
      for (_, (what, case)) in log.keep.iter().skip(1) {
        rep.fail(*sig, what, case.clone());
        reported += 1;
      }
      if let Some((_, (what, case))) = log.keep.iter().next() {
        for _ in reported..log.count {
          rep.fail(*sig, what, case.clone());
        }
      }
    }
  }
}

// ---------------------------------------------------------------------------------------------
// Worlds

/// text `body`, fast keyword `kw`, fast i64 `pop` / `n`, fast f64 `f`. Everything stored.
pub fn schema_json() -> Value {
  json!({"doc_id_field": "_id",
    "text_fields": [{"name": "body", "analyzer": "default", "stored": true, "indexed": true}],
    "keyword_fields": [{"name": "kw", "stored": true, "indexed": true, "fast": true}],
    "numeric_fields": [{"name": "pop", "i64": true, "fast": true, "stored": true},
                       {"name": "n", "i64": true, "fast": true, "stored": true},
                       {"name": "f", "i64": false, "fast": true, "stored": true}]})
}

/// Document shapes over {a,b,c}: term frequencies 1-3, lengths 1-6, `pop` spread so that it is
/// neither monotone nor anti-monotone in the BM25 score of any term.
pub fn body_shapes() -> Vec<(&'static str, i64)> {
  vec![
    ("a", 1),
    ("a a a", 9),
    ("a b", 3),
    ("b", 2),
    ("a b b c c c", 5),
    ("b c", 8),
    ("c c a a", 4),
    ("a a b c", 2),
  ]
}

pub fn mk_world(shape_idx: &[usize], layout: &[usize]) -> World {
  let sh = body_shapes();
  let docs: Vec<Value> = shape_idx
    .iter()
    .enumerate()
    .map(|(i, s)| json!({"_id": id_of(i), "body": sh[*s].0, "pop": sh[*s].1}))
    .collect();
  World::new("body+kw+pop+n+f", schema_json(), docs).with_layout(layout.to_vec())
}

/// [n] and every split of n into two non-empty commits.
pub fn layouts_1_2(n: usize) -> Vec<Vec<usize>> {
  let mut out = vec![vec![n]];
  for k in 1..n {
    out.push(vec![k, n - k]);
  }
  out
}

/// The C09 world space. `seq_max`: every sequence of shapes up to that length (all 1-2 segment
/// layouts); `multi`: for these sizes every multiset in ascending and descending shape order.
pub fn worlds(seq_max: usize, multi: &[usize], multi_all_layouts: bool) -> Vec<World> {
  let k = body_shapes().len();
  let idx: Vec<usize> = (0..k).collect();
  let mut out = Vec::new();
  for s in sequences(&idx, 1, seq_max) {
    for lay in layouts_1_2(s.len()) {
      out.push(mk_world(&s, &lay));
    }
  }
  for &n in multi {
    if n <= seq_max {
      continue;
    }
    for m in multisets(k, n) {
      let mut rev = m.clone();
      rev.reverse();
      let orders = if rev == m { vec![m.clone()] } else { vec![m.clone(), rev] };
      for o in orders {
        let lays = if multi_all_layouts { layouts_1_2(n) } else { vec![vec![n], vec![n / 2, n - n / 2]] };
        for lay in lays {
          out.push(mk_world(&o, &lay));
        }
      }
    }
  }
  out
}

// ---------------------------------------------------------------------------------------------
// Scored query trees

fn term(t: &str) -> Value {
  json!({"type": "term", "field": "body", "value": t})
}
fn term_b(t: &str, boost: f64) -> Value {
  json!({"type": "term", "field": "body", "value": t, "boost": boost})
}
fn qs(q: &str) -> Value {
  json!({"type": "query_string", "query": q})
}
fn pop_ge3() -> Value {
  json!({"I64Range": {"field": "pop", "min": 3, "max": 1000}})
}

/// The scored-tree alphabet, simplest first. No term key occurs in two scoring leaves (that is
/// H9 / C16 territory).
pub fn scored_trees() -> Vec<Value> {
  let mut v: Vec<Value> = Vec::new();
  // 1-3 term query strings
  for q in ["a", "b", "a b", "b c", "a b c"] {
    v.push(json!(q));
  }
  // boosted terms
  for b in [2.0, 0.5, 0.0] {
    v.push(term_b("a", b));
    v.push(json!({"type": "bool", "should": [term_b("a", b), term("b")]}));
  }
  // dis_max
  for tie in [0.0, 0.4] {
    v.push(json!({"type": "dis_max", "tie_breaker": tie, "queries": [term("a"), term("b")]}));
    v.push(json!({"type": "dis_max", "tie_breaker": tie, "queries": [term("a"), qs("b c")]}));
  }
  // bool mixes
  v.push(json!({"type": "bool", "must": [term("a")], "should": [term("b")]}));
  v.push(json!({"type": "bool", "must": [term("a"), term("b")]}));
  v.push(json!({"type": "bool", "must": [term("a")], "should": [term("b"), term("c")]}));
  v.push(json!({"type": "bool", "should": [term_b("a", 2.0), term("b")], "must_not": [term("c")]}));
  v.push(json!({"type": "bool", "should": [term("a"), term("b"), term("c")], "minimum_should_match": 2}));
  // function_score
  for inner in [qs("a"), qs("a b")] {
    for bm in ["multiply", "sum", "replace", "min"] {
      v.push(json!({"type": "function_score", "query": inner, "boost_mode": bm,
        "functions": [{"type": "weight", "weight": 2.0, "filter": pop_ge3()}]}));
      v.push(json!({"type": "function_score", "query": inner, "boost_mode": bm,
        "functions": [{"type": "field_value_factor", "field": "pop", "factor": 1.0, "modifier": "reciprocal"}]}));
    }
    v.push(json!({"type": "function_score", "query": inner, "boost_mode": "multiply", "max_boost": 2.0,
      "functions": [{"type": "field_value_factor", "field": "pop", "factor": 1.0}]}));
    v.push(json!({"type": "function_score", "query": inner, "boost_mode": "multiply", "min_score": 1.5,
      "functions": [{"type": "weight", "weight": 2.0, "filter": pop_ge3()}]}));
    v.push(json!({"type": "function_score", "query": inner, "boost_mode": "sum", "score_mode": "sum",
      "functions": [{"type": "weight", "weight": 2.0, "filter": pop_ge3()},
                    {"type": "field_value_factor", "field": "pop", "factor": 0.5}]}));
  }
  // script_score
  for inner in [qs("a"), qs("a b")] {
    for s in ["0 - _score", "pop", "1 / (_score + 1)"] {
      v.push(json!({"type": "script_score", "query": inner, "script": s}));
    }
  }
  // non-monotone transforms over a down-weighted term (BM25 bound below 1)
  v.push(json!({"type": "script_score", "query": term_b("a", 0.5), "script": "1 / (_score + 1)"}));
  v.push(json!({"type": "function_score", "query": term_b("a", 0.5), "boost_mode": "replace",
    "functions": [{"type": "field_value_factor", "field": "pop", "factor": 1.0, "modifier": "reciprocal"}]}));
  // rank_feature / constant_score in should
  v.push(json!({"type": "bool", "must": [term("a")], "should": [{"type": "rank_feature", "field": "pop"}]}));
  v.push(json!({"type": "bool", "must": [qs("a b")], "should": [{"type": "rank_feature", "field": "pop", "modifier": "reciprocal"}]}));
  v.push(json!({"type": "bool", "should": [term("a"), {"type": "rank_feature", "field": "pop", "modifier": "sqrt"}]}));
  v.push(json!({"type": "bool", "must": [term("a")], "should": [{"type": "constant_score", "filter": pop_ge3(), "boost": 2.0}]}));
  v.push(json!({"type": "bool", "should": [term("b"), {"type": "constant_score", "filter": pop_ge3()}]}));
  v
}

/// Does the tree contain a node whose score is not a sum/max of BM25 leaves?
pub fn has_custom_scoring(q: &Value) -> bool {
  match q {
    Value::Object(o) => {
      if let Some(t) = o.get("type").and_then(|t| t.as_str()) {
        if matches!(t, "function_score" | "script_score" | "rank_feature" | "constant_score") {
          return true;
        }
      }
      o.values().any(has_custom_scoring)
    }
    Value::Array(a) => a.iter().any(has_custom_scoring),
    _ => false,
  }
}

// ---------------------------------------------------------------------------------------------
// Independent oracle: segment statistics, BM25, score tree

#[derive(Debug, Clone)]
pub struct DocInfo {
  pub id: String,
  pub tf: BTreeMap<String, f64>,
  pub len: f64,
  pub json: Value,
}

impl DocInfo {
  pub fn num(&self, field: &str) -> Option<f64> {
    match &self.json[field] {
      Value::Number(n) => n.as_f64(),
      Value::Array(a) => a.first().and_then(|x| x.as_f64()),
      _ => None,
    }
  }
}

#[derive(Debug, Clone)]
pub struct SegInfo {
  pub docs: Vec<DocInfo>,
  pub n: f64,
  pub avgdl: f64,
  pub df: BTreeMap<String, f64>,
}

/// Per-segment statistics recomputed from the world's JSON (worlds without deletions only).
#[derive(Debug, Clone)]
pub struct WorldInfo {
  pub segs: Vec<SegInfo>,
  pub k1: f64,
  pub b: f64,
}

impl WorldInfo {
  pub fn new(world: &World) -> WorldInfo {
    assert!(world.deleted.is_empty() && !world.compact, "WorldInfo: plain worlds only");
    let sch = world.schema();
    let an = sch.build_analyzers().expect("analyzers");
    let body = an.index_analyzer("body").expect("body analyzer");
    let mut segs = Vec::new();
    let mut i = 0;
    for &cnt in &world.layout {
      // doc ordinal inside a commit follows the id order (pending documents are kept in a BTreeMap)
      let mut chunk: Vec<&Value> = world.docs[i..i + cnt].iter().collect();
      chunk.sort_by(|a, b| a["_id"].as_str().cmp(&b["_id"].as_str()));
      i += cnt;
      let mut docs = Vec::new();
      let mut df: BTreeMap<String, f64> = BTreeMap::new();
      let mut total = 0.0;
      for d in chunk {
        let mut tf: BTreeMap<String, f64> = BTreeMap::new();
        let mut len = 0.0;
        let texts: Vec<String> = match &d["body"] {
          Value::String(s) => vec![s.clone()],
          Value::Array(a) => a.iter().filter_map(|x| x.as_str().map(|s| s.to_string())).collect(),
          _ => vec![],
        };
        for t in texts {
          for tok in body.analyze(&t) {
            *tf.entry(tok.text).or_insert(0.0) += 1.0;
            len += 1.0;
          }
        }
        for t in tf.keys() {
          *df.entry(t.clone()).or_insert(0.0) += 1.0;
        }
        total += len;
        docs.push(DocInfo { id: d["_id"].as_str().unwrap().to_string(), tf, len, json: d.clone() });
      }
      let n = docs.len() as f64;
      segs.push(SegInfo { docs, n, avgdl: if n > 0.0 { total / n } else { 0.0 }, df });
    }
    WorldInfo { segs, k1: 1.2, b: 0.75 }
  }

  pub fn locate(&self, id: &str) -> Option<(usize, usize)> {
    for (s, seg) in self.segs.iter().enumerate() {
      if let Some(o) = seg.docs.iter().position(|d| d.id == id) {
        return Some((s, o));
      }
    }
    None
  }

  /// BM25 exactly as searchlite-core/src/query/bm25.rs defines it (pinned), in f64.
  pub fn bm25(&self, seg: usize, ord: usize, t: &str) -> f64 {
    let s = &self.segs[seg];
    let d = &s.docs[ord];
    let tf = d.tf.get(t).copied().unwrap_or(0.0);
    if tf == 0.0 {
      return 0.0;
    }
    let df = s.df.get(t).copied().unwrap_or(0.0);
    let idf = ((s.n - df + 0.5) / (df + 0.5)).ln().max(0.0) + 1.0;
    let norm = if s.avgdl > 0.0 { d.len / s.avgdl } else { 1.0 };
    let denom = tf + self.k1 * (1.0 - self.b + self.b * norm);
    idf * (tf * (self.k1 + 1.0)) / denom.max(1e-6)
  }
}

/// What the oracle can say about one clause's score for one document.
#[derive(Debug, Clone, PartialEq)]
pub enum Sc {
  /// the document does not match the clause (contributes nothing)
  NoMatch,
  /// matches, but the clause carries no score of its own (match_all, phrase)
  NonScoring,
  /// admissible values: more than one where the documentation admits several readings
  Adm(Vec<f64>),
  /// documentation is silent for this input: not judged
  Unknown,
}

fn dedup(mut v: Vec<f64>) -> Vec<f64> {
  v.sort_by(|a, b| a.total_cmp(b));
  v.dedup_by(|a, b| (*a - *b).abs() <= 1e-9 * a.abs().max(b.abs()).max(1e-9));
  v
}

fn filter_passes(f: &Value, d: &DocInfo) -> Option<bool> {
  let o = f.as_object()?;
  let (k, v) = o.iter().next()?;
  match k.as_str() {
    "I64Range" => {
      let field = v["field"].as_str()?;
      let (mn, mx) = (v["min"].as_i64()?, v["max"].as_i64()?);
      let vals: Vec<i64> = match &d.json[field] {
        Value::Number(n) => vec![n.as_i64()?],
        Value::Array(a) => a.iter().filter_map(|x| x.as_i64()).collect(),
        _ => vec![],
      };
      Some(vals.iter().any(|x| *x >= mn && *x <= mx))
    }
    "KeywordEq" => {
      let field = v["field"].as_str()?;
      let want = v["value"].as_str()?.to_ascii_lowercase();
      let vals: Vec<String> = match &d.json[field] {
        Value::String(s) => vec![s.to_ascii_lowercase()],
        Value::Array(a) => a.iter().filter_map(|x| x.as_str().map(|s| s.to_ascii_lowercase())).collect(),
        _ => vec![],
      };
      Some(vals.contains(&want))
    }
    _ => None,
  }
}

// --- tiny arithmetic script evaluator (numbers, identifiers, + - * /, unary minus, parentheses)
struct ScriptP<'a> {
  toks: Vec<String>,
  pos: usize,
  vars: &'a dyn Fn(&str) -> Option<f64>,
}

impl ScriptP<'_> {
  fn lex(s: &str) -> Vec<String> {
    let mut out = Vec::new();
    let cs: Vec<char> = s.chars().collect();
    let mut i = 0;
    while i < cs.len() {
      let c = cs[i];
      if c.is_whitespace() {
        i += 1;
      } else if c.is_ascii_digit() || c == '.' {
        let st = i;
        while i < cs.len() && (cs[i].is_ascii_digit() || cs[i] == '.') {
          i += 1;
        }
        out.push(cs[st..i].iter().collect());
      } else if c.is_alphabetic() || c == '_' {
        let st = i;
        while i < cs.len() && (cs[i].is_alphanumeric() || cs[i] == '_') {
          i += 1;
        }
        out.push(cs[st..i].iter().collect());
      } else {
        out.push(c.to_string());
        i += 1;
      }
    }
    out
  }
  fn peek(&self) -> Option<&str> {
    self.toks.get(self.pos).map(|s| s.as_str())
  }
  fn expr(&mut self) -> Option<f64> {
    let mut v = self.term()?;
    while let Some(op) = self.peek() {
      if op == "+" || op == "-" {
        let add = op == "+";
        self.pos += 1;
        let r = self.term()?;
        v = if add { v + r } else { v - r };
      } else {
        break;
      }
    }
    Some(v)
  }
  fn term(&mut self) -> Option<f64> {
    let mut v = self.unary()?;
    while let Some(op) = self.peek() {
      if op == "*" || op == "/" {
        let mul = op == "*";
        self.pos += 1;
        let r = self.unary()?;
        if !mul && r == 0.0 {
          return None;
        }
        v = if mul { v * r } else { v / r };
      } else {
        break;
      }
    }
    Some(v)
  }
  fn unary(&mut self) -> Option<f64> {
    match self.peek()? {
      "-" => {
        self.pos += 1;
        Some(-self.unary()?)
      }
      "(" => {
        self.pos += 1;
        let v = self.expr()?;
        if self.peek()? != ")" {
          return None;
        }
        self.pos += 1;
        Some(v)
      }
      t => {
        let t = t.to_string();
        self.pos += 1;
        if let Ok(n) = t.parse::<f64>() {
          Some(n)
        } else {
          (self.vars)(&t)
        }
      }
    }
  }
}

pub fn eval_script(script: &str, vars: &dyn Fn(&str) -> Option<f64>) -> Option<f64> {
  let mut p = ScriptP { toks: ScriptP::lex(script), pos: 0, vars };
  let v = p.expr()?;
  if p.pos != p.toks.len() || !v.is_finite() {
    return None;
  }
  Some(v)
}

fn boost_of(o: &Value) -> f64 {
  o.get("boost").and_then(|b| b.as_f64()).unwrap_or(1.0)
}

fn apply_modifier(v: f64, m: &str) -> Option<f64> {
  Some(match m {
    "none" => v,
    "reciprocal" => {
      if v == 0.0 {
        return None; // the documentation does not say what 1/0 is
      } else {
        1.0 / v
      }
    }
    "sqrt" => {
      if v < 0.0 {
        return None;
      } else {
        v.sqrt()
      }
    }
    "log1p" => {
      if v <= -1.0 {
        return None;
      } else {
        v.ln_1p()
      }
    }
    "log" => {
      if v <= 0.0 {
        return None;
      } else {
        v.ln()
      }
    }
    _ => return None,
  })
}

fn boost_mode(base: f64, f: f64, mode: &str) -> Option<f64> {
  Some(match mode {
    "multiply" => base * f,
    "sum" => base + f,
    "replace" => f,
    "max" => base.max(f),
    "min" => base.min(f),
    _ => return None,
  })
}

/// Score-tree oracle: the score the documentation assigns to document (seg, ord) for `q`, with
/// incoming boost `boost` (boosts multiply down to the term leaves).
pub fn oracle_score(info: &WorldInfo, seg: usize, ord: usize, q: &Value, boost: f64) -> Sc {
  let d = &info.segs[seg].docs[ord];
  let terms_of = |s: &str| -> Option<Vec<String>> {
    // bare lower-case words only (operators, phrases and field scopes are outside this oracle)
    let ws: Vec<String> = s.split_whitespace().map(|w| w.to_string()).collect();
    if ws.is_empty() || ws.iter().any(|w| !w.chars().all(|c| c.is_ascii_lowercase())) {
      return None;
    }
    Some(ws)
  };
  let leaf = |ts: &[String], b: f64| -> Sc {
    let present: Vec<&String> = ts.iter().filter(|t| d.tf.contains_key(*t)).collect();
    if present.is_empty() {
      return Sc::NoMatch;
    }
    Sc::Adm(vec![present.iter().map(|t| info.bm25(seg, ord, t) * b).sum()])
  };
  if let Value::String(s) = q {
    return match terms_of(s) {
      Some(ts) => leaf(&ts, boost),
      None => Sc::Unknown,
    };
  }
  let Some(ty) = q.get("type").and_then(|t| t.as_str()) else { return Sc::Unknown };
  match ty {
    "match_all" => Sc::NonScoring,
    "query_string" => {
      if q.get("fields").map(|f| !f.is_null()).unwrap_or(false) {
        return Sc::Unknown;
      }
      match q["query"].as_str().and_then(terms_of) {
        Some(ts) => leaf(&ts, boost * boost_of(q)),
        None => Sc::Unknown,
      }
    }
    "term" => {
      if q["field"].as_str() != Some("body") {
        return Sc::Unknown;
      }
      match q["value"].as_str().and_then(terms_of) {
        Some(ts) if ts.len() == 1 => leaf(&ts, boost * boost_of(q)),
        _ => Sc::Unknown,
      }
    }
    "phrase" => {
      // matching of phrases is C07's business; here: consecutive tokens in the single body text
      let Some(ts) = q["terms"].as_array() else { return Sc::Unknown };
      let ts: Vec<&str> = ts.iter().filter_map(|x| x.as_str()).collect();
      if q.get("slop").map(|s| !s.is_null() && s.as_u64() != Some(0)).unwrap_or(false) {
        return Sc::Unknown;
      }
      let Some(body) = d.json["body"].as_str() else { return Sc::Unknown };
      let toks: Vec<&str> = body.split_whitespace().collect();
      if ts.is_empty() || toks.len() < ts.len() {
        return Sc::NoMatch;
      }
      if toks.windows(ts.len()).any(|w| w == &ts[..]) {
        Sc::NonScoring
      } else {
        Sc::NoMatch
      }
    }
    "bool" => {
      if boost_of(q) != 1.0 {
        return Sc::Unknown;
      }
      let list = |k: &str| -> Vec<Value> { q.get(k).and_then(|x| x.as_array()).cloned().unwrap_or_default() };
      let (must, should, must_not, filter) = (list("must"), list("should"), list("must_not"), list("filter"));
      let mut parts: Vec<Vec<f64>> = Vec::new();
      let mut unknown = false;
      for c in &must {
        match oracle_score(info, seg, ord, c, boost) {
          Sc::NoMatch => return Sc::NoMatch,
          Sc::NonScoring => {}
          Sc::Adm(v) => parts.push(v),
          Sc::Unknown => unknown = true,
        }
      }
      for c in &must_not {
        match oracle_score(info, seg, ord, c, boost) {
          Sc::NoMatch => {}
          Sc::Unknown => unknown = true,
          _ => return Sc::NoMatch,
        }
      }
      for f in &filter {
        match filter_passes(f, d) {
          Some(true) => {}
          Some(false) => return Sc::NoMatch,
          None => unknown = true,
        }
      }
      let mut matched_should = 0usize;
      for c in &should {
        match oracle_score(info, seg, ord, c, boost) {
          Sc::NoMatch => {}
          Sc::NonScoring => matched_should += 1,
          Sc::Adm(v) => {
            matched_should += 1;
            parts.push(v);
          }
          Sc::Unknown => unknown = true,
        }
      }
      if unknown {
        return Sc::Unknown;
      }
      let msm = match q.get("minimum_should_match") {
        Some(Value::Number(n)) => n.as_u64().unwrap_or(0) as usize,
        Some(Value::Null) | None => {
          if must.is_empty() && filter.is_empty() {
            1
          } else {
            0
          }
        }
        _ => return Sc::Unknown,
      };
      if matched_should < msm.min(should.len()) {
        return Sc::NoMatch;
      }
      if parts.is_empty() {
        return Sc::Unknown; // a bool without any scoring clause: the documentation names no score
      }
      let mut acc = vec![0.0];
      for p in parts {
        let mut next = Vec::new();
        for a in &acc {
          for x in &p {
            next.push(a + x);
          }
        }
        acc = dedup(next);
      }
      Sc::Adm(acc)
    }
    "dis_max" => {
      if boost_of(q) != 1.0 {
        return Sc::Unknown;
      }
      let tie = q.get("tie_breaker").and_then(|t| t.as_f64()).unwrap_or(0.0);
      let Some(children) = q["queries"].as_array() else { return Sc::Unknown };
      let mut parts: Vec<Vec<f64>> = Vec::new();
      let mut matched = false;
      for c in children {
        match oracle_score(info, seg, ord, c, boost) {
          Sc::NoMatch => {}
          Sc::NonScoring => matched = true,
          Sc::Adm(v) => {
            matched = true;
            parts.push(v);
          }
          Sc::Unknown => return Sc::Unknown,
        }
      }
      if !matched {
        return Sc::NoMatch;
      }
      if parts.is_empty() {
        return Sc::Unknown;
      }
      // all combinations of admissible child values
      let mut combos: Vec<Vec<f64>> = vec![vec![]];
      for p in &parts {
        let mut next = Vec::new();
        for c in &combos {
          for x in p {
            let mut c2 = c.clone();
            c2.push(*x);
            next.push(c2);
          }
        }
        combos = next;
      }
      Sc::Adm(dedup(
        combos
          .iter()
          .map(|c| {
            let mx = c.iter().cloned().fold(f64::NEG_INFINITY, f64::max);
            let sum: f64 = c.iter().sum();
            mx + tie * (sum - mx)
          })
          .collect(),
      ))
    }
    "constant_score" => match filter_passes(&q["filter"], d) {
      Some(true) => Sc::Adm(vec![boost * boost_of(q)]),
      Some(false) => Sc::NoMatch,
      None => Sc::Unknown,
    },
    "rank_feature" => {
      let Some(field) = q["field"].as_str() else { return Sc::Unknown };
      let Some(v) = d.num(field) else { return Sc::Unknown };
      let m = q.get("modifier").and_then(|m| m.as_str()).unwrap_or("none");
      match apply_modifier(v, m) {
        Some(x) => Sc::Adm(vec![x * boost * boost_of(q)]),
        None => Sc::Unknown,
      }
    }
    "function_score" => {
      if boost_of(q) != 1.0 || boost != 1.0 {
        return Sc::Unknown;
      }
      let bases = match oracle_score(info, seg, ord, &q["query"], boost) {
        Sc::NoMatch => return Sc::NoMatch,
        Sc::Adm(v) => v,
        // base score of a non-scoring query (match_all) is not documented
        Sc::NonScoring | Sc::Unknown => return Sc::Unknown,
      };
      // a zero base score (zero boosts) combined with functions: documentation is silent
      if bases.iter().any(|b| b.abs() <= 1e-6) {
        return Sc::Unknown;
      }
      let Some(funcs) = q["functions"].as_array() else { return Sc::Unknown };
      let mut vals: Vec<f64> = Vec::new();
      for f in funcs {
        if let Some(flt) = f.get("filter").filter(|x| !x.is_null()) {
          match filter_passes(flt, d) {
            Some(true) => {}
            Some(false) => continue,
            None => return Sc::Unknown,
          }
        }
        match f["type"].as_str() {
          Some("weight") => match f["weight"].as_f64() {
            Some(w) => vals.push(w),
            None => return Sc::Unknown,
          },
          Some("field_value_factor") => {
            let Some(field) = f["field"].as_str() else { return Sc::Unknown };
            let Some(raw) = d.num(field) else { return Sc::Unknown };
            let factor = f.get("factor").and_then(|x| x.as_f64()).unwrap_or(1.0);
            let m = f.get("modifier").and_then(|m| m.as_str()).unwrap_or("none");
            match apply_modifier(raw * factor, m) {
              Some(x) => vals.push(x),
              None => return Sc::Unknown,
            }
          }
          _ => return Sc::Unknown,
        }
      }
      let Some(bm) = q.get("boost_mode").and_then(|m| m.as_str()) else { return Sc::Unknown };
      let max_boost = q.get("max_boost").and_then(|m| m.as_f64());
      let mut out = Vec::new();
      for base in &bases {
        if vals.is_empty() {
          // no function applies: "unchanged base" and "neutral function value 1" are both defensible
          out.push(*base);
          match boost_mode(*base, 1.0, bm) {
            Some(x) => out.push(x),
            None => return Sc::Unknown,
          }
          continue;
        }
        let f = if vals.len() == 1 {
          vals[0]
        } else {
          match q.get("score_mode").and_then(|m| m.as_str()) {
            Some("sum") => vals.iter().sum(),
            Some("multiply") => vals.iter().product(),
            Some("max") => vals.iter().cloned().fold(f64::NEG_INFINITY, f64::max),
            Some("min") => vals.iter().cloned().fold(f64::INFINITY, f64::min),
            Some("avg") => vals.iter().sum::<f64>() / vals.len() as f64,
            _ => return Sc::Unknown, // default score_mode is not documented
          }
        };
        let Some(combined) = boost_mode(*base, f, bm) else { return Sc::Unknown };
        match max_boost {
          None => out.push(combined),
          Some(mb) => {
            // cap on the combined score, or cap on the function value: both readings admitted
            out.push(combined.min(mb));
            if let Some(x) = boost_mode(*base, f.min(mb), bm) {
              out.push(x);
            }
          }
        }
      }
      Sc::Adm(dedup(out))
    }
    "script_score" => {
      if boost_of(q) != 1.0 || boost != 1.0 {
        return Sc::Unknown;
      }
      let bases = match oracle_score(info, seg, ord, &q["query"], boost) {
        Sc::NoMatch => return Sc::NoMatch,
        Sc::Adm(v) => v,
        Sc::NonScoring | Sc::Unknown => return Sc::Unknown,
      };
      let Some(script) = q["script"].as_str() else { return Sc::Unknown };
      let mut out = Vec::new();
      for base in bases {
        let vars = |name: &str| -> Option<f64> {
          if name == "_score" {
            Some(base)
          } else {
            d.num(name)
          }
        };
        match eval_script(script, &vars) {
          Some(v) => out.push(v),
          None => return Sc::Unknown,
        }
      }
      Sc::Adm(dedup(out))
    }
    _ => Sc::Unknown,
  }
}

/// Sum of the plain BM25 contributions (x boosts) of every scoring term leaf of `q` present in the
/// document: the quantity the pruning bounds are upper bounds of.
pub fn raw_term_sum(info: &WorldInfo, seg: usize, ord: usize, q: &Value, boost: f64, scoring: bool) -> f64 {
  let d = &info.segs[seg].docs[ord];
  let words = |s: &str, b: f64| -> f64 {
    s.split_whitespace().filter(|t| d.tf.contains_key(*t)).map(|t| info.bm25(seg, ord, t) * b).sum()
  };
  match q {
    Value::String(s) => {
      if scoring {
        words(s, boost)
      } else {
        0.0
      }
    }
    Value::Object(o) => {
      let b = boost * boost_of(q);
      match o.get("type").and_then(|t| t.as_str()) {
        Some("query_string") if scoring => words(q["query"].as_str().unwrap_or(""), b),
        Some("term") if scoring => words(q["value"].as_str().unwrap_or(""), b),
        Some("bool") => {
          let mut s = 0.0;
          for k in ["must", "should"] {
            for c in q.get(k).and_then(|x| x.as_array()).cloned().unwrap_or_default() {
              s += raw_term_sum(info, seg, ord, &c, b, scoring);
            }
          }
          s
        }
        Some("dis_max") => q["queries"].as_array().map(|a| a.iter().map(|c| raw_term_sum(info, seg, ord, c, b, scoring)).sum()).unwrap_or(0.0),
        Some("function_score") | Some("script_score") => raw_term_sum(info, seg, ord, &q["query"], boost, scoring),
        _ => 0.0,
      }
    }
    _ => 0.0,
  }
}

// ---------------------------------------------------------------------------------------------
// Ranking comparison

pub const TOL: f32 = 1e-5;

/// `got` must equal `want` (ids in order, scores within TOL relative); where it does not, fall
/// back to near-tie classes: position i of `got` must carry (within TOL) the score of position i of
/// the full exhaustive ranking `full`, its id must be one of the documents holding that score in
/// `full`, and no id may repeat. Returns Ok(true) when identical, Ok(false) when equal up to ties.
pub fn same_ranking(got: &[(String, f32)], want: &[(String, f32)], full: &[(String, f32)]) -> Result<bool, String> {
  if got.len() == want.len() && got.iter().zip(want).all(|(a, b)| a.0 == b.0 && approx(a.1, b.1, TOL)) {
    return Ok(true);
  }
  if got.len() != want.len() {
    return Err(format!("{} hits instead of {}", got.len(), want.len()));
  }
  let mut seen = HashSet::new();
  for (i, (id, sc)) in got.iter().enumerate() {
    if !seen.insert(id.clone()) {
      return Err(format!("document {id} returned twice"));
    }
    let Some(fs) = full.iter().find(|f| &f.0 == id) else {
      return Err(format!("document {id} is not a match of the exhaustive run"));
    };
    if !approx(fs.1, *sc, TOL) {
      return Err(format!("document {id} scored {sc} but {} in the exhaustive run", fs.1));
    }
    if i >= full.len() || !approx(full[i].1, *sc, TOL) {
      return Err(format!(
        "rank {} holds {id} (score {sc}) but the exhaustive ranking has {} (score {}) there",
        i + 1,
        full.get(i).map(|f| f.0.as_str()).unwrap_or("-"),
        full.get(i).map(|f| f.1).unwrap_or(f32::NAN)
      ));
    }
  }
  Ok(false)
}

// ---------------------------------------------------------------------------------------------
// The check

#[derive(Debug, Clone)]
pub struct Case {
  pub query: Value,
  pub limit: usize,
  pub exec: String,
  pub block: Option<usize>,
}

impl Case {
  fn req(&self, exec: &str, limit: usize) -> Value {
    let mut r = json!({"query": self.query, "limit": limit, "execution": exec});
    if exec == "bmw" {
      if let Some(b) = self.block {
        r["bmw_block_size"] = json!(b);
      }
    }
    r
  }
  fn to_json(&self, world: &World) -> Value {
    json!({"engine": "inputmc-prune", "world": world.to_json(), "query": self.query, "limit": self.limit, "execution": self.exec, "bmw_block_size": self.block})
  }
}

/// Terms (field `body`) of the scoring leaves of `q` (everything except `must_not` subtrees).
pub fn scoring_terms(q: &Value, out: &mut BTreeSet<String>) {
  match q {
    Value::String(s) => out.extend(s.split_whitespace().map(|w| w.to_string())),
    Value::Object(o) => match o.get("type").and_then(|t| t.as_str()) {
      Some("query_string") => out.extend(q["query"].as_str().unwrap_or("").split_whitespace().map(|w| w.to_string())),
      Some("term") => out.extend(q["value"].as_str().map(|w| w.to_string())),
      Some("bool") => {
        for k in ["must", "should"] {
          for c in q.get(k).and_then(|x| x.as_array()).cloned().unwrap_or_default() {
            scoring_terms(&c, out);
          }
        }
      }
      Some("dis_max") => {
        for c in q["queries"].as_array().cloned().unwrap_or_default() {
          scoring_terms(&c, out);
        }
      }
      Some("function_score") | Some("script_score") => scoring_terms(&q["query"], out),
      _ => {}
    },
    _ => {}
  }
}

/// Failure classifier. Preconditions shared by both known defects: every hit the pruned run
/// returned is a true match carrying its true score, in descending order without repeats, so only
/// the *selection* is wrong. Then every document of the true top-k that the pruned run lost must be
/// explained:
///  * H8 (`SIG_H8`): the tree has a custom-scoring node and the lost document's final score is
///    strictly above the sum of its BM25 term contributions — the only quantity the WAND bounds
///    limit (searchlite-core/src/query/wand.rs wand_loop compares BM25 upper bounds with a heap
///    threshold made of adjusted scores).
///  * block bound (`SIG_BMW`): execution is bmw, the lost document is kept by the `wand` run of the
///    same request (global bounds are fine), and for one of its scoring terms the document sits in a
///    later posting block whose max-tf bound exceeds the bound of an earlier block of that term:
///    wand_loop uses the *current* block's bound for everything that follows (it even stops the
///    whole loop when the current blocks cannot reach the threshold).
/// A lost document explained by neither keeps the failure unexplained (signature None).
fn classify(reader: &IndexReader, info: &WorldInfo, c: &Case, got: &[(String, f32)], want: &[(String, f32)], full: &[(String, f32)]) -> Option<&'static str> {
  if got.len() != want.len() {
    return None;
  }
  let mut seen = HashSet::new();
  for (i, (id, sc)) in got.iter().enumerate() {
    if !seen.insert(id) {
      return None;
    }
    match full.iter().find(|f| &f.0 == id) {
      Some(f) if approx(f.1, *sc, TOL) => {}
      _ => return None,
    }
    if i > 0 && got[i - 1].1 < *sc && !approx(got[i - 1].1, *sc, TOL) {
      return None;
    }
  }
  let lost: Vec<&(String, f32)> = want.iter().filter(|w| !got.iter().any(|g| g.0 == w.0)).collect();
  if lost.is_empty() {
    return None;
  }
  let custom = has_custom_scoring(&c.query);
  let mut terms = BTreeSet::new();
  scoring_terms(&c.query, &mut terms);
  let mut wand_run: Option<Vec<(String, f32)>> = None;
  let mut any_block = false;
  for (id, fin) in lost {
    let (s, o) = info.locate(id)?;
    let raw = raw_term_sum(info, s, o, &c.query, 1.0, true);
    if custom && (*fin as f64) > raw * (1.0 + 1e-5) + 1e-9 {
      continue; // H8-type loss
    }
    if c.exec != "bmw" {
      return None;
    }
    let bs = c.block.unwrap_or(128).max(1);
    if wand_run.is_none() {
      wand_run = Some(ranked(reader, c.req("wand", c.limit)).ok()?);
    }
    if !wand_run.as_ref().unwrap().iter().any(|g| &g.0 == id) {
      return None;
    }
    let seg = &info.segs[s];
    let mut explained = false;
    for t in &terms {
      // posting list of t in this segment, in doc order
      let plist: Vec<(usize, f64)> = seg.docs.iter().enumerate().filter_map(|(i, d)| d.tf.get(t).map(|tf| (i, *tf))).collect();
      let Some(pos) = plist.iter().position(|p| p.0 == o) else { continue };
      let blk = pos / bs;
      let bmax = |b: usize| plist[b * bs..((b + 1) * bs).min(plist.len())].iter().map(|p| p.1).fold(0.0, f64::max);
      let mine = bmax(blk);
      if (0..blk).any(|b| bmax(b) < mine) {
        explained = true;
        break;
      }
    }
    if !explained {
      return None;
    }
    any_block = true;
  }
  Some(if any_block { SIG_BMW } else { SIG_H8 })
}

pub enum Verdict {
  Same,
  TiePermuted,
  Fail(Option<&'static str>, String),
}

fn ranked(reader: &IndexReader, r: Value) -> Result<Vec<(String, f32)>, String> {
  search_caught(reader, &req(r)).map(|res| id_scores(&res))
}

fn check_case(reader: &IndexReader, info: &WorldInfo, c: &Case, want: &[(String, f32)], full: &[(String, f32)]) -> Verdict {
  let got = match ranked(reader, c.req(&c.exec, c.limit)) {
    Ok(g) => g,
    Err(e) => return Verdict::Fail(None, format!("{} run failed although bm25 succeeded: {e}", c.exec)),
  };
  match same_ranking(&got, want, full) {
    Ok(true) => Verdict::Same,
    Ok(false) => Verdict::TiePermuted,
    Err(why) => {
      let sig = classify(reader, info, c, &got, want, full);
      Verdict::Fail(sig, format!("{} returned {:?}, bm25 returned {:?}: {}", c.exec, got, want, why))
    }
  }
}

fn full_ranking(reader: &IndexReader, q: &Value) -> Result<Vec<(String, f32)>, String> {
  ranked(reader, json!({"query": q, "limit": 100, "execution": "bm25"}))
}

// ---------------------------------------------------------------------------------------------
// Multi-block family: corpora long enough for posting lists to span several blocks whose
// boundaries fall on different documents for different terms.

/// (tf of a, tf of b, tf of c); every body is padded with the filler word `z` to `MB_LEN` tokens
/// (equal lengths keep block bounds tight, so block-max checks do fail) unless `padded` is false.
pub const MB_LEN: usize = 8;

/// weak a-only, weak a+b, weak a+c, medium a+b (fills the heap early), strong a+b+c, b-only
/// (shifts b's block boundaries against a's).
pub const MB_SHAPES6: [(usize, usize, usize); 6] = [(1, 0, 0), (1, 1, 0), (1, 0, 1), (2, 2, 0), (3, 3, 1), (0, 1, 0)];
/// the two-term core of the alphabet, for longer corpora
pub const MB_SHAPES4: [(usize, usize, usize); 4] = [(1, 0, 0), (1, 1, 0), (2, 2, 0), (3, 3, 0)];

pub fn mb_world(shapes: &[(usize, usize, usize)], seq: &[usize], layout: &[usize], padded: bool) -> World {
  let docs: Vec<Value> = seq
    .iter()
    .enumerate()
    .map(|(i, s)| {
      let (a, b, c) = shapes[*s];
      let mut words: Vec<&str> = Vec::new();
      words.extend(std::iter::repeat("a").take(a));
      words.extend(std::iter::repeat("b").take(b));
      words.extend(std::iter::repeat("c").take(c));
      while padded && words.len() < MB_LEN {
        words.push("z");
      }
      json!({"_id": id_of(i), "body": words.join(" "), "pop": 1 + (i % 3)})
    })
    .collect();
  World::new("body+kw+pop+n+f", schema_json(), docs).with_layout(layout.to_vec())
}

/// Every sequence of `n` shapes (every placement pattern), one segment and optionally the split in
/// the middle.
pub fn mb_worlds(shapes: &[(usize, usize, usize)], n: usize, split: bool, padded: bool) -> Vec<World> {
  let idx: Vec<usize> = (0..shapes.len()).collect();
  let mut out = Vec::new();
  for s in sequences(&idx, n, n) {
    out.push(mb_world(shapes, &s, &[n], padded));
    if split {
      out.push(mb_world(shapes, &s, &[n / 2, n - n / 2], padded));
    }
  }
  out
}

/// two- and three-term queries: query strings and boosted bool-should
pub fn mb_queries() -> Vec<Value> {
  vec![
    json!("a b"),
    json!({"type": "bool", "should": [term_b("a", 2.0), term("b")]}),
    json!("a b c"),
    json!({"type": "bool", "should": [term_b("a", 2.0), term("b"), term_b("c", 0.5)]}),
  ]
}

pub const MB_BLOCKS: [usize; 5] = [1, 2, 3, 4, 5];

/// Block structure of the query's terms in one world for a block size: (some term's postings span
/// at least two blocks in some segment, two terms of one segment have different block-end sets).
fn mb_block_structure(info: &WorldInfo, q: &Value, bs: usize) -> (bool, bool) {
  let mut terms = BTreeSet::new();
  scoring_terms(q, &mut terms);
  let (mut multi, mut differ) = (false, false);
  for seg in &info.segs {
    let mut ends: Vec<Vec<usize>> = Vec::new();
    for t in &terms {
      let plist: Vec<usize> = seg.docs.iter().enumerate().filter(|(_, d)| d.tf.contains_key(t)).map(|(i, _)| i).collect();
      if plist.is_empty() {
        continue;
      }
      if plist.len() > bs {
        multi = true;
      }
      let mut e: Vec<usize> = plist.chunks(bs).map(|c| *c.last().unwrap()).collect();
      e.dedup();
      ends.push(e);
    }
    for i in 0..ends.len() {
      for j in i + 1..ends.len() {
        if ends[i] != ends[j] && (ends[i].len() >= 2 || ends[j].len() >= 2) {
          differ = true;
        }
      }
    }
  }
  (multi, differ)
}

pub const BLOCKS: [usize; 5] = [1, 2, 3, 128, 300];

pub fn run(ctx: &Ctx) -> i32 {
  let mut rep = Reporter::new("C09", ctx.tier, "exploration");
  let quick = ctx.tier.is_quick();
  if let Some(path) = &ctx.replay {
    rep.set_replaying(true);
    let v: Value = serde_json::from_slice(&std::fs::read(path).expect("replay file")).expect("json");
    let cs = &v["case"];
    let world = World::from_json(&cs["world"]);
    let c = Case {
      query: cs["query"].clone(),
      limit: cs["limit"].as_u64().unwrap_or(1) as usize,
      exec: cs["execution"].as_str().unwrap_or("wand").to_string(),
      block: cs["bmw_block_size"].as_u64().map(|b| b as usize),
    };
    let run1 = || {
      let idx = world.build();
      let reader = idx.reader().expect("reader");
      let info = WorldInfo::new(&world);
      let full = match full_ranking(&reader, &c.query) {
        Ok(f) => f,
        Err(e) => return Some(format!("bm25 run failed: {e}")),
      };
      let want = match ranked(&reader, c.req("bm25", c.limit)) {
        Ok(w) => w,
        Err(e) => return Some(format!("bm25 run failed: {e}")),
      };
      match check_case(&reader, &info, &c, &want, &full) {
        Verdict::Fail(sig, what) => Some(format!("[{}] {}", sig.unwrap_or("-"), what)),
        _ => None,
      }
    };
    let (a, b) = (run1(), run1());
    if a.is_some() != b.is_some() {
      vcore::ev::machinery_failure("NONDETERMINISM on replay");
    }
    return match a {
      Some(w) => {
        println!("VIOLATION property=C09 replay={path}\n  what: {w}");
        1
      }
      None => {
        println!("replay: no violation");
        0
      }
    };
  }

  let ws = if quick { worlds(3, &[4], false) } else { worlds(5, &[6], true) };
  let trees = scored_trees();
  // quick tier reduction: limits 1..3 and block sizes {1,2,128}; thorough runs the full alphabet
  let max_limit: usize = if quick { 3 } else { 4 };
  let blocks: &[usize] = if quick { &[1, 2, 128] } else { &BLOCKS };
  let deadline = budget(if quick { 30.0 } else { 840.0 });
  let evals = AtomicU64::new(0);
  let nontrivial = AtomicU64::new(0);
  let pruning_seen = AtomicU64::new(0);
  let tie_perm = AtomicU64::new(0);
  let worlds_done = AtomicU64::new(0);
  let timed_out = AtomicBool::new(false);
  let outcomes: Mutex<BTreeSet<String>> = Mutex::new(BTreeSet::new());
  let log = FailLog::new();
  let failing_trees: Mutex<BTreeMap<String, BTreeSet<usize>>> = Mutex::new(BTreeMap::new());
  // ---- multi-block family (run first, own budget, so that a busy machine never caps it away)
  let mut ws_mb: Vec<World> = Vec::new();
  if quick {
    ws_mb.extend(mb_worlds(&MB_SHAPES6, 5, false, true));
    ws_mb.extend(mb_worlds(&MB_SHAPES4, 6, true, true));
  } else {
    ws_mb.extend(mb_worlds(&MB_SHAPES6, 5, true, true));
    ws_mb.extend(mb_worlds(&MB_SHAPES6, 5, false, false));
    ws_mb.extend(mb_worlds(&MB_SHAPES6, 6, true, true));
    ws_mb.extend(mb_worlds(&MB_SHAPES4, 7, true, true));
    ws_mb.extend(mb_worlds(&MB_SHAPES4, 8, true, true));
    ws_mb.extend(mb_worlds(&MB_SHAPES4, 9, false, true));
    ws_mb.extend(mb_worlds(&MB_SHAPES4, 10, false, true));
  }
  let mb_qs = mb_queries();
  let deadline_mb = budget(if quick { 20.0 } else { 420.0 });
  let mb_cases = AtomicU64::new(0);
  let mb_live = AtomicU64::new(0);
  let mb_multi = AtomicU64::new(0);
  let mb_differ = AtomicU64::new(0);
  let (done_mb, capped_mb) = par_sweep(&ws_mb, &rep, deadline_mb, |wi, world| {
    let idx = world.build();
    let reader = idx.reader().expect("reader");
    let info = WorldInfo::new(world);
    let mut local_out: BTreeSet<String> = BTreeSet::new();
    for (qi, q) in mb_qs.iter().enumerate() {
      let Ok(full) = full_ranking(&reader, q) else {
        log.add(None, vec![0, wi as u64, qi as u64], || format!("{} q={}: exhaustive run failed", world.describe(), q), || Case { query: q.clone(), limit: 100, exec: "bm25".into(), block: None }.to_json(world));
        continue;
      };
      let structure: Vec<(bool, bool)> = MB_BLOCKS.iter().map(|b| mb_block_structure(&info, q, *b)).collect();
      for limit in 1..=3usize {
        let live = full.len() > limit;
        let mut cases = vec![Case { query: q.clone(), limit, exec: "wand".into(), block: None }];
        for b in MB_BLOCKS {
          cases.push(Case { query: q.clone(), limit, exec: "bmw".into(), block: Some(b) });
        }
        let Ok(want) = ranked(&reader, cases[0].req("bm25", limit)) else {
          log.add(None, vec![0, wi as u64, qi as u64, limit as u64], || format!("{} q={} limit={}: bm25 run failed", world.describe(), q, limit), || cases[0].to_json(world));
          continue;
        };
        for (ci, c) in cases.iter().enumerate() {
          evals.fetch_add(1, Ordering::Relaxed);
          mb_cases.fetch_add(1, Ordering::Relaxed);
          if ci >= 1 && live {
            mb_live.fetch_add(1, Ordering::Relaxed);
            let (multi, differ) = structure[ci - 1];
            if multi {
              mb_multi.fetch_add(1, Ordering::Relaxed);
            }
            if differ {
              mb_differ.fetch_add(1, Ordering::Relaxed);
            }
          }
          match check_case(&reader, &info, c, &want, &full) {
            Verdict::Same => {
              local_out.insert(format!("multi-block: same/{}", if live { "heap-full" } else { "all-returned" }));
            }
            Verdict::TiePermuted => {
              tie_perm.fetch_add(1, Ordering::Relaxed);
              local_out.insert("multi-block: equal-up-to-near-ties".into());
            }
            Verdict::Fail(sig, what) => {
              local_out.insert(format!("multi-block: differs[{}]", sig.unwrap_or("-")));
              log.add(sig, vec![0, wi as u64, qi as u64, limit as u64, ci as u64], || format!("{} q={} limit={} exec={} block={:?}: {}", world.describe(), q, limit, c.exec, c.block, what), || c.to_json(world));
            }
          }
        }
        if live {
          nontrivial.fetch_add(1, Ordering::Relaxed);
        }
      }
    }
    outcomes.lock().extend(local_out);
  });

  let (done, capped) = par_sweep(&ws, &rep, deadline, |wi, world| {
    let idx = world.build();
    let reader = idx.reader().expect("reader");
    let info = WorldInfo::new(world);
    let n = world.docs.len();
    let mut local_out: BTreeSet<String> = BTreeSet::new();
    for (qi, q) in trees.iter().enumerate() {
      let full = match full_ranking(&reader, q) {
        Ok(f) => f,
        Err(e) => {
          let c = Case { query: q.clone(), limit: 100, exec: "bm25".into(), block: None };
          log.add(None, vec![1, wi as u64, qi as u64], || format!("{} q={}: exhaustive run failed: {e}", world.describe(), q), || c.to_json(world));
          continue;
        }
      };
      for limit in 1..=max_limit.min(n) {
        // pruning can only act once the per-segment heap (limit+1 entries) is full
        let live = full.len() > limit;
        if live {
          nontrivial.fetch_add(1, Ordering::Relaxed);
        }
        let mut cases = vec![Case { query: q.clone(), limit, exec: "wand".into(), block: None }];
        for &b in blocks {
          cases.push(Case { query: q.clone(), limit, exec: "bmw".into(), block: Some(b) });
        }
        let want = match ranked(&reader, cases[0].req("bm25", limit)) {
          Ok(w) => w,
          Err(e) => {
            log.add(None, vec![1, wi as u64, qi as u64, limit as u64], || format!("{} q={} limit={}: bm25 run failed: {e}", world.describe(), q, limit), || cases[0].to_json(world));
            continue;
          }
        };
        for (ci, c) in cases.iter().enumerate() {
          evals.fetch_add(1, Ordering::Relaxed);
          match check_case(&reader, &info, c, &want, &full) {
            Verdict::Same => {
              local_out.insert(format!("same/{}", if live { "heap-full" } else { "all-returned" }));
            }
            Verdict::TiePermuted => {
              tie_perm.fetch_add(1, Ordering::Relaxed);
              local_out.insert("equal-up-to-near-ties".into());
            }
            Verdict::Fail(sig, what) => {
              local_out.insert(format!("differs[{}]", sig.unwrap_or("-")));
              failing_trees.lock().entry(format!("{}/{}", sig.unwrap_or("-"), c.exec)).or_default().insert(qi);
              log.add(sig, vec![1, wi as u64, qi as u64, limit as u64, ci as u64], || format!("{} q={} limit={} exec={} block={:?}: {}", world.describe(), q, limit, c.exec, c.block, what), || c.to_json(world));
            }
          }
        }
        // is pruning live? (profile counters of the wand run vs the number of matches)
        if live && limit == 1 {
          let mut r = json!({"query": q, "limit": limit, "execution": "wand", "profile": true});
          r["return_stored"] = json!(false);
          if let Ok(res) = search_caught(&reader, &req(r)) {
            if let Some(p) = res.profile {
              if p.execution.scored_docs < full.len() {
                pruning_seen.fetch_add(1, Ordering::Relaxed);
                local_out.insert("wand-skipped-documents".into());
                if !rep.sample_full() {
                  rep.sample(json!({"world": world.describe(), "query": q, "limit": limit, "matches": full.len(), "wand_scored_docs": p.execution.scored_docs}));
                }
              }
            }
          }
        }
      }
    }
    outcomes.lock().extend(local_out);
  });
  worlds_done.store(done, Ordering::Relaxed);
  timed_out.store(capped || capped_mb, Ordering::Relaxed);
  log.flush(&rep);
  rep.add_evals(evals.load(Ordering::Relaxed));
  let to = timed_out.load(Ordering::Relaxed);
  let outs = outcomes.lock().clone();
  if outs.len() < 2 {
    vcore::ev::machinery_failure("C09: fewer than two distinct outcomes observed (vacuous)");
  }
  let cov = vcore::cov! {
    "distinct_nontrivial" => nontrivial.load(Ordering::Relaxed),
    "rule" => "a (world, query tree, limit) triple is non-trivial when the exhaustive run matches more documents than the limit, so the top-k heap fills and the pruning threshold is live; each is run under wand and under bmw with block sizes 1,2,3,128,300 (quick tier: 1,2,128; limits 1..3), and compared with the bm25 execution of the same request (ids in order, scores within 1e-5 relative, near-ties as classes)",
    "worlds" => ws.len(),
    "worlds_completed" => worlds_done.load(Ordering::Relaxed),
    "world_space" => if quick { "every sequence of <=3 of 8 document shapes x every 1-2 segment layout, plus every multiset of 4 shapes (ascending and descending order) x {1 segment, split in the middle}" } else { "every sequence of <=5 of 8 document shapes x every 1-2 segment layout, plus every multiset of 6 shapes (ascending and descending order) x every 1-2 segment layout" },
    "multi_block_family" => json!({
      "worlds": ws_mb.len(), "worlds_completed": done_mb,
      "world_space": if quick { "every sequence (placement pattern) of 5 documents over 6 shapes (tf a,b,c): (1,0,0) (1,1,0) (1,0,1) (2,2,0) (3,3,1) (0,1,0), 1 segment; of 6 documents over the 4 shapes (1,0,0) (1,1,0) (2,2,0) (3,3,0), 1 segment and 3+3; bodies padded with a filler word to 8 tokens" } else { "every sequence of 5 (padded and unpadded) and 6 documents over the 6 shapes, of 7-10 documents over the 4 shapes; 1 segment and the middle split (n <= 8)" },
      "queries": mb_qs, "limits": [1, 2, 3], "executions": "wand, bmw with bmw_block_size 1..5",
      "cases": mb_cases.load(Ordering::Relaxed),
      "bmw_cases_with_full_heap": mb_live.load(Ordering::Relaxed),
      "of_which_a_query_term_spans_2_or_more_blocks": mb_multi.load(Ordering::Relaxed),
      "of_which_two_query_terms_have_different_block_boundaries": mb_differ.load(Ordering::Relaxed)}),
    "query_trees" => trees.len(),
    "limits" => format!("1..min({max_limit}, docs)"),
    "bmw_block_sizes" => blocks.to_vec(),
    "cases_where_wand_scored_fewer_docs_than_matches" => pruning_seen.load(Ordering::Relaxed),
    "equal_up_to_near_ties" => tie_perm.load(Ordering::Relaxed),
    "distinct_observed_outcomes" => outs.len(),
    "observed_outcomes" => outs.iter().cloned().collect::<Vec<_>>(),
    "failure_classes" => log.classes().iter().map(|(s, n)| json!({"signature": s, "cases": n})).collect::<Vec<_>>(),
    "failing_query_trees" => failing_trees.lock().iter().map(|(k, v)| json!({"class": k, "trees": v.iter().map(|i| trees[*i].clone()).collect::<Vec<_>>()})).collect::<Vec<_>>(),
    "cap_hit" => if to { Some(format!("wall budget {deadline}s")) } else { None },
    "exhaustive" => !to,
  };
  rep.finish(
    cov,
    vec![
      "no aggregations, no cursor, default sort: the only configuration in which the pruning threshold is live".into(),
      "worlds have no deletions; no term occurs in two scoring leaves of one tree (that is C16 / H9)".into(),
      "exact ties are compared as classes, like near-ties (tie order itself is C10's obligation)".into(),
    ],
  )
}
