//! C25 — CLI, HTTP and FFI agree with the Rust API.
//! Engine: frontmc. Every small world (schema + corpus of <= 3 documents + history shape over
//! add / upsert / delete / commit / compact) is built four times: through the CLI binary (one
//! subprocess per command), through the in-process HTTP service (raw HTTP/1.1 on a loopback
//! port), through the C FFI, and through the library with the index options every front end
//! uses and documents (README: BM25 k1 = 0.9, b = 0.4). Then every request of the request
//! alphabet is sent through every front end able to express it (CLI: `--request` file /
//! `--request-stdin` / documented flags) and compared with the library's answer.

use std::collections::{BTreeMap, BTreeSet};
use std::ffi::CString;
use std::io::{Read, Write};
use std::net::TcpStream;
use std::os::raw::c_char;
use std::path::{Path, PathBuf};
use std::process::{Command, Stdio};
use std::sync::atomic::{AtomicBool, AtomicU64, Ordering};
use std::time::Duration;

use parking_lot::Mutex;
use rayon::prelude::*;
use serde_json::{json, Map, Value};

use searchlite_core::api::types::{SearchRequest, StorageType};
use searchlite_core::api::{Index, IndexWriter};
use vcore::ev::Reporter;
use vcore::world::{doc, schema, stored_projection, Scratch};

use crate::Ctx;

// ---------------------------------------------------------------------------------------------
// Worlds: schema x corpus x history

#[derive(Debug, Clone, PartialEq)]
enum Op {
  Add(Vec<Value>),
  /// CLI `update` (documented alias of add); HTTP /bulk instead of /add
  Update(Vec<Value>),
  Delete(Vec<String>),
  Commit,
  Compact,
}

impl Op {
  fn to_json(&self) -> Value {
    match self {
      Op::Add(d) => json!({"op": "add", "docs": d}),
      Op::Update(d) => json!({"op": "update", "docs": d}),
      Op::Delete(i) => json!({"op": "delete", "ids": i}),
      Op::Commit => json!({"op": "commit"}),
      Op::Compact => json!({"op": "compact"}),
    }
  }
  fn from_json(v: &Value) -> Op {
    let docs = || v["docs"].as_array().cloned().unwrap_or_default();
    match v["op"].as_str().unwrap_or("") {
      "add" => Op::Add(docs()),
      "update" => Op::Update(docs()),
      "delete" => Op::Delete(v["ids"].as_array().map(|a| a.iter().map(|x| x.as_str().unwrap().to_string()).collect()).unwrap_or_default()),
      "compact" => Op::Compact,
      _ => Op::Commit,
    }
  }
  fn short(&self) -> String {
    let ids = |d: &Vec<Value>| d.iter().map(|x| x["_id"].as_str().unwrap_or("?").to_string()).collect::<Vec<_>>().join(",");
    match self {
      Op::Add(d) => format!("add[{}]", ids(d)),
      Op::Update(d) => format!("update[{}]", ids(d)),
      Op::Delete(i) => format!("delete[{}]", i.join(",")),
      Op::Commit => "commit".into(),
      Op::Compact => "compact".into(),
    }
  }
}

#[derive(Debug, Clone)]
struct FWorld {
  corpus: String,
  shape: String,
  /// true: `Schema::default_text_body()` (what searchlite_index_open(create_if_missing) creates)
  default_schema: bool,
  schema_json: Value,
  history: Vec<Op>,
}

impl FWorld {
  fn to_json(&self) -> Value {
    json!({"corpus": self.corpus, "shape": self.shape, "default_schema": self.default_schema, "schema_json": self.schema_json, "history": self.history.iter().map(|o| o.to_json()).collect::<Vec<_>>()})
  }
  fn from_json(v: &Value) -> FWorld {
    FWorld {
      corpus: v["corpus"].as_str().unwrap_or("").into(),
      shape: v["shape"].as_str().unwrap_or("").into(),
      default_schema: v["default_schema"].as_bool().unwrap_or(false),
      schema_json: v["schema_json"].clone(),
      history: v["history"].as_array().map(|a| a.iter().map(Op::from_json).collect()).unwrap_or_default(),
    }
  }
  fn describe(&self) -> String {
    format!("corpus {} history [{}]", self.corpus, self.history.iter().map(|o| o.short()).collect::<Vec<_>>().join(" "))
  }
  /// The FFI has add (= add + commit) and commit only.
  fn ffi_expressible(&self) -> bool {
    let only = self.history.iter().all(|o| matches!(o, Op::Add(_) | Op::Update(_) | Op::Commit));
    // every add must be followed by a commit (the FFI cannot leave documents uncommitted)
    let mut pending = false;
    for o in &self.history {
      match o {
        Op::Add(_) | Op::Update(_) => pending = true,
        Op::Commit => pending = false,
        _ => {}
      }
    }
    only && !pending
  }
  /// Reference model: id -> stored projection of the committed version.
  fn model_contents(&self) -> BTreeMap<String, Value> {
    let sch = schema(self.schema_json.clone());
    let mut committed: BTreeMap<String, Value> = BTreeMap::new();
    let mut pending: Vec<(String, Option<Value>)> = Vec::new();
    for o in &self.history {
      match o {
        Op::Add(d) | Op::Update(d) => {
          for x in d {
            pending.push((x["_id"].as_str().unwrap().to_string(), Some(stored_projection(&sch, x))));
          }
        }
        Op::Delete(ids) => {
          for i in ids {
            pending.push((i.clone(), None));
          }
        }
        Op::Commit => {
          for (id, v) in pending.drain(..) {
            match v {
              Some(v) => {
                committed.insert(id, v);
              }
              None => {
                committed.remove(&id);
              }
            }
          }
        }
        Op::Compact => {}
      }
    }
    committed
  }
}

fn schema_kw() -> Value {
  json!({"doc_id_field": "_id",
    "text_fields": [{"name": "body", "analyzer": "default", "stored": true, "indexed": true}],
    "keyword_fields": [{"name": "kw", "stored": true, "indexed": true, "fast": true}],
    "numeric_fields": [{"name": "n", "i64": true, "fast": true, "stored": true}]})
}

fn schema_default() -> Value {
  serde_json::to_value(searchlite_core::Schema::default_text_body()).expect("schema json")
}

/// (name, default schema?, documents)
fn corpora(thorough: bool) -> Vec<(String, bool, Vec<Value>)> {
  let mut v = vec![
    ("dflt2".to_string(), true, vec![json!({"_id": "A", "body": "a b"}), json!({"_id": "B", "body": "a"})]),
    ("empty".to_string(), false, vec![]),
    ("one".to_string(), false, vec![json!({"_id": "A", "body": "a", "kw": "x", "n": 1})]),
    ("two".to_string(), false, vec![json!({"_id": "A", "body": "a b", "kw": "x", "n": 1}), json!({"_id": "B", "body": "b a a", "kw": "y", "n": 2})]),
    ("ties3".to_string(), false, vec![json!({"_id": "A", "body": "a", "kw": "x", "n": 1}), json!({"_id": "B", "body": "a", "kw": "x", "n": 1}), json!({"_id": "C", "body": "a", "kw": "y", "n": 2})]),
    ("mixed3".to_string(), false, vec![json!({"_id": "A", "body": "a b c", "kw": ["x", "y"], "n": [1, 3]}), json!({"_id": "B", "body": "a"}), json!({"_id": "C", "body": "b caf\u{e9} a", "kw": "y", "n": 2})]),
  ];
  // multi-byte text (2, 3 and 4 byte sequences) in id, text and keyword values
  v.push(("utf8".to_string(), false, vec![json!({"_id": "\u{e9}1", "body": "un caf\u{e9} cr\u{e8}me", "kw": "\u{434}\u{43e}\u{43c}", "n": 1}), json!({"_id": "\u{65e5}\u{672c}", "body": "\u{65e5}\u{672c} \u{44f} \u{1F600} caf\u{e9}", "kw": ["\u{1F600}", "\u{44f}"], "n": 2})]));
  if thorough {
    let shapes = [json!({"body": "a", "kw": "x", "n": 1}), json!({"body": "a b", "kw": "y", "n": 2}), json!({"body": "b b a", "kw": ["x", "y"]}), json!({"body": "c", "n": [2, 1]})];
    // every multiset of 2 of the 4 shapes and of 3 of the first 3 shapes
    for (k, nshapes) in [(2usize, 4usize), (3, 3)] {
      for ms in vcore::inp::multisets(nshapes, k) {
        let docs: Vec<Value> = ms
          .iter()
          .enumerate()
          .map(|(i, s)| {
            let mut d = shapes[*s].clone();
            d["_id"] = json!(vcore::inp::id_of(i));
            d
          })
          .collect();
        v.push((format!("ms{}", ms.iter().map(|x| x.to_string()).collect::<String>()), false, docs));
      }
    }
  }
  v
}

/// The upserted version of a document: another text, another keyword.
fn version2(d: &Value, default_schema: bool) -> Value {
  if default_schema {
    json!({"_id": d["_id"], "body": "b b"})
  } else {
    json!({"_id": d["_id"], "body": "b b", "kw": "z", "n": 9})
  }
}

fn histories(docs: &[Value], default_schema: bool, thorough: bool) -> Vec<(String, Vec<Op>)> {
  use Op::*;
  let n = docs.len();
  let mut h: Vec<(String, Vec<Op>)> = Vec::new();
  if n == 0 {
    h.push(("init-only".into(), vec![]));
    h.push(("empty-commit".into(), vec![Commit]));
    return h;
  }
  let all = docs.to_vec();
  let d0 = docs[0].clone();
  let id0 = d0["_id"].as_str().unwrap().to_string();
  let d0v = version2(&d0, default_schema);
  let rest: Vec<Value> = docs[1..].to_vec();
  h.push(("add-commit".into(), vec![Add(all.clone()), Commit]));
  h.push(("upsert-later".into(), vec![Add(all.clone()), Commit, Update(vec![d0v.clone()]), Commit]));
  h.push(("upsert-same-batch".into(), vec![Add(all.clone()), Update(vec![d0v.clone()]), Commit]));
  h.push(("delete-later".into(), vec![Add(all.clone()), Commit, Delete(vec![id0.clone()]), Commit]));
  h.push(("delete-same-batch".into(), vec![Add(all.clone()), Delete(vec![id0.clone()]), Commit]));
  h.push(("uncommitted".into(), vec![Add(all.clone())]));
  h.push(("uncommitted-delete".into(), vec![Add(all.clone()), Commit, Delete(vec![id0.clone()])]));
  h.push(("delete-readd".into(), vec![Add(all.clone()), Commit, Delete(vec![id0.clone()]), Add(vec![d0v.clone()]), Commit]));
  {
    let mut dup = vec![d0.clone(), d0v.clone()];
    dup.extend(rest.clone());
    h.push(("dup-in-file".into(), vec![Add(dup), Commit]));
  }
  if n >= 2 {
    h.push(("split".into(), vec![Add(vec![d0.clone()]), Commit, Add(rest.clone()), Commit]));
    h.push(("split-compact".into(), vec![Add(vec![d0.clone()]), Commit, Add(rest.clone()), Commit, Compact]));
    h.push(("split-delete-compact".into(), vec![Add(vec![d0.clone()]), Commit, Add(rest.clone()), Commit, Delete(vec![id0.clone()]), Commit, Compact]));
    h.push(("uncommitted-tail".into(), vec![Add(vec![d0.clone()]), Commit, Add(rest.clone())]));
  }
  if thorough {
    h.push(("upsert-compact".into(), vec![Add(all.clone()), Commit, Update(vec![d0v.clone()]), Commit, Compact]));
    h.push(("compact-then-upsert".into(), vec![Add(all.clone()), Commit, Update(vec![d0v.clone()]), Commit, Compact, Update(vec![d0.clone()]), Commit]));
    h.push(("delete-all".into(), vec![Add(all.clone()), Commit, Delete(docs.iter().map(|d| d["_id"].as_str().unwrap().to_string()).collect()), Commit]));
    h.push(("double-commit".into(), vec![Add(all.clone()), Commit, Commit]));
    h.push(("delete-missing".into(), vec![Add(all.clone()), Commit, Delete(vec!["nope".into()]), Commit]));
    h.push(("per-doc-commits".into(), docs.iter().flat_map(|d| vec![Add(vec![d.clone()]), Commit]).collect()));
    if n >= 2 {
      h.push(("upsert-across-segments".into(), vec![Add(vec![d0.clone()]), Commit, Add(rest.clone()), Update(vec![d0v.clone()]), Commit]));
    }
  }
  h
}

fn worlds(thorough: bool) -> Vec<FWorld> {
  let mut out = Vec::new();
  for (name, dflt, docs) in corpora(thorough) {
    // the multiset corpora of the thorough tier get the core shapes only
    let extra = thorough && !name.starts_with("ms");
    for (shape, history) in histories(&docs, dflt, extra) {
      // quick tier (every CLI command is a process of ~0.1-0.2 CPU-s here): corpora `two` and
      // `mixed3` get all 13 shapes, the others a subset; the thorough tier runs everything
      let keep: Option<&[&str]> = match name.as_str() {
        "utf8" => Some(&["add-commit", "upsert-later", "delete-later", "delete-readd", "split-compact"]),
        "one" => Some(&["add-commit", "upsert-later", "delete-later", "uncommitted"]),
        "dflt2" => Some(&["add-commit", "upsert-later", "upsert-same-batch", "dup-in-file", "split", "delete-later"]),
        "ties3" => Some(&["add-commit", "upsert-later", "delete-later", "dup-in-file", "split", "split-compact", "split-delete-compact"]),
        _ => None,
      };
      if !thorough && keep.map(|k| !k.contains(&shape.as_str())).unwrap_or(false) {
        continue;
      }
      out.push(FWorld { corpus: name.clone(), shape, default_schema: dflt, schema_json: if dflt { schema_default() } else { schema_kw() }, history });
    }
  }
  // simplest first
  out.sort_by_key(|w| w.history.iter().map(|o| match o { Op::Add(d) | Op::Update(d) => 1 + d.len(), _ => 1 }).sum::<usize>());
  out
}

// ---------------------------------------------------------------------------------------------
// Requests

#[derive(Debug, Clone)]
struct Req {
  name: String,
  /// the full request payload (`--request` file, HTTP /search body, SearchRequest for the library)
  json: Value,
  /// the same request written with the documented CLI flags, when expressible
  flags: Option<Vec<String>>,
  /// follow next_cursor until it disappears
  walk: bool,
}

fn aggs_json() -> Value {
  json!({"k": {"type": "terms", "field": "kw", "size": 5}, "s": {"type": "stats", "field": "n"}})
}

fn s(x: &str) -> String {
  x.to_string()
}

fn requests(thorough: bool) -> Vec<Req> {
  let r = |name: &str, json: Value, flags: Option<Vec<&str>>, walk: bool| Req { name: name.into(), json, flags: flags.map(|f| f.into_iter().map(s).collect()), walk };
  let aggs_text = aggs_json().to_string();
  let mut v = vec![
    r("qs-defaults", json!({"query": "a", "limit": 10, "return_stored": false}), Some(vec!["-q", "a"]), false),
    r("qs", json!({"query": "a", "limit": 10, "return_stored": true}), Some(vec!["-q", "a", "--limit", "10", "--return-stored"]), false),
    r("qs-two-terms", json!({"query": "b a", "limit": 10, "return_stored": true}), Some(vec!["--query", "b a", "--limit", "10", "--return-stored"]), false),
    r("qs-field-negation", json!({"query": "body:a -b", "limit": 10, "return_stored": true}), Some(vec!["-q", "body:a -b", "--return-stored"]), false),
    r("qs-utf8", json!({"query": "caf\u{e9} \u{65e5}\u{672c}", "limit": 10, "return_stored": true}), Some(vec!["-q", "caf\u{e9} \u{65e5}\u{672c}", "--return-stored"]), false),
    r("node-query-string", json!({"query": {"type": "query_string", "query": "a b"}, "limit": 10, "return_stored": true}), None, false),
    r("node-bool", json!({"query": {"type": "bool", "must": [{"type": "term", "field": "body", "value": "a"}], "must_not": [{"type": "term", "field": "body", "value": "c"}]}, "limit": 10, "return_stored": true}), None, false),
    r("sort-n-desc-kw", json!({"query": "a", "limit": 10, "return_stored": true, "sort": [{"field": "n", "order": "desc"}, {"field": "kw"}]}), Some(vec!["-q", "a", "--return-stored", "--sort", "n:desc,kw"]), false),
    r("sort-kw-asc", json!({"query": {"type": "match_all"}, "limit": 10, "return_stored": false, "sort": [{"field": "kw", "order": "asc"}]}), None, false),
    r("sort-score-asc", json!({"query": "a b", "limit": 10, "return_stored": false, "sort": [{"field": "_score", "order": "asc"}]}), Some(vec!["-q", "a b", "--sort", "_score:asc"]), false),
    r("walk-qs", json!({"query": "a", "limit": 1, "return_stored": true}), Some(vec!["-q", "a", "--limit", "1", "--return-stored"]), true),
    r("walk-sorted", json!({"query": "a", "limit": 1, "return_stored": false, "sort": [{"field": "n", "order": "desc"}]}), Some(vec!["-q", "a", "--limit", "1", "--sort", "n:desc"]), true),
    r("walk-match-all-2", json!({"query": {"type": "match_all"}, "limit": 2, "return_stored": true}), None, true),
    r("aggs", json!({"query": "a", "limit": 10, "return_stored": true, "aggs": aggs_json()}), Some(vec!["-q", "a", "--limit", "10", "--return-stored", "--aggs", &aggs_text]), false),
    r("aggs-file", json!({"query": "b", "limit": 10, "return_stored": false, "aggs": aggs_json()}), Some(vec!["-q", "b", "--aggs-file", "@AGGS_FILE@"]), false),
    r("aggs-no-hits", json!({"query": "a", "limit": 10, "return_stored": false, "return_hits": false, "aggs": aggs_json()}), None, false),
    r("exec-bm25", json!({"query": "a b", "limit": 10, "return_stored": false, "execution": "bm25"}), Some(vec!["-q", "a b", "--execution", "bm25"]), false),
    r("exec-bmw", json!({"query": "a b", "limit": 10, "return_stored": false, "execution": "bmw", "bmw_block_size": 2}), Some(vec!["-q", "a b", "--execution", "bmw", "--bmw-block-size", "2"]), false),
    r("filter-kw", json!({"query": "a", "limit": 10, "return_stored": true, "filter": {"KeywordEq": {"field": "kw", "value": "x"}}}), None, false),
    r("highlight", json!({"query": "a", "limit": 10, "return_stored": true, "highlight_field": "body"}), None, false),
    r("err-sort-unknown", json!({"query": "a", "limit": 10, "return_stored": false, "sort": [{"field": "nope", "order": "asc"}]}), Some(vec!["-q", "a", "--sort", "nope:asc"]), false),
  ];
  if thorough {
    v.extend(vec![
      r("qs-phrase", json!({"query": "\"a b\"", "limit": 10, "return_stored": true}), Some(vec!["-q", "\"a b\"", "--return-stored"]), false),
      r("qs-none", json!({"query": "zzz", "limit": 10, "return_stored": true}), Some(vec!["-q", "zzz", "--return-stored"]), false),
      r("node-match-all", json!({"query": {"type": "match_all"}, "limit": 10, "return_stored": true}), None, false),
      r("node-prefix", json!({"query": {"type": "prefix", "field": "body", "value": "ca"}, "limit": 10, "return_stored": false}), None, false),
      r("filter-range", json!({"query": {"type": "match_all"}, "limit": 10, "return_stored": false, "filter": {"And": [{"I64Range": {"field": "n", "min": 1, "max": 2}}, {"Not": {"KeywordEq": {"field": "kw", "value": "y"}}}]}}), None, false),
      r("fuzzy", json!({"query": {"type": "query_string", "query": "body:caff"}, "fuzzy": {"max_edits": 1, "prefix_length": 1, "max_expansions": 20, "min_length": 3}, "limit": 10, "return_stored": false}), None, false),
      r("limit-1-sorted", json!({"query": "a", "limit": 1, "return_stored": true, "sort": [{"field": "n", "order": "asc"}, {"field": "kw", "order": "desc"}]}), Some(vec!["-q", "a", "--limit", "1", "--return-stored", "--sort", "n:asc,kw:desc"]), false),
      r("walk-aggs", json!({"query": {"type": "match_all"}, "limit": 1, "return_stored": false, "aggs": aggs_json()}), None, true),
      r("walk-bm25", json!({"query": "a", "limit": 2, "return_stored": false, "execution": "bm25"}), Some(vec!["-q", "a", "--limit", "2", "--execution", "bm25"]), true),
      r("profile", json!({"query": "a b", "limit": 10, "return_stored": false, "profile": true, "execution": "bm25"}), None, false),
      r("explain", json!({"query": "a b", "limit": 10, "return_stored": false, "explain": true}), None, false),
      r("collapse", json!({"query": "a", "limit": 10, "return_stored": false, "collapse": {"field": "kw"}}), None, false),
      r("sort-order-upper", json!({"query": "a", "limit": 10, "return_stored": false, "sort": [{"field": "n", "order": "desc"}]}), Some(vec!["-q", "a", "--sort", "n:DESC"]), false),
      r("err-filter-unknown", json!({"query": "a", "limit": 10, "return_stored": false, "filter": {"KeywordEq": {"field": "nope", "value": "x"}}}), None, false),
      r("err-aggs-unknown-field", json!({"query": "a", "limit": 10, "return_stored": false, "aggs": {"k": {"type": "terms", "field": "nope"}}}), Some(vec!["-q", "a", "--aggs", "{\"k\":{\"type\":\"terms\",\"field\":\"nope\"}}"]), false),
    ]);
  }
  v
}

/// Expressible through searchlite_search(query, limit, cursor, aggs): the FFI always uses the
/// default execution (wand), no sort, return_stored = true.
fn ffi_expressible(r: &Value) -> bool {
  let o = r.as_object().unwrap();
  o.iter().all(|(k, v)| match k.as_str() {
    "query" | "limit" | "aggs" | "cursor" => true,
    "return_stored" => v == &json!(true),
    "execution" => v == &json!("wand"),
    _ => false,
  })
}

// ---------------------------------------------------------------------------------------------
// Outcome of one search through one front end

#[derive(Debug, Clone)]
enum Out {
  Ok(Value),
  /// the front end reported an error (CLI: non-zero exit; HTTP: non-2xx; FFI: status 0; library: Err)
  Err(String),
  /// the front end misbehaved in a way that is not an error report (unparsable output, ...)
  Broken(String),
}

// ---------------------------------------------------------------------------------------------
// CLI binary

/// `<target>/cli` next to the running executable's profile directory.
fn cli_target_dir() -> PathBuf {
  let exe = std::env::current_exe().unwrap_or_else(|e| vcore::ev::machinery_failure(&format!("current_exe: {e}")));
  let target = exe.parent().and_then(|p| p.parent()).unwrap_or_else(|| vcore::ev::machinery_failure("current_exe has no grand-parent"));
  target.join("cli")
}

/// Build the CLI from /repo's working tree (plain build, no RUSTFLAGS); fast no-op when fresh.
fn build_cli() -> (PathBuf, f64) {
  let t0 = std::time::Instant::now();
  let dir = cli_target_dir();
  let out = Command::new("cargo")
    .args(["build", "--offline", "--manifest-path", "/repo/Cargo.toml", "-p", "searchlite-cli", "--target-dir"])
    .arg(&dir)
    .current_dir("/repo")
    .env("CARGO_NET_OFFLINE", "true")
    .env_remove("RUSTFLAGS")
    .env_remove("CARGO_ENCODED_RUSTFLAGS")
    .env_remove("CARGO_BUILD_RUSTFLAGS")
    .env_remove("CARGO_TARGET_DIR")
    .env_remove("RUSTC_WRAPPER")
    .stdin(Stdio::null())
    .output();
  let out = match out {
    Ok(o) => o,
    Err(e) => vcore::ev::machinery_failure(&format!("cannot spawn cargo to build searchlite-cli: {e}")),
  };
  if !out.status.success() {
    let err = String::from_utf8_lossy(&out.stderr);
    let tail: Vec<&str> = err.lines().rev().take(30).collect();
    vcore::ev::machinery_failure(&format!("building searchlite-cli failed:\n{}", tail.into_iter().rev().collect::<Vec<_>>().join("\n")));
  }
  let name = "searchlite-cli";
  let bin = dir.join("debug").join(name);
  if !bin.is_file() {
    vcore::ev::machinery_failure(&format!("CLI binary {} missing after a successful build", bin.display()));
  }
  (bin, t0.elapsed().as_secs_f64())
}

struct CliRun {
  code: Option<i32>,
  stdout: String,
  stderr: String,
}

fn cli(bin: &Path, args: &[String], stdin: Option<&str>) -> CliRun {
  let mut c = Command::new(bin);
  c.args(args).env("RUST_BACKTRACE", "0").env_remove("RUST_LOG").stdout(Stdio::piped()).stderr(Stdio::piped());
  c.stdin(if stdin.is_some() { Stdio::piped() } else { Stdio::null() });
  let mut child = match c.spawn() {
    Ok(c) => c,
    Err(e) => vcore::ev::machinery_failure(&format!("cannot spawn {}: {e}", bin.display())),
  };
  if let Some(s) = stdin {
    let mut si = child.stdin.take().unwrap();
    let _ = si.write_all(s.as_bytes());
  }
  let out = child.wait_with_output().unwrap_or_else(|e| vcore::ev::machinery_failure(&format!("waiting for the CLI: {e}")));
  CliRun { code: out.status.code(), stdout: String::from_utf8_lossy(&out.stdout).to_string(), stderr: String::from_utf8_lossy(&out.stderr).to_string() }
}

fn first_line(s: &str) -> String {
  s.lines().find(|l| !l.trim().is_empty()).unwrap_or("").chars().take(200).collect()
}

struct CliFe {
  bin: PathBuf,
  idx: PathBuf,
  tmp: PathBuf,
  n: u64,
}

impl CliFe {
  fn file(&mut self, tag: &str, content: &str) -> String {
    self.n += 1;
    let p = self.tmp.join(format!("{tag}{}", self.n));
    std::fs::write(&p, content).unwrap_or_else(|e| vcore::ev::machinery_failure(&format!("write {}: {e}", p.display())));
    p.to_string_lossy().to_string()
  }
  fn idx(&self) -> String {
    self.idx.to_string_lossy().to_string()
  }
  fn cmd(&mut self, args: Vec<String>) -> Result<(), String> {
    let r = cli(&self.bin, &args, None);
    if r.code == Some(0) {
      Ok(())
    } else {
      Err(format!("`searchlite-cli {}` exited with {:?}: {}", args[0], r.code, first_line(&r.stderr)))
    }
  }
  fn init(&mut self, schema_json: &Value) -> Result<(), String> {
    let f = self.file("schema", &schema_json.to_string());
    self.cmd(vec![s("init"), self.idx(), f])
  }
  fn apply(&mut self, op: &Op) -> Result<(), String> {
    match op {
      Op::Add(d) | Op::Update(d) => {
        let body: String = d.iter().map(|x| format!("{x}\n")).collect();
        let f = self.file("docs", &body);
        self.cmd(vec![s(if matches!(op, Op::Add(_)) { "add" } else { "update" }), self.idx(), f])
      }
      Op::Delete(ids) => {
        let f = self.file("ids", &ids.iter().map(|i| format!("{i}\n")).collect::<String>());
        self.cmd(vec![s("delete"), self.idx(), f])
      }
      Op::Commit => self.cmd(vec![s("commit"), self.idx()]),
      Op::Compact => self.cmd(vec![s("compact"), self.idx()]),
    }
  }
  fn finish(r: CliRun) -> Out {
    match r.code {
      Some(0) => match serde_json::from_str::<Value>(&r.stdout) {
        Ok(v) => Out::Ok(v),
        Err(e) => Out::Broken(format!("exit 0 but stdout is not JSON ({e}): {}", first_line(&r.stdout))),
      },
      Some(c) => Out::Err(format!("exit {c}: {}", first_line(&r.stderr))),
      None => Out::Broken(format!("killed by a signal: {}", first_line(&r.stderr))),
    }
  }
  /// `search <index> --request <file>` (odd calls: `--request-stdin`)
  fn search_request(&mut self, req: &Value, stdin: bool) -> Out {
    if stdin {
      Self::finish(cli(&self.bin, &[s("search"), self.idx(), s("--request-stdin")], Some(&req.to_string())))
    } else {
      let f = self.file("req", &req.to_string());
      Self::finish(cli(&self.bin, &[s("search"), self.idx(), s("--request"), f], None))
    }
  }
  fn search_flags(&mut self, flags: &[String], cursor: Option<&str>) -> Out {
    let mut args = vec![s("search"), self.idx()];
    for f in flags {
      if f == "@AGGS_FILE@" {
        let p = self.file("aggs", &aggs_json().to_string());
        args.push(p);
      } else {
        args.push(f.clone());
      }
    }
    if let Some(c) = cursor {
      args.push(s("--cursor"));
      args.push(s(c));
    }
    Self::finish(cli(&self.bin, &args, None))
  }
}

// ---------------------------------------------------------------------------------------------
// HTTP service (in-process, raw HTTP/1.1)

struct Http {
  rt: tokio::runtime::Runtime,
  start_lock: Mutex<()>,
}

struct HttpFe {
  port: u16,
  task: tokio::task::JoinHandle<anyhow::Result<()>>,
}

impl Drop for HttpFe {
  fn drop(&mut self) {
    self.task.abort();
  }
}

/// How the bytes of one request body reach the server.
#[derive(Debug, Clone, PartialEq)]
enum Delivery {
  /// Content-Length, head and body in one write
  Single,
  /// Content-Length; head + body[..at] in one write, a pause, body[at..] in a second write
  SplitWrite(usize),
  /// Transfer-Encoding: chunked, two chunks body[..at] and body[at..]
  Chunked2(usize),
  /// Transfer-Encoding: chunked, chunks of this many bytes throughout
  ChunkedN(usize),
}

impl Delivery {
  fn to_json(&self) -> Value {
    match self {
      Delivery::Single => json!({"kind": "content-length"}),
      Delivery::SplitWrite(at) => json!({"kind": "content-length-two-writes", "at": at}),
      Delivery::Chunked2(at) => json!({"kind": "chunked-two-chunks", "at": at}),
      Delivery::ChunkedN(n) => json!({"kind": "chunked-uniform", "size": n}),
    }
  }
  fn from_json(v: &Value) -> Delivery {
    let at = v["at"].as_u64().unwrap_or(0) as usize;
    match v["kind"].as_str().unwrap_or("") {
      "content-length-two-writes" => Delivery::SplitWrite(at),
      "chunked-two-chunks" => Delivery::Chunked2(at),
      "chunked-uniform" => Delivery::ChunkedN(v["size"].as_u64().unwrap_or(1) as usize),
      _ => Delivery::Single,
    }
  }
  fn kind(&self) -> &'static str {
    match self {
      Delivery::Single => "content-length",
      Delivery::SplitWrite(_) => "content-length-two-writes",
      Delivery::Chunked2(_) => "chunked-two-chunks",
      Delivery::ChunkedN(_) => "chunked-uniform",
    }
  }
}

fn http_call(port: u16, method: &str, path: &str, ctype: Option<&str>, body: &[u8]) -> Result<(u16, Vec<u8>), String> {
  http_deliver(port, method, path, ctype, body, &Delivery::Single)
}

fn chunked_body<'a>(chunks: impl Iterator<Item = &'a [u8]>) -> Vec<u8> {
  let mut out = Vec::new();
  for c in chunks {
    if c.is_empty() {
      continue;
    }
    out.extend_from_slice(format!("{:x}\r\n", c.len()).as_bytes());
    out.extend_from_slice(c);
    out.extend_from_slice(b"\r\n");
  }
  out.extend_from_slice(b"0\r\n\r\n");
  out
}

fn http_deliver(port: u16, method: &str, path: &str, ctype: Option<&str>, body: &[u8], how: &Delivery) -> Result<(u16, Vec<u8>), String> {
  let mut st = TcpStream::connect(("127.0.0.1", port)).map_err(|e| format!("connect: {e}"))?;
  st.set_read_timeout(Some(Duration::from_secs(60))).ok();
  st.set_write_timeout(Some(Duration::from_secs(60))).ok();
  st.set_nodelay(true).ok();
  let mut head = format!("{method} {path} HTTP/1.1\r\nHost: 127.0.0.1:{port}\r\nConnection: close\r\nAccept: */*\r\n");
  if let Some(c) = ctype {
    head.push_str(&format!("Content-Type: {c}\r\n"));
  }
  // the writes: each element is handed to the socket separately, with a pause in between
  let mut writes: Vec<Vec<u8>> = Vec::new();
  match how {
    Delivery::Single | Delivery::SplitWrite(_) => {
      if method == "POST" {
        head.push_str(&format!("Content-Length: {}\r\n", body.len()));
      }
      head.push_str("\r\n");
      let mut first = head.into_bytes();
      match how {
        Delivery::SplitWrite(at) if *at > 0 && *at < body.len() => {
          first.extend_from_slice(&body[..*at]);
          writes.push(first);
          writes.push(body[*at..].to_vec());
        }
        _ => {
          first.extend_from_slice(body);
          writes.push(first);
        }
      }
    }
    Delivery::Chunked2(at) => {
      head.push_str("Transfer-Encoding: chunked\r\n\r\n");
      let at = (*at).min(body.len());
      let mut first = head.into_bytes();
      first.extend(chunked_body([&body[..at], &body[at..]].into_iter()));
      writes.push(first);
    }
    Delivery::ChunkedN(n) => {
      head.push_str("Transfer-Encoding: chunked\r\n\r\n");
      let mut first = head.into_bytes();
      first.extend(chunked_body(body.chunks((*n).max(1))));
      writes.push(first);
    }
  }
  for (i, w) in writes.iter().enumerate() {
    if i > 0 {
      std::thread::sleep(Duration::from_millis(4));
    }
    st.write_all(w).map_err(|e| format!("write: {e}"))?;
    st.flush().ok();
  }
  let mut raw = Vec::new();
  st.read_to_end(&mut raw).map_err(|e| format!("read: {e}"))?;
  let split = raw.windows(4).position(|w| w == b"\r\n\r\n").ok_or_else(|| format!("no header end in {} bytes", raw.len()))?;
  let head = String::from_utf8_lossy(&raw[..split]).to_string();
  let mut lines = head.lines();
  let status: u16 = lines.next().and_then(|l| l.split(' ').nth(1)).and_then(|c| c.parse().ok()).ok_or_else(|| format!("bad status line in {head:?}"))?;
  let mut chunked = false;
  let mut clen: Option<usize> = None;
  for l in lines {
    let low = l.to_ascii_lowercase();
    if let Some(v) = low.strip_prefix("transfer-encoding:") {
      chunked = v.contains("chunked");
    }
    if let Some(v) = low.strip_prefix("content-length:") {
      clen = v.trim().parse().ok();
    }
  }
  let rest = &raw[split + 4..];
  let body = if chunked {
    let mut out = Vec::new();
    let mut i = 0;
    loop {
      let e = rest[i..].windows(2).position(|w| w == b"\r\n").ok_or("bad chunk header")? + i;
      let n = usize::from_str_radix(String::from_utf8_lossy(&rest[i..e]).split(';').next().unwrap_or("").trim(), 16).map_err(|e| format!("bad chunk size: {e}"))?;
      if n == 0 {
        break;
      }
      if e + 2 + n > rest.len() {
        return Err("truncated chunk".into());
      }
      out.extend_from_slice(&rest[e + 2..e + 2 + n]);
      i = e + 2 + n + 2;
    }
    out
  } else {
    match clen {
      Some(n) if n <= rest.len() => rest[..n].to_vec(),
      Some(n) => return Err(format!("body shorter ({}) than Content-Length {n}", rest.len())),
      None => rest.to_vec(),
    }
  };
  Ok((status, body))
}

impl Http {
  fn new() -> Http {
    let rt = tokio::runtime::Builder::new_multi_thread().worker_threads(4).enable_all().build().unwrap_or_else(|e| vcore::ev::machinery_failure(&format!("tokio runtime: {e}")));
    // searchlite_http::run installs SIGINT/SIGTERM listeners (graceful shutdown); keep the check
    // killable: leave on the first such signal
    rt.spawn(async {
      use tokio::signal::unix::{signal, SignalKind};
      let mut term = signal(SignalKind::terminate()).expect("sigterm");
      let mut int = signal(SignalKind::interrupt()).expect("sigint");
      tokio::select! { _ = term.recv() => {}, _ = int.recv() => {} }
      vcore::world::cleanup_scratch_root();
      std::process::exit(130);
    });
    Http { rt, start_lock: Mutex::new(()) }
  }

  /// Start `searchlite_http::run` for `index` on a free loopback port.
  fn serve(&self, index: &Path) -> HttpFe {
    let _g = self.start_lock.lock();
    let mut last = String::new();
    for _attempt in 0..20 {
      let port = match std::net::TcpListener::bind("127.0.0.1:0").and_then(|l| l.local_addr()) {
        Ok(a) => a.port(),
        Err(e) => {
          last = format!("probe bind: {e}");
          continue;
        }
      };
      let args = <searchlite_http::ServeArgs as clap::Parser>::try_parse_from(["searchlite-http", "--index", &index.to_string_lossy(), "--bind", &format!("127.0.0.1:{port}"), "--shutdown-grace-secs", "0", "--request-timeout-secs", "120"]);
      let args = match args {
        Ok(a) => a,
        Err(e) => vcore::ev::machinery_failure(&format!("ServeArgs: {e}")),
      };
      let task = self.rt.spawn(searchlite_http::run(args));
      let t0 = std::time::Instant::now();
      let mut up = false;
      while t0.elapsed() < Duration::from_secs(20) {
        if task.is_finished() {
          break;
        }
        if let Ok((200, _)) = http_call(port, "GET", "/healthz", None, b"") {
          up = true;
          break;
        }
        std::thread::sleep(Duration::from_millis(2));
      }
      std::thread::sleep(Duration::from_millis(2));
      if up && !task.is_finished() {
        return HttpFe { port, task };
      }
      last = format!("server on port {port} did not come up (finished: {})", task.is_finished());
      task.abort();
    }
    vcore::ev::machinery_failure(&format!("cannot start the HTTP service: {last}"));
  }
}

impl HttpFe {
  fn post(&self, path: &str, ctype: Option<&str>, body: &[u8]) -> Result<Value, String> {
    let (st, b) = http_call(self.port, "POST", path, ctype, body).unwrap_or_else(|e| vcore::ev::machinery_failure(&format!("HTTP transport failure on POST {path}: {e}")));
    let v: Value = serde_json::from_slice(&b).map_err(|e| format!("POST {path}: status {st}, body is not JSON ({e}): {}", first_line(&String::from_utf8_lossy(&b))))?;
    if (200..300).contains(&st) {
      Ok(v)
    } else {
      Err(format!("POST {path}: status {st}: {v}"))
    }
  }
  fn init(&self, index: &Path, schema_json: &Value) -> Result<(), String> {
    self.post("/init", Some("application/json"), schema_json.to_string().as_bytes())?;
    // identity check: this really is the server for our directory (documented /stats field)
    let (st, b) = http_call(self.port, "GET", "/stats", None, b"").map_err(|e| format!("GET /stats: {e}"))?;
    let v: Value = serde_json::from_slice(&b).unwrap_or(Value::Null);
    if st != 200 || v["index_path"].as_str() != Some(&index.display().to_string()) {
      vcore::ev::machinery_failure(&format!("HTTP server on port {} is not serving {} (status {st}, {v})", self.port, index.display()));
    }
    Ok(())
  }
  fn apply(&self, op: &Op) -> Result<(), String> {
    match op {
      Op::Add(d) => {
        let body: String = d.iter().map(|x| format!("{x}\n")).collect();
        let v = self.post("/add", Some("application/x-ndjson"), body.as_bytes())?;
        if v["queued"].as_u64() != Some(d.len() as u64) {
          return Err(format!("/add of {} documents answered {v}", d.len()));
        }
        Ok(())
      }
      Op::Update(d) => {
        let v = self.post("/bulk", Some("application/json"), json!({"docs": d}).to_string().as_bytes())?;
        if v["queued"].as_u64() != Some(d.len() as u64) {
          return Err(format!("/bulk of {} documents answered {v}", d.len()));
        }
        Ok(())
      }
      Op::Delete(ids) => self.post("/delete", Some("application/json"), json!({"ids": ids}).to_string().as_bytes()).map(|_| ()),
      Op::Commit => self.post("/commit", None, b"").map(|_| ()),
      Op::Compact => self.post("/compact", None, b"").map(|_| ()),
    }
  }
  fn search(&self, req: &Value) -> Out {
    let (st, b) = http_call(self.port, "POST", "/search", Some("application/json"), req.to_string().as_bytes()).unwrap_or_else(|e| vcore::ev::machinery_failure(&format!("HTTP transport failure on /search: {e}")));
    let v: Value = match serde_json::from_slice(&b) {
      Ok(v) => v,
      Err(e) => return Out::Broken(format!("status {st}, body is not JSON ({e}): {}", first_line(&String::from_utf8_lossy(&b)))),
    };
    if (200..300).contains(&st) {
      return Out::Ok(v);
    }
    // README: "All errors return {"error":{"type":"...","reason":"..."}}"
    if v["error"]["type"].is_string() && v["error"]["reason"].is_string() {
      Out::Err(format!("status {st}: {}", v["error"]))
    } else {
      Out::Broken(format!("status {st} without the documented error body: {v}"))
    }
  }
}

// ---------------------------------------------------------------------------------------------
// FFI

struct FfiFe {
  h: *mut searchlite_ffi::IndexHandle,
}

impl Drop for FfiFe {
  fn drop(&mut self) {
    unsafe { searchlite_ffi::searchlite_index_close(self.h) }
  }
}

impl FfiFe {
  fn open(dir: &Path, create: bool) -> Result<FfiFe, String> {
    let p = CString::new(dir.to_string_lossy().to_string()).unwrap();
    let h = unsafe { searchlite_ffi::searchlite_index_open(p.as_ptr(), create) };
    if h.is_null() {
      return Err("searchlite_index_open returned null".into());
    }
    Ok(FfiFe { h })
  }
  fn apply(&self, op: &Op) -> Result<(), String> {
    match op {
      Op::Add(d) | Op::Update(d) => {
        for x in d {
          let js = CString::new(x.to_string()).unwrap();
          let rc = unsafe { searchlite_ffi::searchlite_add_json(self.h, js.as_ptr(), js.as_bytes().len()) };
          if rc < 0 {
            return Err(format!("searchlite_add_json({x}) returned {rc}"));
          }
        }
        Ok(())
      }
      Op::Commit => {
        let rc = unsafe { searchlite_ffi::searchlite_commit(self.h) };
        if rc != 0 {
          return Err(format!("searchlite_commit returned {rc}"));
        }
        Ok(())
      }
      _ => Err("not expressible".into()),
    }
  }
  /// `req` must satisfy ffi_expressible.
  fn search(&self, req: &Value) -> Out {
    let q = match &req["query"] {
      Value::String(x) => x.clone(),
      o => o.to_string(),
    };
    let q = CString::new(q).unwrap();
    let cur = req["cursor"].as_str().map(|c| CString::new(c).unwrap());
    let aggs = req.get("aggs").map(|a| a.to_string());
    let mut buf = vec![0u8; 1 << 18];
    let n = unsafe {
      searchlite_ffi::searchlite_search(
        self.h,
        q.as_ptr(),
        req["limit"].as_u64().unwrap_or(10) as usize,
        cur.as_ref().map(|c| c.as_ptr()).unwrap_or(std::ptr::null()),
        aggs.as_ref().map(|a| a.as_ptr() as *const c_char).unwrap_or(std::ptr::null()),
        aggs.as_ref().map(|a| a.len()).unwrap_or(0),
        buf.as_mut_ptr() as *mut c_char,
        buf.len(),
      )
    };
    if n == 0 {
      return Out::Err("status 0".into());
    }
    match serde_json::from_slice::<Value>(&buf[..n]) {
      Ok(v) => Out::Ok(v),
      Err(e) => Out::Broken(format!("{n} bytes that are not JSON ({e})")),
    }
  }
}

// ---------------------------------------------------------------------------------------------
// Library mirror

fn lib_opts(dir: &Path) -> searchlite_core::api::types::IndexOptions {
  // what all three front ends pass (and README documents): positions on, k1 0.9, b 0.4, filesystem
  let mut o = vcore::world::opts(dir, StorageType::Filesystem);
  o.bm25_k1 = 0.9;
  o.bm25_b = 0.4;
  // detector self-test (never set by ./check): a mirror with the library's own default BM25
  // parameters must make score comparisons fail
  if std::env::var("VERIF_C25_SELFTEST").as_deref() == Ok("bm25-defaults") {
    o.bm25_k1 = 1.2;
    o.bm25_b = 0.75;
  }
  o
}

struct LibFe {
  idx: Index,
  writer: Option<IndexWriter>,
  /// FFI-equivalent call pattern: every add is followed by a commit
  commit_each_add: bool,
}

impl LibFe {
  fn create(dir: &Path, schema_json: &Value, commit_each_add: bool) -> Result<LibFe, String> {
    let idx = Index::create(dir, schema(schema_json.clone()), lib_opts(dir)).map_err(|e| format!("Index::create: {e:#}"))?;
    Ok(LibFe { idx, writer: None, commit_each_add })
  }
  fn w(&mut self) -> Result<&mut IndexWriter, String> {
    if self.writer.is_none() {
      self.writer = Some(self.idx.writer().map_err(|e| format!("writer: {e:#}"))?);
    }
    Ok(self.writer.as_mut().unwrap())
  }
  fn apply(&mut self, op: &Op) -> Result<(), String> {
    match op {
      Op::Add(d) | Op::Update(d) => {
        for x in d {
          self.w()?.add_document(&doc(x)).map_err(|e| format!("add_document: {e:#}"))?;
          if self.commit_each_add {
            self.w()?.commit().map_err(|e| format!("commit: {e:#}"))?;
            self.writer = None;
          }
        }
        Ok(())
      }
      Op::Delete(ids) => self.w()?.delete_documents(ids).map_err(|e| format!("delete_documents: {e:#}")),
      Op::Commit => {
        self.w()?.commit().map_err(|e| format!("commit: {e:#}"))?;
        self.writer = None;
        Ok(())
      }
      Op::Compact => self.idx.compact().map_err(|e| format!("compact: {e:#}")),
    }
  }
  fn search(&self, req: &Value) -> Out {
    let r: SearchRequest = match serde_json::from_value(req.clone()) {
      Ok(r) => r,
      Err(e) => return Out::Err(format!("request does not deserialize: {e}")),
    };
    let res = vcore::catch(|| self.idx.reader().and_then(|rd| rd.search(&r)));
    match res {
      Ok(Ok(v)) => Out::Ok(serde_json::to_value(&v).expect("result json")),
      Ok(Err(e)) => Out::Err(format!("{e:#}")),
      Err(p) => Out::Broken(format!("PANIC: {p}")),
    }
  }
}

// ---------------------------------------------------------------------------------------------
// Comparison

fn num_eq(a: &Value, b: &Value) -> bool {
  if let (Some(x), Some(y)) = (a.as_i64(), b.as_i64()) {
    return x == y;
  }
  if let (Some(x), Some(y)) = (a.as_u64(), b.as_u64()) {
    return x == y;
  }
  match (a.as_f64(), b.as_f64()) {
    (Some(x), Some(y)) => x == y || (x - y).abs() <= 1e-5 * x.abs().max(y.abs()).max(1e-6),
    _ => false,
  }
}

/// Structural equality with a relative tolerance of 1e-5 on numbers.
fn deep_eq(a: &Value, b: &Value, path: &str) -> Result<(), String> {
  match (a, b) {
    (Value::Number(_), Value::Number(_)) => {
      if num_eq(a, b) {
        Ok(())
      } else {
        Err(format!("{path}: expected {a}, got {b}"))
      }
    }
    (Value::Array(x), Value::Array(y)) => {
      if x.len() != y.len() {
        return Err(format!("{path}: expected {} elements, got {} (expected {a}, got {b})", x.len(), y.len()));
      }
      for (i, (p, q)) in x.iter().zip(y).enumerate() {
        deep_eq(p, q, &format!("{path}[{i}]"))?;
      }
      Ok(())
    }
    (Value::Object(x), Value::Object(y)) => {
      let kx: BTreeSet<&String> = x.keys().collect();
      let ky: BTreeSet<&String> = y.keys().collect();
      if kx != ky {
        return Err(format!("{path}: expected keys {kx:?}, got {ky:?}"));
      }
      for (k, p) in x {
        deep_eq(p, &y[k], &format!("{path}.{k}"))?;
      }
      Ok(())
    }
    _ => {
      if a == b {
        Ok(())
      } else {
        Err(format!("{path}: expected {a}, got {b}"))
      }
    }
  }
}

/// Drop what is documented as run specific: profile.timings; the cursor is opaque (presence only).
fn normalize(v: &Value) -> (Value, Vec<Value>) {
  let mut o: Map<String, Value> = v.as_object().cloned().unwrap_or_default();
  let hits = o.remove("hits").and_then(|h| h.as_array().cloned()).unwrap_or_default();
  if let Some(c) = o.get_mut("next_cursor") {
    *c = json!(c.is_string());
  }
  if let Some(p) = o.get_mut("profile").and_then(|p| p.as_object_mut()) {
    p.remove("timings");
  }
  (Value::Object(o), hits)
}

/// Hits in order; when the order is by score, hits whose scores differ by < 1e-5 (relative) form a
/// tie class inside which any order is accepted.
fn compare_hits(exp: &[Value], got: &[Value], score_ordered: bool) -> Result<(), String> {
  if exp.len() != got.len() {
    let ids = |h: &[Value]| h.iter().map(|x| x["doc_id"].as_str().unwrap_or("?").to_string()).collect::<Vec<_>>();
    return Err(format!("expected hits {:?}, got {:?}", ids(exp), ids(got)));
  }
  let mut i = 0;
  while i < exp.len() {
    let mut j = i + 1;
    if score_ordered {
      while j < exp.len() && num_eq(&exp[j]["score"], &exp[i]["score"]) {
        j += 1;
      }
    }
    let mut used = vec![false; j - i];
    for e in &exp[i..j] {
      let mut last = String::new();
      let mut found = false;
      for (k, g) in got[i..j].iter().enumerate() {
        if used[k] {
          continue;
        }
        match deep_eq(e, g, &format!("hit {}", e["doc_id"])) {
          Ok(()) => {
            used[k] = true;
            found = true;
            break;
          }
          Err(m) => {
            if g["doc_id"] == e["doc_id"] || last.is_empty() {
              last = m;
            }
          }
        }
      }
      if !found {
        return Err(format!("positions {i}..{j}: {last}"));
      }
    }
    i = j;
  }
  Ok(())
}

fn score_ordered(req: &Value) -> bool {
  req["sort"].as_array().map(|a| a.is_empty()).unwrap_or(true)
}

/// The FFI does not document whether stored fields come back: when it returns none, ignore them.
fn ffi_fields_policy(exp: &mut [Value], got: &[Value]) {
  if got.iter().all(|h| h["fields"].is_null()) {
    for e in exp.iter_mut() {
      e["fields"] = Value::Null;
    }
  }
}

fn compare_pages(req: &Value, exp: &[Out], got: &[Out], ffi: bool) -> Result<(), String> {
  if exp.len() != got.len() {
    return Err(format!("cursor walk has {} pages, the library's has {}", got.len(), exp.len()));
  }
  let mut all_e: Vec<Value> = Vec::new();
  let mut all_g: Vec<Value> = Vec::new();
  for (p, (e, g)) in exp.iter().zip(got).enumerate() {
    let pg = if exp.len() > 1 { format!("page {} ", p + 1) } else { String::new() };
    match (e, g) {
      (Out::Broken(m), _) => return Err(format!("{pg}library misbehaved: {m}")),
      (_, Out::Broken(m)) => return Err(format!("{pg}front end misbehaved: {m}")),
      (Out::Err(_), Out::Err(_)) => {}
      (Out::Ok(v), Out::Err(m)) => return Err(format!("{pg}front end reports an error ({m}) where the library answers {}", brief(v))),
      (Out::Err(m), Out::Ok(v)) => return Err(format!("{pg}front end answers {} where the library reports an error ({m})", brief(v))),
      (Out::Ok(ev), Out::Ok(gv)) => {
        let (eo, mut eh) = normalize(ev);
        let (go, gh) = normalize(gv);
        if ffi {
          ffi_fields_policy(&mut eh, &gh);
        }
        deep_eq(&eo, &go, &format!("{pg}response")).map_err(|m| format!("{m}; library {}, front end {}", brief(ev), brief(gv)))?;
        if eh.len() != gh.len() {
          return Err(format!("{pg}has {} hits, the library's has {}", gh.len(), eh.len()));
        }
        all_e.extend(eh);
        all_g.extend(gh);
      }
    }
  }
  compare_hits(&all_e, &all_g, score_ordered(req))
}

fn brief(v: &Value) -> String {
  let hits: Vec<String> = v["hits"].as_array().map(|a| a.iter().map(|h| format!("{}:{}", h["doc_id"].as_str().unwrap_or("?"), h["score"])).collect()).unwrap_or_default();
  let mut s = format!("{{total {} hits [{}]", v["total_hits_estimate"], hits.join(" "));
  if v.get("next_cursor").is_some() {
    s.push_str(" +cursor");
  }
  if let Some(a) = v.get("aggregations") {
    let t = a.to_string();
    s.push_str(&format!(" aggs {}", t.chars().take(160).collect::<String>()));
  }
  s.push('}');
  s
}

/// One request, or the whole cursor walk, through `f`.
fn pages(req: &Req, f: &mut dyn FnMut(&Value, Option<&str>) -> Out) -> Vec<Out> {
  let mut out = Vec::new();
  let mut cursor: Option<String> = None;
  loop {
    let mut j = req.json.clone();
    if let Some(c) = &cursor {
      j["cursor"] = json!(c);
    }
    let o = f(&j, cursor.as_deref());
    let next = match &o {
      Out::Ok(v) => v["next_cursor"].as_str().map(|x| x.to_string()),
      _ => None,
    };
    out.push(o);
    match next {
      Some(c) if req.walk && out.len() < 8 => cursor = Some(c),
      _ => break,
    }
  }
  out
}

// ---------------------------------------------------------------------------------------------
// Classifiers for genuine defects of the code under test (see the final report of this check)

fn classify(_w: &FWorld, _check: &str, _what: &str) -> Option<&'static str> {
  None
}

// ---------------------------------------------------------------------------------------------
// One world through everything

struct Env {
  bin: PathBuf,
  http: Http,
  /// false (quick tier): a flag-expressible request goes through `--request` or through the flags,
  /// alternating with (world, request) parity, instead of through both
  both_cli_routes: bool,
}

struct Failure {
  check: String,
  sig: Option<&'static str>,
  what: String,
  request: Value,
}

#[derive(Default)]
struct WorldStats {
  evals: u64,
  nontrivial: u64,
  outcomes: BTreeSet<String>,
  failures: Vec<Failure>,
  sample: Option<Value>,
  by_frontend: BTreeMap<String, u64>,
  cut_short: bool,
  /// searches through the long-lived FFI handle between the write calls of the history
  ffi_probes: u64,
  probe_failures: Vec<(String, String, Value)>,
}

/// Two searches (match_all with stored fields; match_all + aggregations) through the FFI handle,
/// compared with the library mirror in the same state.
fn ffi_probe(st: &mut WorldStats, f: &FfiFe, l: &LibFe, when: String) {
  let probes = [json!({"query": {"type": "match_all"}, "limit": 100, "return_stored": true}), json!({"query": {"type": "match_all"}, "limit": 10, "return_stored": true, "aggs": aggs_json()})];
  for (pi, r) in probes.iter().enumerate() {
    st.evals += 1;
    st.ffi_probes += 1;
    let exp = l.search(r);
    let got = f.search(r);
    if let Err(m) = compare_pages(r, &[exp], &[got], true) {
      st.probe_failures.push((format!("ffi-probe:{}", if pi == 0 { "match_all" } else { "aggs" }), format!("search through the same FFI handle {when}, request {r}: {m}"), r.clone()));
    }
  }
}

fn contents_of(o: &Out) -> Result<BTreeMap<String, Value>, String> {
  match o {
    Out::Ok(v) => {
      let mut m = BTreeMap::new();
      for h in v["hits"].as_array().cloned().unwrap_or_default() {
        let id = h["doc_id"].as_str().unwrap_or("?").to_string();
        if m.insert(id.clone(), h["fields"].clone()).is_some() {
          return Err(format!("match_all returns id {id} twice"));
        }
      }
      if v.get("next_cursor").is_some() {
        return Err("match_all with limit 100 still has a next_cursor".into());
      }
      Ok(m)
    }
    Out::Err(m) => Err(format!("match_all failed: {m}")),
    Out::Broken(m) => Err(format!("match_all misbehaved: {m}")),
  }
}

fn run_world(env: &Env, w: &FWorld, reqs: &[Req], over: &(dyn Fn() -> bool + Sync)) -> WorldStats {
  let mut st = WorldStats::default();
  let trace = std::env::var("VERIF_C25_TRACE").is_ok();
  let t0 = std::time::Instant::now();
  let tr = |what: &str| {
    if trace {
      eprintln!("trace {:8.3}s {what}", t0.elapsed().as_secs_f64());
    }
  };
  let sc = Scratch::new("c25");
  let tmp = sc.sub("tmp");
  std::fs::create_dir_all(&tmp).expect("tmp dir");
  let fail = |st: &mut WorldStats, check: String, what: String, request: Value| {
    let what = format!("[{check}] {}: {what}", w.describe());
    st.failures.push(Failure { sig: classify(w, &check, &what), check, what, request });
  };

  // ---- build the same history everywhere
  let mut lib = match LibFe::create(&sc.sub("lib"), &w.schema_json, false) {
    Ok(l) => l,
    Err(e) => vcore::ev::machinery_failure(&format!("C25 library mirror: {e}")),
  };
  let mut clife = CliFe { bin: env.bin.clone(), idx: sc.sub("cli"), tmp: tmp.clone(), n: 0 };
  let http_dir = sc.sub("http");
  let httpfe = env.http.serve(&http_dir);
  tr("http up");
  let with_ffi = w.ffi_expressible();
  let mut libffi: Option<LibFe> = None;
  let mut ffife: Option<FfiFe> = None;
  st.evals += 1;
  if let Err(e) = clife.init(&w.schema_json) {
    fail(&mut st, "build:cli".into(), format!("init failed: {e}"), Value::Null);
    return st;
  }
  if let Err(e) = httpfe.init(&http_dir, &w.schema_json) {
    fail(&mut st, "build:http".into(), format!("init failed: {e}"), Value::Null);
    return st;
  }
  if with_ffi {
    let d = sc.sub("ffi");
    if !w.default_schema {
      // the FFI has no init: the directory is created through the library with the same options
      if let Err(e) = Index::create(&d, schema(w.schema_json.clone()), lib_opts(&d)) {
        vcore::ev::machinery_failure(&format!("C25 FFI directory: {e:#}"));
      }
    }
    match FfiFe::open(&d, w.default_schema) {
      Ok(f) => ffife = Some(f),
      Err(e) => {
        fail(&mut st, "build:ffi".into(), e, Value::Null);
        return st;
      }
    }
    libffi = Some(LibFe::create(&sc.sub("libffi"), &w.schema_json, true).unwrap_or_else(|e| vcore::ev::machinery_failure(&format!("C25 library mirror (ffi): {e}"))));
  }
  for (i, op) in w.history.iter().enumerate() {
    st.evals += 1;
    if let Err(e) = lib.apply(op) {
      fail(&mut st, "build:library".into(), format!("op {i} {} failed in the library: {e}", op.short()), Value::Null);
      return st;
    }
    if let Err(e) = clife.apply(op) {
      fail(&mut st, "build:cli".into(), format!("op {i} {} succeeds in the library but: {e}", op.short()), Value::Null);
      return st;
    }
    if let Err(e) = httpfe.apply(op) {
      fail(&mut st, "build:http".into(), format!("op {i} {} succeeds in the library but: {e}", op.short()), Value::Null);
      return st;
    }
    if let (Some(f), Some(l)) = (&ffife, &mut libffi) {
      // the FFI leg keeps ONE handle for the whole history and searches through it after every
      // single write call (each searchlite_add_json, each searchlite_commit), and once before the
      // first: state kept on the handle across calls must not show
      if i == 0 {
        ffi_probe(&mut st, f, l, "before the first write".into());
      }
      let steps: Vec<Op> = match op {
        Op::Add(d) => d.iter().map(|x| Op::Add(vec![x.clone()])).collect(),
        Op::Update(d) => d.iter().map(|x| Op::Update(vec![x.clone()])).collect(),
        o => vec![o.clone()],
      };
      for (k, step) in steps.iter().enumerate() {
        if let Err(e) = l.apply(step) {
          fail(&mut st, "build:library".into(), format!("op {i} {} failed in the library (commit per add): {e}", step.short()), Value::Null);
          return st;
        }
        if let Err(e) = f.apply(step) {
          fail(&mut st, "build:ffi".into(), format!("op {i} {} succeeds in the library but: {e}", step.short()), Value::Null);
          return st;
        }
        ffi_probe(&mut st, f, l, format!("after op {i}.{k} {}", step.short()));
      }
    }
  }
  for (check, what, request) in std::mem::take(&mut st.probe_failures) {
    fail(&mut st, check, what, request);
  }
  // an uncommitted tail stays uncommitted (the CLI process has exited; HTTP dropped its writer)
  lib.writer = None;

  tr("history applied");
  // ---- contents
  let model = w.model_contents();
  let ma = json!({"query": {"type": "match_all"}, "limit": 100, "return_stored": true});
  let mut views: Vec<(&str, Out)> = vec![("library", lib.search(&ma)), ("cli", clife.search_request(&ma, false)), ("http", httpfe.search(&ma))];
  if let (Some(f), Some(l)) = (&ffife, &libffi) {
    views.push(("library-commit-per-add", l.search(&ma)));
    views.push(("ffi", f.search(&ma)));
  }
  for (name, o) in &views {
    st.evals += 1;
    *st.by_frontend.entry(name.to_string()).or_insert(0) += 1;
    match contents_of(o) {
      Ok(m) => {
        if m != model {
          fail(&mut st, format!("contents:{name}"), format!("match_all stored contents {} differ from the committed documents {}", json!(m), json!(model)), ma.clone());
        }
      }
      Err(e) => fail(&mut st, format!("contents:{name}"), e, ma.clone()),
    }
  }
  st.outcomes.insert(format!("contents-{}", model.len().min(2)));

  tr("contents compared");
  // ---- requests
  for (ri, r) in reqs.iter().enumerate() {
    if over() {
      st.cut_short = true;
      break;
    }
    let exp = pages(r, &mut |j, _| lib.search(j));
    let class = match &exp[0] {
      Out::Ok(v) => {
        if exp.len() > 1 {
          format!("walk-{}-pages", exp.len().min(3))
        } else if v["hits"].as_array().map(|h| h.is_empty()).unwrap_or(true) {
          if v.get("aggregations").is_some() { "ok-aggs-only".into() } else { "ok-empty".to_string() }
        } else {
          "ok-hits".to_string()
        }
      }
      Out::Err(_) => "error".to_string(),
      Out::Broken(_) => "library-broken".to_string(),
    };
    st.outcomes.insert(class.clone());
    let nontrivial = matches!(&exp[0], Out::Ok(v) if v["hits"].as_array().map(|h| !h.is_empty()).unwrap_or(false) || v.get("aggregations").is_some());
    let judge = |st: &mut WorldStats, fe: &str, got: Vec<Out>, exp: &[Out], ffi: bool, shown: Value| {
      st.evals += 1;
      *st.by_frontend.entry(fe.to_string()).or_insert(0) += 1;
      if nontrivial {
        st.nontrivial += 1;
      }
      if let Err(m) = compare_pages(&r.json, exp, &got, ffi) {
        fail(st, format!("search:{}:{fe}", r.name), format!("request {shown}: {m}"), r.json.clone());
      }
    };
    tr(&format!("{} library", r.name));
    let flags_turn = (ri + w.history.len() + w.corpus.len()) % 2 == 0;
    if env.both_cli_routes || r.flags.is_none() || !flags_turn {
      let got = pages(r, &mut |j, _| clife.search_request(j, ri % 2 == 1));
      judge(&mut st, "cli-request", got, &exp, false, r.json.clone());
    }
    tr(&format!("{} cli-request", r.name));
    if let Some(flags) = r.flags.as_ref().filter(|_| env.both_cli_routes || flags_turn) {
      let got = pages(r, &mut |_, c| clife.search_flags(flags, c));
      judge(&mut st, "cli-flags", got, &exp, false, json!({"flags": flags, "equivalent_request": r.json}));
    }
    tr(&format!("{} cli-flags", r.name));
    let got = pages(r, &mut |j, _| httpfe.search(j));
    judge(&mut st, "http", got, &exp, false, r.json.clone());
    tr(&format!("{} http", r.name));
    if let (Some(f), Some(l)) = (&ffife, &libffi) {
      if ffi_expressible(&r.json) {
        let expf = pages(r, &mut |j, _| l.search(j));
        let got = pages(r, &mut |j, _| f.search(j));
        judge(&mut st, "ffi", got, &expf, true, r.json.clone());
      }
    }
    if st.sample.is_none() && class == "ok-hits" && w.history.len() >= 4 {
      if let Out::Ok(v) = &exp[0] {
        st.sample = Some(json!({"world": w.describe(), "request": r.json, "flags": r.flags, "library": brief(v), "front_ends": if with_ffi { "cli-request cli-flags http ffi" } else { "cli-request cli-flags http" }}));
      }
    }
  }
  drop(ffife);
  drop(httpfe);
  st
}

// ---------------------------------------------------------------------------------------------
// Invocations exactly as README.md / docs/quickstart.md spell them

struct DocCase {
  name: &'static str,
  /// arguments after `search <index>`
  args: Vec<String>,
  /// the request the documentation says this invocation performs
  request: Value,
  where_documented: &'static str,
}

fn doc_cases() -> Vec<DocCase> {
  let f = |v: Vec<&str>| v.into_iter().map(s).collect::<Vec<String>>();
  vec![
    DocCase { name: "q-flag", args: f(vec!["--q", "a", "--limit", "5"]), request: json!({"query": "a", "limit": 5, "return_stored": false}), where_documented: "README.md 'Search responses include a next_cursor': `search \"$INDEX\" --q \"rust\" --limit 5 --cursor ...`; docs/quickstart.md step 5" },
    DocCase { name: "limit-0-aggs", args: f(vec!["-q", "a", "--limit", "0", "--aggs-file", "@AGGS_FILE@"]), request: json!({"query": "a", "limit": 0, "return_stored": false, "aggs": aggs_json()}), where_documented: "README.md: `search ... --limit 0 --aggs-file /tmp/aggs.json`; 'when --limit 0 the search skips hit ranking and only returns aggregations'" },
    DocCase { name: "filter-flag", args: f(vec!["-q", "a", "--filter", "{\"KeywordEq\":{\"field\":\"kw\",\"value\":\"x\"}}", "--return-stored"]), request: json!({"query": "a", "limit": 10, "return_stored": true, "filter": {"KeywordEq": {"field": "kw", "value": "x"}}}), where_documented: "docs/quickstart.md step 5: `search \"$INDEX\" --q \"search\" --filter '{...}' --return-stored`; README.md 'individual CLI flags (like --q, --filter, etc.)'" },
  ]
}

fn doc_world() -> FWorld {
  let docs = corpora(false).into_iter().find(|c| c.0 == "two").unwrap().2;
  FWorld { corpus: "two".into(), shape: "add-commit".into(), default_schema: false, schema_json: schema_kw(), history: vec![Op::Add(docs), Op::Commit] }
}

/// Returns (name, signature, what) for every documented invocation that disagrees with the library.
fn run_doc_family(env: &Env, only: Option<&str>) -> (u64, Vec<(String, Option<&'static str>, String)>) {
  let w = doc_world();
  let sc = Scratch::new("c25doc");
  let tmp = sc.sub("tmp");
  std::fs::create_dir_all(&tmp).expect("tmp dir");
  let mut lib = LibFe::create(&sc.sub("lib"), &w.schema_json, false).unwrap_or_else(|e| vcore::ev::machinery_failure(&format!("C25 doc family: {e}")));
  let mut clife = CliFe { bin: env.bin.clone(), idx: sc.sub("cli"), tmp, n: 0 };
  if let Err(e) = clife.init(&w.schema_json) {
    vcore::ev::machinery_failure(&format!("C25 doc family: {e}"));
  }
  for op in &w.history {
    if let Err(e) = lib.apply(op).and_then(|_| clife.apply(op)) {
      vcore::ev::machinery_failure(&format!("C25 doc family: {e}"));
    }
  }
  let mut out = Vec::new();
  let mut evals = 0;
  for c in doc_cases() {
    if only.map(|o| o != c.name).unwrap_or(false) {
      continue;
    }
    evals += 1;
    let exp = lib.search(&c.request);
    let got = clife.search_flags(&c.args, None);
    if let Err(m) = compare_pages(&c.request, &[exp], &[got.clone()], false) {
      let err = match &got {
        Out::Err(e) => e.clone(),
        _ => String::new(),
      };
      let sig = match c.name {
        "q-flag" if err.contains("unexpected argument '--q'") => Some("C25-cli-documented-q-flag-rejected"),
        "limit-0-aggs" if err.contains("search limit must be greater than zero") => Some("C25-cli-limit-0-rejected"),
        "filter-flag" if err.contains("unexpected argument '--filter'") => Some("C25-cli-documented-filter-flag-missing"),
        _ => None,
      };
      out.push((c.name.to_string(), sig, format!("[doc:{}] {}: documented invocation `searchlite-cli search <index> {}` (equivalent request {}; {}): {m}", c.name, w.describe(), c.args.join(" "), c.request, c.where_documented)));
    }
  }
  (evals, out)
}

// ---------------------------------------------------------------------------------------------
// Body delivery family: the same ingest bytes under every delivery

fn delivery_docs() -> Vec<Value> {
  // 2-, 3- and 4-byte sequences in id, text and keyword values
  vec![
    json!({"_id": "\u{e9}", "body": "caf\u{e9} \u{65e5}\u{672c}", "kw": "\u{44f}", "n": 1}),
    json!({"_id": "\u{1F600}", "body": "\u{65e5}\u{672c} \u{44f} b", "kw": ["\u{1F600}", "\u{65e5}"], "n": 2}),
  ]
}

fn delivery_requests() -> Vec<Value> {
  vec![
    json!({"query": "caf\u{e9}", "limit": 10, "return_stored": true}),
    json!({"query": "\u{65e5}\u{672c} \u{44f}", "limit": 10, "return_stored": true}),
    json!({"query": {"type": "match_all"}, "limit": 10, "return_stored": true, "filter": {"KeywordEq": {"field": "kw", "value": "\u{44f}"}}, "sort": [{"field": "kw", "order": "desc"}]}),
    json!({"query": {"type": "match_all"}, "limit": 10, "return_stored": false, "aggs": {"k": {"type": "terms", "field": "kw", "size": 5}}}),
  ]
}

/// (endpoint, content type, body bytes)
fn delivery_bodies() -> Vec<(&'static str, &'static str, Vec<u8>)> {
  let docs = delivery_docs();
  let nd: String = docs.iter().map(|d| format!("{d}\n")).collect();
  vec![("/add", "application/x-ndjson", nd.into_bytes()), ("/bulk", "application/json", json!({"docs": docs}).to_string().into_bytes())]
}

/// Offsets strictly inside a multi-byte UTF-8 sequence.
fn interior_offsets(body: &[u8]) -> Vec<usize> {
  (1..body.len()).filter(|i| body[*i] & 0xC0 == 0x80).collect()
}

fn deliveries(body: &[u8], thorough: bool) -> Vec<Delivery> {
  let mut v = vec![Delivery::Single];
  // chunk boundary at EVERY byte offset (simplest witnesses first)
  v.extend((1..body.len()).map(Delivery::Chunked2));
  v.extend([Delivery::ChunkedN(1), Delivery::ChunkedN(2), Delivery::ChunkedN(3)]);
  // two socket writes: every offset (thorough) / every offset inside a character plus a few others
  if thorough {
    v.extend((1..body.len()).map(Delivery::SplitWrite));
  } else {
    let mut at: BTreeSet<usize> = interior_offsets(body).into_iter().collect();
    at.extend([1, body.len() / 2, body.len() - 1]);
    v.extend(at.into_iter().map(Delivery::SplitWrite));
  }
  v
}

struct DeliveryRef {
  model: BTreeMap<String, Value>,
  expected: Vec<Out>,
}

fn delivery_reference() -> DeliveryRef {
  let sc = Scratch::new("c25dlib");
  let mut lib = LibFe::create(&sc.sub("lib"), &schema_kw(), false).unwrap_or_else(|e| vcore::ev::machinery_failure(&format!("C25 delivery family: {e}")));
  let docs = delivery_docs();
  if let Err(e) = lib.apply(&Op::Add(docs.clone())).and_then(|_| lib.apply(&Op::Commit)) {
    vcore::ev::machinery_failure(&format!("C25 delivery family: library rejects the documents: {e}"));
  }
  let w = FWorld { corpus: "delivery".into(), shape: "add-commit".into(), default_schema: false, schema_json: schema_kw(), history: vec![Op::Add(docs), Op::Commit] };
  let expected = delivery_requests().iter().map(|r| lib.search(r)).collect();
  DeliveryRef { model: w.model_contents(), expected }
}

/// One (endpoint, delivery): fresh service and index, ingest, commit, compare. Err(what) on a
/// disagreement with the library.
fn check_delivery(env: &Env, rf: &DeliveryRef, endpoint: &str, ctype: &str, body: &[u8], how: &Delivery) -> Result<(), String> {
  let sc = Scratch::new("c25d");
  let dir = sc.sub("http");
  let fe = env.http.serve(&dir);
  fe.init(&dir, &schema_kw()).map_err(|e| format!("init failed: {e}"))?;
  let (st, b) = http_deliver(fe.port, "POST", endpoint, Some(ctype), body, how).unwrap_or_else(|e| vcore::ev::machinery_failure(&format!("HTTP transport failure on POST {endpoint} ({how:?}): {e}")));
  let v: Value = serde_json::from_slice(&b).unwrap_or(Value::Null);
  let n = delivery_docs().len() as u64;
  if !(200..300).contains(&st) {
    return Err(format!("the library accepts the {n} documents but POST {endpoint} answers status {st}: {}", first_line(&String::from_utf8_lossy(&b))));
  }
  if v["queued"].as_u64() != Some(n) {
    return Err(format!("POST {endpoint} of {n} documents answers {v}"));
  }
  fe.apply(&Op::Commit).map_err(|e| format!("commit after ingest failed: {e}"))?;
  let ma = json!({"query": {"type": "match_all"}, "limit": 100, "return_stored": true});
  let got = contents_of(&fe.search(&ma))?;
  if got != rf.model {
    return Err(format!("match_all stored contents {} differ from the documents sent (and from the library's) {}", json!(got), json!(rf.model)));
  }
  for (r, exp) in delivery_requests().iter().zip(&rf.expected) {
    compare_pages(r, std::slice::from_ref(exp), &[fe.search(r)], false).map_err(|m| format!("request {r}: {m}"))?;
  }
  Ok(())
}

#[derive(Default)]
struct DeliveryStats {
  evals: u64,
  by_kind: BTreeMap<String, u64>,
  interior_boundaries: u64,
  body_len: BTreeMap<String, usize>,
  failures: Vec<(String, Value)>,
}

fn run_delivery_family(env: &Env, thorough: bool) -> DeliveryStats {
  let rf = delivery_reference();
  for e in &rf.expected {
    if !matches!(e, Out::Ok(_)) {
      vcore::ev::machinery_failure(&format!("C25 delivery family: library reference is not an answer: {e:?}"));
    }
  }
  let mut st = DeliveryStats::default();
  let mut cases: Vec<(&'static str, &'static str, Vec<u8>, Delivery)> = Vec::new();
  for (ep, ct, body) in delivery_bodies() {
    st.body_len.insert(ep.to_string(), body.len());
    let inner: BTreeSet<usize> = interior_offsets(&body).into_iter().collect();
    for d in deliveries(&body, thorough) {
      *st.by_kind.entry(format!("{ep} {}", d.kind())).or_insert(0) += 1;
      if matches!(&d, Delivery::Chunked2(at) | Delivery::SplitWrite(at) if inner.contains(at)) || matches!(d, Delivery::ChunkedN(_)) {
        st.interior_boundaries += 1;
      }
      cases.push((ep, ct, body.clone(), d));
    }
  }
  st.evals = cases.len() as u64;
  let res: Vec<Option<String>> = cases.par_iter().map(|(ep, ct, body, d)| check_delivery(env, &rf, ep, ct, body, d).err()).collect();
  for ((ep, _, body, d), r) in cases.iter().zip(res) {
    if let Some(m) = r {
      let ctx = match d {
        Delivery::Chunked2(at) | Delivery::SplitWrite(at) => format!(" (boundary after byte {at}: ...{:?} | {:?}...)", String::from_utf8_lossy(&body[at.saturating_sub(6)..*at]), String::from_utf8_lossy(&body[*at..(*at + 6).min(body.len())])),
        _ => String::new(),
      };
      st.failures.push((format!("[delivery:{ep}:{}] documents {} sent to POST {ep} as {}{ctx}: {m}", d.kind(), json!(delivery_docs()), d.to_json()), json!({"engine": "frontmc", "delivery": {"endpoint": ep, "how": d.to_json()}})));
    }
  }
  st
}

// ---------------------------------------------------------------------------------------------

fn replay_verdict(path: &str, a: Option<String>, b: Option<String>) -> i32 {
  if a.is_some() != b.is_some() {
    vcore::ev::machinery_failure("NONDETERMINISM on replay");
  }
  match a {
    Some(w) => {
      println!("VIOLATION property=C25 replay={path}\n  what: {w}");
      1
    }
    None => {
      println!("replay: no violation");
      0
    }
  }
}

pub fn run(ctx: &Ctx) -> i32 {
  let quick = ctx.tier.is_quick();
  // anyhow captures a backtrace per error when RUST_BACKTRACE is set; errors are data here
  std::env::set_var("RUST_BACKTRACE", "0");
  let (bin, build_s) = build_cli();
  let mut rep = Reporter::new("C25", ctx.tier, "exploration");
  // exec from tmpfs: mapping the 100+ MB debug binary from the overlay file system doubles the
  // cost of every spawn
  let fast = vcore::world::scratch_root().join("searchlite-cli.copy");
  let _ = std::fs::create_dir_all(vcore::world::scratch_root());
  let bin = match std::fs::copy(&bin, &fast) {
    Ok(_) => fast,
    Err(_) => bin,
  };
  let env = Env { bin, http: Http::new(), both_cli_routes: !quick || ctx.replay.is_some() };
  if let Some(path) = &ctx.replay {
    rep.set_replaying(true);
    let v: Value = serde_json::from_slice(&std::fs::read(path).expect("replay file")).expect("json");
    let cs = &v["case"];
    if let Some(name) = cs["doc_family"].as_str() {
      let run = || run_doc_family(&env, Some(name)).1.first().map(|f| f.2.clone());
      let (a, b) = (run(), run());
      return replay_verdict(path, a, b);
    }
    if cs["delivery"].is_object() {
      let ep = cs["delivery"]["endpoint"].as_str().unwrap_or("/add").to_string();
      let how = Delivery::from_json(&cs["delivery"]["how"]);
      let rf = delivery_reference();
      let run = || {
        let (e, ct, body) = delivery_bodies().into_iter().find(|b| b.0 == ep).unwrap_or_else(|| vcore::ev::machinery_failure("unknown endpoint in replay file"));
        check_delivery(&env, &rf, e, ct, &body, &how).err()
      };
      let (a, b) = (run(), run());
      return replay_verdict(path, a, b);
    }
    let w = FWorld::from_json(&cs["world"]);
    let check = cs["check"].as_str().unwrap_or("").to_string();
    let reqs: Vec<Req> = requests(true).into_iter().filter(|r| check.split(':').nth(1).map(|n| n == r.name).unwrap_or(false)).collect();
    let run = || run_world(&env, &w, &reqs, &|| false).failures.into_iter().find(|f| f.check == check).map(|f| f.what);
    let (a, b) = (run(), run());
    return replay_verdict(path, a, b);
  }

  // the body-delivery family runs first
  let dl = run_delivery_family(&env, !quick);
  rep.add_evals(dl.evals);
  for (what, case) in &dl.failures {
    rep.fail(None, what, case.clone());
  }
  let delivery_wall = rep.elapsed_s();
  let ws = worlds(!quick);
  let reqs = requests(!quick);
  let deadline = std::env::var("VERIF_C25_BUDGET_S").ok().and_then(|x| x.parse::<f64>().ok()).unwrap_or(if quick { 30.0 } else { 540.0 });
  let timed_out = AtomicBool::new(false);
  let done = AtomicU64::new(0);
  let nontrivial = AtomicU64::new(0);
  let outcomes: Mutex<BTreeSet<String>> = Mutex::new(BTreeSet::new());
  let by_fe: Mutex<BTreeMap<String, u64>> = Mutex::new(BTreeMap::new());
  let ffi_worlds = AtomicU64::new(0);
  let ffi_probes = AtomicU64::new(0);
  ws.par_iter().for_each(|w| {
    if rep.elapsed_s() > deadline {
      timed_out.store(true, Ordering::Relaxed);
      return;
    }
    let st = run_world(&env, w, &reqs, &|| rep.elapsed_s() > deadline);
    if st.cut_short {
      timed_out.store(true, Ordering::Relaxed);
    } else {
      done.fetch_add(1, Ordering::Relaxed);
    }
    if w.ffi_expressible() {
      ffi_worlds.fetch_add(1, Ordering::Relaxed);
    }
    rep.add_evals(st.evals);
    ffi_probes.fetch_add(st.ffi_probes, Ordering::Relaxed);
    nontrivial.fetch_add(st.nontrivial, Ordering::Relaxed);
    outcomes.lock().extend(st.outcomes);
    {
      let mut m = by_fe.lock();
      for (k, v) in st.by_frontend {
        *m.entry(k).or_insert(0) += v;
      }
    }
    if let Some(s) = st.sample {
      rep.sample(s);
    }
    for f in st.failures {
      rep.fail(f.sig, &f.what, json!({"engine": "frontmc", "world": w.to_json(), "check": f.check, "request": f.request}));
    }
  });
  // documented spellings, once
  let (doc_evals, doc_fail) = run_doc_family(&env, None);
  rep.add_evals(doc_evals);
  for (name, sig, what) in doc_fail {
    rep.fail(sig, &what, json!({"engine": "frontmc", "doc_family": name}));
  }
  let to = timed_out.load(Ordering::Relaxed);
  let n_out = outcomes.lock().len();
  if n_out < 2 {
    vcore::ev::machinery_failure("C25 vacuous: fewer than 2 distinct outcomes");
  }
  let cov = vcore::cov! {
    "distinct_nontrivial" => nontrivial.load(Ordering::Relaxed),
    "rule" => "world = corpus (<= 3 documents) x history shape over add/update/delete/commit/compact, built through the CLI binary (one process per command), the in-process HTTP service (/init /add /bulk /delete /commit /compact over raw HTTP/1.1), the C FFI (histories of add+commit only) and the library (filesystem index, positions on, k1 0.9, b 0.4; for the FFI a second mirror that commits after every add). case = (world, request, front end route) with routes cli --request / --request-stdin, cli documented flags (when the request is flag-expressible; quick tier: such a request takes one of the two CLI routes, alternating with (world, request) parity, thorough tier: both), http /search, ffi searchlite_search (when expressible: query, limit, cursor, aggs). Non-trivial = the library's answer has at least one hit or aggregations. Oracle: match_all stored contents of every front end == reference model of committed documents == library; every response deep-equals the library's (numbers rel. tol. 1e-5, score tie classes, cursor strings opaque = presence only, profile.timings dropped, cursor walks compared page by page and concatenated); error <=> error; HTTP errors carry the documented error body.",
    "worlds" => ws.len(),
    "worlds_done" => done.load(Ordering::Relaxed),
    "worlds_with_ffi" => ffi_worlds.load(Ordering::Relaxed),
    "mid_history_ffi_probes" => json!({"rule": "FFI worlds keep ONE handle for the whole history; before the first write and after EVERY write call (each searchlite_add_json, each searchlite_commit) a match_all search and a match_all + aggregations search go through that handle and must equal the library mirror (commit per add) in the same state", "searches": ffi_probes.load(Ordering::Relaxed)}),
    "requests" => reqs.len(),
    "request_names" => reqs.iter().map(|r| r.name.clone()).collect::<Vec<_>>(),
    "comparisons_by_front_end" => by_fe.lock().clone(),
    "documented_invocations" => doc_evals,
    "delivery_family" => json!({"rule": "for POST /add (NDJSON) and POST /bulk: the body of 2 documents with 2-, 3- and 4-byte UTF-8 sequences in id, text and keyword values, delivered as Content-Length in one write; Transfer-Encoding: chunked with two chunks split at EVERY byte offset; chunked with uniform chunk sizes 1, 2, 3; Content-Length in two socket writes (TCP_NODELAY, 4 ms pause) split at every offset inside a multi-byte character plus 3 others (quick) / at every offset (thorough). Each delivery: fresh service + index, ingest, commit, then status class, match_all stored contents and 4 search responses (text, filter+sort, aggregation) must equal the library's for the same documents.", "cases": dl.evals, "by_endpoint_and_kind": dl.by_kind, "body_bytes": dl.body_len, "boundaries_inside_a_character": dl.interior_boundaries, "failures": dl.failures.len(), "wall_s": delivery_wall}),
    "observed_outcomes" => outcomes.lock().clone(),
    "distinct_observed_outcomes" => n_out,
    "cli_build_s" => build_s,
    "cap_hit" => if to { Some(format!("wall budget {deadline}s")) } else { None },
    "exhaustive" => !to,
  };
  rep.finish(cov, vec![
    "limit 0 is left out of the request alphabet: README documents `--limit 0` for the CLI but search-request.schema.json demands limit >= 1 and the library itself rejects it; the documented-invocations family only checks that the CLI and the library agree on it (both refuse)".into(),
    "only documented CLI flags are used (-q/--query, --limit, --execution, --bmw-block-size, --sort, --cursor, --aggs, --aggs-file, --return-stored, --request, --request-stdin); --fields, --highlight, --return-hits are undocumented and left out".into(),
    "the FFI has no init/delete/compact: it takes part in histories of add/update/commit whose every add is committed; for a non-default schema its directory is created through the library with the FFI's options; searchlite_add_json commits by itself, so the FFI is compared with a library mirror that commits after every add".into(),
    "the FFI does not document whether stored fields are returned: when it returns none they are not compared".into(),
    "cursor strings are opaque: only their presence is compared; each front end walks with its own cursors".into(),
    "error messages are not compared, only error vs. answer".into(),
    "request bodies containing invalid UTF-8 are left out: the documentation is silent and the front ends already differ by design (the CLI's file read rejects them, the FFI converts lossily)".into(),
    "document ids have no surrounding whitespace or control characters (the CLI ids file is line based)".into(),
  ])
}
