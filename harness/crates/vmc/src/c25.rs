//! C25 — not implemented yet.
use crate::Ctx;

pub fn run(_ctx: &Ctx) -> i32 {
  eprintln!("C25: check not implemented");
  2
}
