//! C03 — storage errors leave committed state unchanged or fully applied.
//! Engine: faultmc — for every reachable state (BFS over histories) x every operation x every
//! storage fault site (trait call or file operation) x {fail-before, fail-after}; thorough: every
//! ordered pair whose second fault lands inside the first one's error path.

use std::collections::{BTreeMap, HashSet};
use std::sync::Arc;

use rayon::prelude::*;
use serde_json::{json, Value};

use searchlite_core::storage::{FsStorage, InMemoryStorage, Storage};
use vcore::ev::Reporter;
use vcore::faulty::{Ctl, FaultyStorage, Mode};
use vcore::hist::*;
use vcore::world::*;

use crate::Ctx;

fn cfg1(depth: usize) -> Config {
  Config { mem: true, positions: true, handles: 1, compactable: true, max_depth: depth, max_segments: 3, max_queue: 2 }
}

fn alphabet1() -> Vec<Op> {
  let mut a = vec![Op::New(0)];
  for (id, v) in [("A", "1"), ("A", "2"), ("B", "1")] {
    a.push(Op::Add(0, id.into(), v.into()));
  }
  a.push(Op::Del(0, "A".into()));
  a.push(Op::Commit(0));
  a.push(Op::Rollback(0));
  a.push(Op::DropH(0));
  a.push(Op::Compact);
  a.push(Op::Reopen);
  a
}

struct Case {
  sites: usize,
  fired: Vec<(usize, String)>,
  /// None = fault plan did not fire (index beyond the op's sites)
  verdict: Option<Result<(), (Option<&'static str>, String)>>,
  outcome: String,
}

fn make_exec(cfg: &Config, mem: bool) -> (Exec, Arc<Ctl>) {
  let ctl = Ctl::new();
  let (root, inner, scratch): (std::path::PathBuf, Arc<dyn Storage>, Option<Scratch>) = if mem {
    let root = std::path::PathBuf::from(format!("/slverif-faulty/{}", std::process::id()));
    (root.clone(), Arc::new(InMemoryStorage::new(root)), None)
  } else {
    let s = Scratch::new("c03");
    let root = s.sub("idx");
    (root.clone(), Arc::new(FsStorage::new(root)), Some(s))
  };
  let st: Arc<dyn Storage> = Arc::new(FaultyStorage { inner, ctl: ctl.clone() });
  let ex = Exec::new_with_storage(cfg, &root, st, scratch).expect("create index on healthy storage");
  (ex, ctl)
}

fn js<T: serde::Serialize>(v: &T) -> String {
  serde_json::to_string(v).unwrap()
}

/// Run `hist` with the last op under fault `plan`, then judge. `strict` = single-fault oracle.
fn run_case(cfg: &Config, mem: bool, hist: &[Op], plan: &[(usize, Mode)], strict: bool) -> Case {
  let (mut ex, ctl) = make_exec(cfg, mem);
  let n = hist.len();
  for op in &hist[..n - 1] {
    if let Err(f) = ex.step(op, false) {
      vcore::ev::machinery_failure(&format!("C03 prefix failed on healthy storage: {}", f.1));
    }
  }
  let op = &hist[n - 1];
  let pre = ex.expected();
  let versions = |id: &str, v: &str| version_doc(id, v);
  ctl.keep_trace.store(plan.is_empty(), std::sync::atomic::Ordering::Relaxed);
  ctl.arm(plan.to_vec());
  let res = {
    let env = &ex.env;
    let reopen = || env.reopen();
    let live = &mut ex.live;
    vcore::catch(|| live.step(op, &versions, &reopen))
  };
  let sites = ctl.disarm();
  let fired = ctl.fired.lock().clone();
  if fired.len() < plan.len() {
    return Case { sites, fired, verdict: None, outcome: String::new() };
  }
  let mut post_model = ex.model.clone();
  post_model.step(op);
  let post = expected_contents(&ex.env.schema, &post_model.committed, &versions);
  let fail = |sig: Option<&'static str>, s: String| Case { sites, fired: fired.clone(), verdict: Some(Err((sig, s))), outcome: "violation".into() };
  let res = match res {
    Err(p) => return fail(None, format!("{} panicked under fault: {p}", op.short())),
    Ok(r) => r,
  };
  // views: a new reader on the same Index, and a reopen from the (now healthy) storage
  let same = match vcore::catch(|| contents(&ex.live.idx)) {
    Ok(Ok(c)) => c,
    Ok(Err(e)) => return fail(None, format!("after {} -> {}: new reader on the same Index fails: {e:#}", op.short(), if res.is_ok() { "Ok" } else { "Err" })),
    Err(p) => return fail(None, format!("reader panicked: {p}")),
  };
  let reopened = match vcore::catch(|| ex.env.reopen().and_then(|i| contents(&i))) {
    Ok(Ok(c)) => c,
    Ok(Err(e)) => {
      return fail(
        Some("C03-unopenable"),
        format!("after {} -> {}: the index cannot be reopened / read from storage: {e:#}", op.short(), if res.is_ok() { "Ok" } else { "Err" }),
      )
    }
    Err(p) => return fail(None, format!("reopen panicked: {p}")),
  };
  if strict && !plan.is_empty() {
    if let Err(w) = check_durable_queue(&ex.env, op, res.is_ok(), &ex.model.log, &post_model.log) {
      return fail(None, w);
    }
  }
  let mut outcome;
  match &res {
    Ok(()) => {
      outcome = "ok-applied".to_string();
      if same != post {
        return fail(None, format!("{} returned Ok under fault but a new reader sees {} instead of {}", op.short(), js(&same), js(&post)));
      }
      if reopened != post {
        return fail(None, format!("{} returned Ok under fault but after reopening contents are {} instead of {}", op.short(), js(&reopened), js(&post)));
      }
    }
    Err(e) => {
      outcome = "err-unchanged".to_string();
      if strict {
        if same != pre {
          let sig = if same == post && matches!(op, Op::Commit(_)) { Some("C03-commit-err-after-publish") } else { None };
          return fail(sig, format!("{} returned Err ({e:#}) but a new reader sees {} instead of the unchanged {}", op.short(), js(&same), js(&pre)));
        }
        if reopened != pre {
          return fail(None, format!("{} returned Err ({e:#}) but after reopening contents are {} instead of the unchanged {}", op.short(), js(&reopened), js(&pre)));
        }
        // retry on healthy storage must succeed and give the post-state
        let retry = {
          let env = &ex.env;
          let reopen = || env.reopen();
          let live = &mut ex.live;
          vcore::catch(|| -> anyhow::Result<()> {
            live.step(op, &versions, &reopen)?;
            if let Op::Add(h, _, _) | Op::Del(h, _) = op {
              live.step(&Op::Commit(*h), &versions, &reopen)?;
            }
            Ok(())
          })
        };
        match retry {
          Err(p) => return fail(None, format!("retry of {} panicked: {p}", op.short())),
          Ok(Err(e2)) => return fail(None, format!("{} failed ({e:#}); the retry on healthy storage also failed: {e2:#}", op.short())),
          Ok(Ok(())) => {}
        }
        let mut m2 = post_model.clone();
        if let Op::Add(h, _, _) | Op::Del(h, _) = op {
          m2.step(&Op::Commit(*h));
        }
        let want = expected_contents(&ex.env.schema, &m2.committed, &versions);
        match vcore::catch(|| contents(&ex.live.idx)) {
          Ok(Ok(c)) if c == want => {}
          Ok(Ok(c)) => return fail(None, format!("{} failed ({e:#}); after a successful retry contents are {} instead of {}", op.short(), js(&c), js(&want))),
          Ok(Err(e3)) => return fail(None, format!("reader after retry failed: {e3:#}")),
          Err(p) => return fail(None, format!("reader after retry panicked: {p}")),
        }
        outcome = "err-unchanged-retry-ok".to_string();
      } else if same != pre || reopened != pre {
        outcome = "err-changed(double fault; not judged)".to_string();
      }
    }
  }
  Case { sites, fired, verdict: Some(Ok(())), outcome }
}


/// The durable queue: operations in the log after the last commit marker, as (kind, id).
fn durable_queue(env: &Env) -> anyhow::Result<Vec<(String, String)>> {
  let recs = wal_records(env)?;
  let start = recs.iter().rposition(|r| r == "commit").map(|i| i + 1).unwrap_or(0);
  Ok(
    recs[start..]
      .iter()
      .map(|r| {
        let mut it = r.splitn(3, ':');
        (it.next().unwrap_or("").to_string(), it.next().unwrap_or("").to_string())
      })
      .collect(),
  )
}

fn model_queue(log: &[QOp]) -> Vec<(String, String)> {
  log
    .iter()
    .map(|q| match q {
      QOp::Add(id, _) => ("add".to_string(), id.clone()),
      QOp::Del(id) => ("del".to_string(), id.clone()),
    })
    .collect()
}

/// "... with the queued operations still retryable": the queue lives in the log, which is what a
/// later handle (or process) replays. After Err the log must still hold the operations queued
/// before the call (a failed add / delete may or may not have reached it; a failed rollback may
/// or may not have emptied it); after Ok it must hold the model's queue.
fn check_durable_queue(env: &Env, op: &Op, ok: bool, pre_log: &[QOp], post_log: &[QOp]) -> Result<(), String> {
  let got = match durable_queue(env) {
    Ok(g) => g,
    Err(e) => return Err(format!("the log cannot be replayed after {} -> {}: {e:#}", op.short(), if ok { "Ok" } else { "Err" })),
  };
  let pre = model_queue(pre_log);
  let post = model_queue(post_log);
  let mut allowed: Vec<Vec<(String, String)>> = Vec::new();
  if ok {
    allowed.push(post);
  } else {
    allowed.push(pre.clone());
    match op {
      Op::Add(..) | Op::Del(..) => allowed.push(post),
      Op::Rollback(_) => allowed.push(Vec::new()),
      _ => {}
    }
  }
  if allowed.contains(&got) {
    Ok(())
  } else {
    Err(format!(
      "{} returned {} but the log now holds the queued operations {:?}; expected {:?} (a new handle replays the log, so the queued operations are no longer retryable)",
      op.short(),
      if ok { "Ok" } else { "Err" },
      got,
      allowed
    ))
  }
}

struct TaskOut {
  cases: u64,
  fired_cases: u64,
  pair_cases: u64,
  sites: usize,
  outcomes: HashSet<String>,
  failures: Vec<(Option<&'static str>, String, Value)>,
  sample: Option<Value>,
  site_names: Vec<String>,
}

fn run_task(cfg: &Config, mem: bool, hist: &[Op], pairs: bool) -> TaskOut {
  let mut out = TaskOut { cases: 0, fired_cases: 0, pair_cases: 0, sites: 0, outcomes: HashSet::new(), failures: vec![], sample: None, site_names: vec![] };
  // fault-free armed run: number of sites of the op
  let base = run_case(cfg, mem, hist, &[], true);
  out.sites = base.sites;
  let mk_case = |plan: &[(usize, Mode)]| json!({"engine": "faultmc", "mem": mem, "history": hist, "plan": plan});
  for n1 in 0..base.sites {
    for m1 in [Mode::Before, Mode::After] {
      let plan = vec![(n1, m1)];
      let c = run_case(cfg, mem, hist, &plan, true);
      out.cases += 1;
      let Some(v) = c.verdict else { continue };
      out.fired_cases += 1;
      out.outcomes.insert(c.outcome.clone());
      if out.sample.is_none() && n1 > 2 {
        out.sample = Some(json!({"history": hist_str(hist), "storage": if mem {"InMemory"} else {"Fs"}, "fault": format!("{:?} {:?}", c.fired, m1), "outcome": c.outcome}));
      }
      if let Err((sig, what)) = v {
        let site = c.fired.first().map(|f| f.1.clone()).unwrap_or_default();
        out.failures.push((sig, format!("[{}] {} with fault #{n1} {site} ({m1:?}): {what}", if mem { "mem" } else { "fs" }, hist_str(hist)), mk_case(&plan)));
        continue;
      }
      if pairs {
        for n2 in n1 + 1..c.sites {
          for m2 in [Mode::Before, Mode::After] {
            let plan2 = vec![(n1, m1), (n2, m2)];
            let c2 = run_case(cfg, mem, hist, &plan2, false);
            out.cases += 1;
            let Some(v2) = c2.verdict else { continue };
            out.pair_cases += 1;
            out.outcomes.insert(format!("pair:{}", c2.outcome));
            if let Err((sig, what)) = v2 {
              let sites: Vec<String> = c2.fired.iter().map(|f| format!("#{} {}", f.0, f.1)).collect();
              out.failures.push((sig, format!("[{}] {} with faults {sites:?} ({m1:?},{m2:?}): {what}", if mem { "mem" } else { "fs" }, hist_str(hist)), mk_case(&plan2)));
            }
          }
        }
      }
    }
  }
  out
}

pub fn run(ctx: &Ctx) -> i32 {
  let mut rep = Reporter::new("C03", ctx.tier, "fault_enumeration");
  let quick = ctx.tier.is_quick();
  if let Some(path) = &ctx.replay {
    rep.set_replaying(true);
    let v: Value = serde_json::from_slice(&std::fs::read(path).expect("replay file")).expect("json");
    let hist: Vec<Op> = serde_json::from_value(v["case"]["history"].clone()).expect("history");
    let plan: Vec<(usize, Mode)> = serde_json::from_value(v["case"]["plan"].clone()).expect("plan");
    let mem = v["case"]["mem"].as_bool().unwrap_or(true);
    let cfg = cfg1(hist.len());
    let a = run_case(&cfg, mem, &hist, &plan, plan.len() == 1);
    let b = run_case(&cfg, mem, &hist, &plan, plan.len() == 1);
    let va = a.verdict.map(|v| v.err().map(|e| e.1));
    let vb = b.verdict.map(|v| v.err().map(|e| e.1));
    if va.is_some() != vb.is_some() || va.as_ref().map(|x| x.is_some()) != vb.as_ref().map(|x| x.is_some()) {
      vcore::ev::machinery_failure("NONDETERMINISM on replay");
    }
    println!("replay {} plan {:?} fired {:?}", hist_str(&hist), plan, a.fired);
    return match va {
      Some(Some(w)) => {
        println!("VIOLATION property=C03 replay={path}\n  what: {w}");
        1
      }
      _ => {
        println!("replay: no violation");
        0
      }
    };
  }
  let max_depth = if quick { 3 } else { 5 };
  let budget = if quick { 40.0 } else { 2400.0 };
  let cfg = cfg1(max_depth);
  let alpha = alphabet1();
  let a = |id: &str, v: &str| Op::Add(0, id.into(), v.into());
  let roots: Vec<Vec<Op>> = vec![
    vec![],
    vec![Op::New(0), a("A", "1"), Op::Commit(0)],
    vec![Op::New(0), a("A", "1"), a("B", "1"), Op::Commit(0), a("A", "2"), Op::Commit(0)],
    // a fresh handle over a non-empty log (queued by an earlier handle): its own append cursor has not moved yet
    vec![Op::New(0), a("A", "1"), Op::Commit(0), a("B", "1"), Op::Del(0, "A".into()), Op::DropH(0), Op::New(0)],
  ];
  let mut seen: HashSet<String> = HashSet::new();
  let mut frontier: Vec<(Vec<Op>, Model, usize)> = Vec::new();
  for r in roots {
    let o = execute(&cfg, &r);
    // roots are never merged: the last one equals another in the model (same contents, queue and
    // handle state) but differs in the implementation (a replayed vs a self-written log)
    seen.insert(o.key.clone());
    frontier.push((r, o.model, o.nseg));
  }
  let mut states = frontier.len() as u64;
  let (mut transitions, mut cases, mut fired, mut pair_cases) = (0u64, 0u64, 0u64, 0u64);
  let mut outcomes: HashSet<String> = HashSet::new();
  let mut site_kinds: BTreeMap<String, u64> = BTreeMap::new();
  let mut depth_done = 0;
  let mut cap: Option<String> = None;
  'outer: for depth in 1..=max_depth {
    let tasks: Vec<(Vec<Op>, bool)> = frontier
      .iter()
      .flat_map(|(h, m, nseg)| {
        alpha
          .iter()
          .filter(|op| op_allowed(&cfg, m, *nseg, op) && !matches!(op, Op::DropH(_)))
          .flat_map(|op| {
            let mut hh = h.clone();
            hh.push(op.clone());
            let storages: Vec<bool> = vec![true, false];
            storages.into_iter().map(move |mem| (hh.clone(), mem)).collect::<Vec<_>>()
          })
          .collect::<Vec<_>>()
      })
      .collect();
    let timed_out = std::sync::atomic::AtomicBool::new(false);
    let outs: Vec<Option<(Vec<Op>, bool, TaskOut)>> = tasks
      .into_par_iter()
      .map(|(h, mem)| {
        if rep.elapsed_s() > budget {
          timed_out.store(true, std::sync::atomic::Ordering::Relaxed);
          return None;
        }
        // pairs: thorough always; quick only for commit / compact / rollback (error paths that undo)
        let pairs = !quick || matches!(h.last(), Some(Op::Commit(_)) | Some(Op::Compact) | Some(Op::Rollback(_)));
        let o = run_task(&cfg, mem, &h, pairs);
        Some((h, mem, o))
      })
      .collect();
    // next frontier from healthy executions (also DropH transitions)
    let mut next = Vec::new();
    for (h, m, nseg) in &frontier {
      for op in alpha.iter().filter(|op| op_allowed(&cfg, m, *nseg, op)) {
        let mut hh = h.clone();
        hh.push(op.clone());
        let o = execute(&cfg, &hh);
        if o.failure.is_none() && seen.insert(o.key) {
          states += 1;
          next.push((hh, o.model, o.nseg));
        }
      }
    }
    for o in outs {
      let Some((h, mem, t)) = o else { continue };
      transitions += 1;
      rep.add_evals(t.cases);
      cases += t.cases;
      fired += t.fired_cases;
      pair_cases += t.pair_cases;
      outcomes.extend(t.outcomes);
      let _ = mem;
      *site_kinds.entry(h.last().unwrap().short()).or_default() += t.sites as u64;
      if let Some(s) = t.sample {
        rep.sample(s);
      }
      for (sig, what, case) in t.failures {
        rep.fail(sig, &what, case);
      }
    }
    if timed_out.load(std::sync::atomic::Ordering::Relaxed) {
      cap = Some(format!("wall budget {budget}s hit inside depth {depth}"));
      break 'outer;
    }
    depth_done = depth;
    frontier = next;
    println!("C03 depth {depth}: states={states} transitions={transitions} fault_cases={cases} fired={fired} pairs={pair_cases}");
    if rep.violations() > 0 {
      break;
    }
  }
  if fired < 2 {
    vcore::ev::machinery_failure("C03 vacuous: no fault fired");
  }
  let cov = vcore::cov! {
    "distinct_nontrivial" => fired + pair_cases,
    "rule" => "for every state of a BFS over single-handle histories (roots: empty, one segment, two segments + tombstone, one segment + a fresh handle over a log with a queued add and delete) and every enabled operation: the operation is executed once per storage fault site (every Storage trait call and every read/write/flush/seek/set_len/sync_all on the files it returns), failing before or after the site's effect; pairs: a second fault at every site the first fault's error path reaches. A case is non-trivial (counted) when its fault actually fired. Single faults: Err => same-Index reader and reopened index show the pre-state and a retry on healthy storage succeeds with the post-state; Ok => both views show the post-state; in both cases the operations the log holds after the call (what a later handle replays) must be the queue of the model. Pairs: no panic, index reopenable with all referenced files, Ok => post-state.",
    "states" => states,
    "transitions" => transitions,
    "single_fault_cases_fired" => fired,
    "pair_fault_cases_fired" => pair_cases,
    "depth_completed" => depth_done,
    "storages" => vec!["InMemoryStorage", "FsStorage"],
    "distinct_observed_outcomes" => outcomes.iter().cloned().collect::<Vec<_>>(),
    "fault_sites_by_last_op" => site_kinds,
    "cap_hit" => cap,
    "exhaustive" => cap.is_none(),
  };
  rep.finish(
    cov,
    vec![
      "fault model: a failing storage call returns an error either without or after performing its effect; no partial effects inside one call".into(),
      "a failed add_document whose record reached the log may be replayed by a later handle (not constrained; retry + commit must give the model's post-state)".into(),
      "double faults are judged only on: no panic, index stays openable with all referenced files, Ok => fully applied".into(),
    ],
  )
}
