//! C16 — search never panics, aborts or hangs on any request that deserializes.
//! Engine: inputmc requests (isolated, DESIGN §2.7). The parent enumerates requests:
//!   (1) base requests covering every top-level feature x, for every value location, every value
//!       of a per-type nasty alphabet (strings: cursors / patterns / scripts / field names / query
//!       strings / percentages / intervals / enum names; numbers; bool flips; nulls; empty and
//!       duplicated arrays; dropped and renamed keys), plus hand-written extras and, per index, a
//!       cursor alphabet derived from real score- and sort-cursors;
//!   (2) all single-edit neighbours (delete / duplicate / substitute by each byte of a small
//!       alphabet incl. a multi-byte char) of the serialized base requests that still deserialize.
//! Every request runs against each index inside worker subprocesses (this binary re-invoked as
//! `vmc C16 <tier> --replay <batch file>`), one request at a time per worker, under
//! catch_unwind; the parent attributes a timeout (2 s quick / 10 s thorough), a runaway resident
//! set or a dead worker to the exact request and restarts the worker on the rest of the batch.
//! Oracle: every search returns Ok or Err — no panic, no abort, no hang.

use std::collections::{BTreeMap, BTreeSet, HashSet};
use std::io::{BufRead, BufReader, Write};
use std::process::{Command, Stdio};
use std::sync::atomic::{AtomicBool, AtomicUsize, Ordering};
use std::sync::mpsc;
use std::time::{Duration, Instant};

use parking_lot::Mutex;
use serde_json::{json, Value};

use searchlite_core::api::types::SearchRequest;

use vcore::ev::Reporter;
use vcore::inp::World;
use vcore::world::Scratch;

use crate::Ctx;

// ---------------------------------------------------------------------------------------------
// Indexes

fn schema_c16() -> Value {
  // `ws` (whitespace tokenizer: keeps every non-space character in its tokens) and `uni` (unicode
  // tokenizer) make every character of the UTF-8 boundary alphabet reachable as an indexed token
  json!({"doc_id_field": "_id",
    "analyzers": [{"name": "wsa", "tokenizer": "whitespace", "filters": []}, {"name": "unia", "tokenizer": "unicode", "filters": []}],
    "text_fields": [{"name": "body", "analyzer": "default", "stored": true, "indexed": true},
                    {"name": "title", "analyzer": "default", "stored": true, "indexed": true},
                    {"name": "ws", "analyzer": "wsa", "stored": true, "indexed": true},
                    {"name": "uni", "analyzer": "unia", "stored": true, "indexed": true}],
    "keyword_fields": [{"name": "kw", "stored": true, "indexed": true, "fast": true},
                       {"name": "g", "stored": true, "indexed": true, "fast": true}],
    "numeric_fields": [{"name": "n", "i64": true, "fast": true, "stored": true},
                       {"name": "f", "i64": false, "fast": true, "stored": true},
                       {"name": "ts", "i64": true, "fast": true, "stored": true}],
    "nested_fields": [
      {"name": "c", "nullable": true, "fields": [
        {"type": "keyword", "name": "a", "stored": true, "indexed": true, "fast": true},
        {"type": "numeric", "name": "v", "i64": true, "fast": true, "stored": true, "nullable": true},
        {"type": "object", "name": "r", "nullable": true, "fields": [
          {"type": "keyword", "name": "t", "stored": true, "indexed": true, "fast": true}]}]}]})
}

fn docs() -> Vec<Value> {
  vec![
    json!({"_id": "A", "body": "a b c", "title": "rust search", "kw": "x", "g": "g1", "n": 1, "f": 0.5, "ts": 1700000000000i64, "c": [{"a": "p", "v": 1, "r": [{"t": "u"}]}, {"a": "q"}]}),
    json!({"_id": "B", "body": "a a b", "title": "rust", "kw": "y", "g": "g1", "n": 2, "f": 1.5, "ts": 1700086400000i64}),
    json!({"_id": "C", "body": "日本日本日本 rust 日本 é a", "title": "b", "kw": ["x", "y"], "g": "g2", "n": [3, 4], "f": [2.5, 0.25], "c": {"a": "q", "v": 7}}),
    json!({"_id": "D", "body": "c", "kw": "x"}),
    // every UTF-8 boundary character as (part of) indexed tokens, so that term expansions over
    // such prefixes have neighbours to scan
    {
      let text: String = boundary_chars().iter().map(|c| format!("{c} {c}a a{c} {c}{c} ab{c}z")).collect::<Vec<_>>().join(" ");
      let kws: Vec<String> = boundary_chars().iter().flat_map(|c| [format!("{c}"), format!("a{c}"), format!("{c}a")]).collect();
      json!({"_id": "E", "body": text, "title": text, "ws": text, "uni": text, "kw": kws, "g": "g2"})
    },
  ]
}

/// UTF-8 byte-boundary classes: for each encoded length 1..4 a character whose LAST byte is the
/// minimum, a middle and the maximum value (0x80 / .. / 0xBF for continuation bytes; 0x01 / 'm' /
/// 0x7F for one-byte characters), alphabetic representatives of the min / max classes (so that the
/// default tokenizer keeps them), and the first and last code point of every length class.
fn boundary_chars() -> Vec<char> {
  vec![
    '\u{1}', 'm', '\u{7f}', // 1 byte: min, mid, max = last of class
    '\u{80}', '\u{bf}', '\u{e9}', '\u{ff}', '\u{3bf}', '\u{43f}', '\u{440}', '\u{7ff}', // 2 bytes: first(min) C2 80, C2 BF, mid, C3 BF, CE BF, D0 BF, D1 80 (min, letter), last DF BF
    '\u{800}', '\u{83f}', '\u{4e00}', '\u{4e3f}', '\u{65e5}', '\u{ffff}', // 3 bytes: first(min), max, letter min E4 B8 80, letter max E4 B8 BF, mid, last EF BF BF
    '\u{10000}', '\u{1003f}', '\u{1f60a}', '\u{1f3ff}', '\u{10ffff}', // 4 bytes: first(min), max (letter), mid, max, last F4 8F BF BF
  ]
}

/// Plain strings around one boundary character: alone, after / before an ASCII letter, doubled.
fn boundary_words(c: char) -> Vec<String> {
  vec![format!("{c}"), format!("a{c}"), format!("{c}a"), format!("{c}{c}"), format!("ab{c}")]
}

/// Wildcard / regex patterns whose literal prefix ends in the boundary character.
fn boundary_patterns(c: char) -> Vec<String> {
  vec![format!("{c}*"), format!("a{c}*"), format!("{c}?z"), format!("a{c}?*z"), format!("{c}.+"), format!("a{c}(x|y)"), format!("a{c}.*z")]
}

/// Hand-written requests that put every boundary character into every term-expansion location:
/// prefix / wildcard / regex on a default-, whitespace-, unicode-analyzed text field and a keyword
/// field; fuzzy expansion with prefix_length 0, 1, 2; query_string forms; completion suggest with
/// and without fuzzy.
/// Feature-interaction family. Per-location substitution varies one place at a time; panics that
/// need two or three request features to line up are reached by enumerating, on top of a plain
/// base request, every combination of at most `max_arity` features set to a non-default value.
/// Every value is a valid, ordinary setting. Returns (requests, combinations per arity).
fn interaction_family(max_arity: usize) -> (Vec<String>, BTreeMap<usize, u64>) {
  // a value is a list of (target, key, json): target "" = top level of the request, "rescore" = inside it
  type Val = Vec<(&'static str, &'static str, Value)>;
  let top = |k: &'static str, v: Value| -> Val { vec![("", k, v)] };
  let rescore = |q: Value| -> Val { vec![("", "rescore", json!({"window_size": 10, "score_mode": "total", "query": q}))] };
  let fs = |min: f64| json!({"type": "function_score", "query": {"type": "match_all"}, "functions": [{"type": "weight", "weight": 2.0, "filter": {"KeywordEq": {"field": "kw", "value": "x"}}}], "score_mode": "sum", "boost_mode": "multiply", "min_score": min});
  let features: Vec<(&'static str, Vec<Val>)> = vec![
    // rescore query kinds: plain; rejecting every hit; rejecting the hits without kw=x; a script that
    // yields no value where n = 1 (division by zero) or n is missing
    ("rescore.query", vec![
      rescore(json!({"type": "term", "field": "body", "value": "b"})),
      rescore(fs(1e6)),
      rescore(fs(2.0)),
      rescore(json!({"type": "script_score", "query": {"type": "match_all"}, "script": "_score / (n - 1)"})),
    ]),
    // window sizes around the number of hits (5 documents; default 10 covers them all)
    ("rescore.window_size", [0, 1, 2, 5].iter().map(|w| vec![("rescore", "window_size", json!(w))]).collect()),
    ("rescore.score_mode", ["multiply", "max"].iter().map(|m| vec![("rescore", "score_mode", json!(m))]).collect()),
    ("collapse", vec![
      top("collapse", json!({"field": "g"})),
      top("collapse", json!({"field": "kw", "inner_hits": {"size": 1, "from": 0}})),
      top("collapse", json!({"field": "g", "inner_hits": {"size": 1, "from": 5, "sort": [{"field": "n", "order": "asc"}]}})),
    ]),
    ("sort", vec![
      top("sort", json!([{"field": "n", "order": "asc"}])),
      top("sort", json!([{"field": "_score", "order": "desc"}, {"field": "n", "order": "asc"}])),
      top("sort", json!([{"field": "kw", "order": "desc"}])),
    ]),
    ("limit", [1, 2, 5].iter().map(|l| top("limit", json!(l))).collect()),
    ("cursor", vec![top("cursor", json!(SECOND_PAGE))]),
    ("aggs", vec![top("aggs", json!({"t": {"type": "terms", "field": "kw", "aggs": {"th": {"type": "top_hits", "size": 1}}}}))]),
    ("highlight", vec![vec![("", "highlight_field", json!("body")), ("", "highlight", json!({"fields": {"body": {"fragment_size": 8, "number_of_fragments": 2}}}))]]),
    ("explain", vec![top("explain", json!(true))]),
    ("profile", vec![top("profile", json!(true))]),
    ("execution", vec![top("execution", json!("wand")), top("execution", json!("bmw"))]),
    ("query", vec![
      top("query", json!({"type": "match_all"})),
      top("query", json!({"type": "function_score", "query": {"type": "query_string", "query": "a b"}, "functions": [{"type": "weight", "weight": 2.0, "filter": {"KeywordEq": {"field": "kw", "value": "x"}}}], "boost_mode": "multiply", "min_score": 0.3})),
      top("query", json!({"type": "function_score", "query": {"type": "match_all"}, "functions": [], "min_score": 1e6})),
    ]),
    ("return_stored", vec![top("return_stored", json!(true))]),
    ("candidate_size", vec![top("candidate_size", json!(1)), top("candidate_size", json!(100))]),
    ("return_hits", vec![top("return_hits", json!(false))]),
    ("filter", vec![top("filter", json!({"KeywordEq": {"field": "kw", "value": "x"}}))]),
  ];
  let base = json!({"query": "a", "limit": 10, "return_stored": false, "execution": "bm25"});
  let mut out: Vec<String> = Vec::new();
  let mut per_arity: BTreeMap<usize, u64> = BTreeMap::new();
  // depth-first over features: choose for each either the default or one non-default value
  fn rec(fi: usize, chosen: &mut Vec<(usize, usize)>, features: &[(&'static str, Vec<Vec<(&'static str, &'static str, Value)>>)], max_arity: usize, base: &Value, out: &mut Vec<String>, per_arity: &mut BTreeMap<usize, u64>) {
    if fi == features.len() {
      // window_size / score_mode only exist inside a rescore section
      let has_rescore = chosen.iter().any(|c| c.0 == 0);
      if !has_rescore && chosen.iter().any(|c| c.0 == 1 || c.0 == 2) {
        return;
      }
      let mut r = base.clone();
      for (f, vi) in chosen.iter() {
        for (target, key, val) in &features[*f].1[*vi] {
          if target.is_empty() {
            r[*key] = val.clone();
          } else {
            r[*target][*key] = val.clone();
          }
        }
      }
      *per_arity.entry(chosen.len()).or_insert(0) += 1;
      out.push(r.to_string());
      return;
    }
    rec(fi + 1, chosen, features, max_arity, base, out, per_arity);
    if chosen.len() < max_arity {
      for vi in 0..features[fi].1.len() {
        chosen.push((fi, vi));
        rec(fi + 1, chosen, features, max_arity, base, out, per_arity);
        chosen.pop();
      }
    }
  }
  rec(0, &mut Vec::new(), &features, max_arity, &base, &mut out, &mut per_arity);
  // simplest first
  out.sort_by_key(|t| t.len());
  (out, per_arity)
}

/// Structural aggregation family: every aggregation type of the request schema with a minimal
/// valid parameterisation and a set of invalid ones, placed at every structural position.
/// Returns (name of the variant, aggregation JSON).
fn agg_variants() -> Vec<(String, Value)> {
  let mut v: Vec<(String, Value)> = Vec::new();
  let mut add = |name: &str, a: Value| v.push((name.to_string(), a));
  let huge = 18446744073709551615u64;
  // keyword bucket aggregations
  for ty in ["terms", "significant_terms", "rare_terms"] {
    add(&format!("{ty} valid"), json!({"type": ty, "field": "kw"}));
    for f in ["nope", "n", "body", "c.a", ""] {
      add(&format!("{ty} field {f:?}"), json!({"type": ty, "field": f}));
    }
    add(&format!("{ty} size 0"), json!({"type": ty, "field": "kw", "size": 0}));
    add(&format!("{ty} size huge"), json!({"type": ty, "field": "kw", "size": huge}));
  }
  add("terms shard_size 0 min_doc_count huge", json!({"type": "terms", "field": "kw", "shard_size": 0, "min_doc_count": huge, "missing": {"a": 1}}));
  add("rare_terms max_doc_count 0", json!({"type": "rare_terms", "field": "g", "max_doc_count": 0}));
  add("significant_terms bad background", json!({"type": "significant_terms", "field": "kw", "background_filter": {"KeywordEq": {"field": "nope", "value": "x"}}}));
  // range / date_range
  add("range valid", json!({"type": "range", "field": "f", "keyed": false, "ranges": [{"to": 1.0}, {"from": 1.0}]}));
  add("range no ranges", json!({"type": "range", "field": "f", "keyed": true, "ranges": []}));
  add("range inverted + unbounded", json!({"type": "range", "field": "n", "keyed": true, "ranges": [{"from": 2.0, "to": 1.0}, {}, {"from": -1e308, "to": 1e308}]}));
  for f in ["nope", "kw", "body"] {
    add(&format!("range field {f:?}"), json!({"type": "range", "field": f, "keyed": false, "ranges": [{"to": 1.0}]}));
  }
  add("date_range valid", json!({"type": "date_range", "field": "ts", "keyed": false, "ranges": [{"to": "2023-11-15T00:00:00Z"}, {"from": "2023-11-15T00:00:00Z"}]}));
  add("date_range no ranges", json!({"type": "date_range", "field": "ts", "keyed": false, "ranges": []}));
  add("date_range bogus date", json!({"type": "date_range", "field": "ts", "keyed": true, "ranges": [{"from": "bogus"}, {"from": "9999-12-31T23:59:59Z", "to": "0001-01-01T00:00:00Z"}]}));
  add("date_range keyword field", json!({"type": "date_range", "field": "kw", "keyed": false, "ranges": [{"to": "2023-11-15T00:00:00Z"}]}));
  // histogram / date_histogram
  add("histogram valid", json!({"type": "histogram", "field": "n", "interval": 1.0}));
  for iv in [0.0, -1.0, 1e-300, 1e308] {
    add(&format!("histogram interval {iv:e}"), json!({"type": "histogram", "field": "n", "interval": iv}));
    add(&format!("histogram interval {iv:e} + bounds"), json!({"type": "histogram", "field": "f", "interval": iv, "extended_bounds": {"min": 0.0, "max": 3.0}}));
  }
  for f in ["nope", "kw", "body"] {
    add(&format!("histogram field {f:?}"), json!({"type": "histogram", "field": f, "interval": 1.0}));
  }
  add("histogram offset huge", json!({"type": "histogram", "field": "n", "interval": 1.0, "offset": 1e308, "missing": -1e308, "min_doc_count": huge}));
  add("date_histogram fixed", json!({"type": "date_histogram", "field": "ts", "fixed_interval": "1d"}));
  add("date_histogram calendar", json!({"type": "date_histogram", "field": "ts", "calendar_interval": "month"}));
  add("date_histogram both", json!({"type": "date_histogram", "field": "ts", "calendar_interval": "month", "fixed_interval": "1d"}));
  add("date_histogram neither", json!({"type": "date_histogram", "field": "ts"}));
  for iv in ["0d", "0", "-1d", "bogus", "", "9999999999999d", "1ms"] {
    add(&format!("date_histogram fixed {iv:?}"), json!({"type": "date_histogram", "field": "ts", "fixed_interval": iv}));
  }
  add("date_histogram calendar bogus", json!({"type": "date_histogram", "field": "ts", "calendar_interval": "fortnight"}));
  add("date_histogram keyword field", json!({"type": "date_histogram", "field": "kw", "fixed_interval": "1d"}));
  add("date_histogram f64 field + missing", json!({"type": "date_histogram", "field": "f", "fixed_interval": "1h", "missing": "bogus", "offset": "bogus"}));
  // filter / composite
  add("filter valid", json!({"type": "filter", "filter": {"KeywordEq": {"field": "kw", "value": "x"}}}));
  add("filter unknown field", json!({"type": "filter", "filter": {"I64Range": {"field": "nope", "min": 0, "max": 1}}}));
  add("filter empty And", json!({"type": "filter", "filter": {"And": []}}));
  add("filter Not Or empty", json!({"type": "filter", "filter": {"Not": {"Or": []}}}));
  add("composite valid", json!({"type": "composite", "size": 2, "sources": [{"type": "terms", "name": "k", "field": "kw"}]}));
  add("composite no sources", json!({"type": "composite", "size": 2, "sources": []}));
  add("composite size 0", json!({"type": "composite", "size": 0, "sources": [{"type": "terms", "name": "k", "field": "kw"}]}));
  add("composite size huge", json!({"type": "composite", "size": huge, "sources": [{"type": "terms", "name": "k", "field": "kw"}, {"type": "histogram", "name": "n", "field": "n", "interval": 1.0}]}));
  add("composite bad sources", json!({"type": "composite", "size": 2, "sources": [{"type": "terms", "name": "k", "field": "nope"}, {"type": "histogram", "name": "k", "field": "kw", "interval": 0.0}, {"type": "histogram", "name": "h", "field": "n", "interval": -1.0}]}));
  add("composite after mismatch", json!({"type": "composite", "size": 2, "sources": [{"type": "terms", "name": "k", "field": "kw"}], "after": {"zz": [1]}}));
  // metrics
  for ty in ["stats", "extended_stats", "value_count"] {
    add(&format!("{ty} valid"), json!({"type": ty, "field": "n"}));
    for f in ["nope", "kw", "body", "c.v"] {
      add(&format!("{ty} field {f:?}"), json!({"type": ty, "field": f}));
    }
    add(&format!("{ty} missing object"), json!({"type": ty, "field": "f", "missing": {"a": 1}}));
  }
  add("cardinality valid", json!({"type": "cardinality", "field": "kw"}));
  add("cardinality numeric", json!({"type": "cardinality", "field": "n", "precision_threshold": 0}));
  add("cardinality text field", json!({"type": "cardinality", "field": "body", "precision_threshold": huge}));
  add("cardinality unknown field", json!({"type": "cardinality", "field": "nope"}));
  add("percentiles valid", json!({"type": "percentiles", "field": "f"}));
  add("percentiles no percents", json!({"type": "percentiles", "field": "f", "percents": []}));
  add("percentiles out of range", json!({"type": "percentiles", "field": "n", "percents": [-1.0, 0.0, 100.0, 101.0, 1e308]}));
  add("percentiles keyword field", json!({"type": "percentiles", "field": "kw"}));
  add("percentile_ranks valid", json!({"type": "percentile_ranks", "field": "f", "values": [1.0]}));
  add("percentile_ranks no values", json!({"type": "percentile_ranks", "field": "f", "values": []}));
  add("percentile_ranks unknown field", json!({"type": "percentile_ranks", "field": "nope", "values": [1e308, -1e308]}));
  add("top_hits valid", json!({"type": "top_hits", "size": 1}));
  add("top_hits size 0", json!({"type": "top_hits", "size": 0}));
  add("top_hits size huge", json!({"type": "top_hits", "size": huge, "from": huge}));
  add("top_hits bad sort / fields", json!({"type": "top_hits", "size": 2, "from": 1, "fields": ["nope"], "sort": [{"field": "nope"}], "highlight_field": "nope"}));
  // pipelines x bucket paths
  let paths = ["_count", "m.avg", "m", "m.nope", "m.avg.x", "nope", "", "x", "x.value", "p1.value", "p1", "h", "h.m.avg", "h>m.avg", "..", "_key"];
  for path in paths {
    for ty in ["avg_bucket", "sum_bucket"] {
      add(&format!("{ty} path {path:?}"), json!({"type": ty, "buckets_path": path}));
    }
    add(&format!("derivative path {path:?}"), json!({"type": "derivative", "buckets_path": path}));
    add(&format!("moving_avg path {path:?}"), json!({"type": "moving_avg", "buckets_path": path, "window": 2}));
    add(&format!("bucket_script var path {path:?}"), json!({"type": "bucket_script", "buckets_path": {"a": path}, "script": "a + 1"}));
    add(&format!("bucket_sort by {path:?}"), json!({"type": "bucket_sort", "sort": [{path: "desc"}]}));
  }
  add("derivative unit 0", json!({"type": "derivative", "buckets_path": "m.avg", "unit": 0.0, "gap_policy": "insert_zeros"}));
  add("derivative unit negative", json!({"type": "derivative", "buckets_path": "_count", "unit": -1.0, "gap_policy": "skip"}));
  add("moving_avg window 0", json!({"type": "moving_avg", "buckets_path": "m.avg", "window": 0}));
  add("moving_avg window huge", json!({"type": "moving_avg", "buckets_path": "_count", "window": huge, "predict": 0}));
  add("moving_avg predict huge", json!({"type": "moving_avg", "buckets_path": "_count", "window": 1, "predict": huge}));
  for (n, sc) in [("empty", ""), ("dangling operator", "a +"), ("missing var", "b"), ("division by zero", "a / 0"), ("unbalanced", "(a"), ("non-ascii", "a + é")] {
    add(&format!("bucket_script script {n}"), json!({"type": "bucket_script", "buckets_path": {"a": "_count"}, "script": sc}));
  }
  add("bucket_script no vars", json!({"type": "bucket_script", "buckets_path": {}, "script": "1"}));
  add("bucket_sort empty", json!({"type": "bucket_sort", "sort": []}));
  add("bucket_sort from huge size 0", json!({"type": "bucket_sort", "sort": [{"_count": "asc"}], "from": huge, "size": 0}));
  v
}

/// The bucket aggregation kinds (they accept sub-aggregations), minimal valid form.
fn bucket_kinds() -> Vec<(&'static str, Value)> {
  vec![
    ("terms", json!({"type": "terms", "field": "kw"})),
    ("histogram", json!({"type": "histogram", "field": "n", "interval": 1.0})),
    ("filter", json!({"type": "filter", "filter": {"KeywordEq": {"field": "kw", "value": "x"}}})),
    ("significant_terms", json!({"type": "significant_terms", "field": "kw"})),
    ("rare_terms", json!({"type": "rare_terms", "field": "g"})),
    ("range", json!({"type": "range", "field": "f", "keyed": false, "ranges": [{"to": 1.0}, {"from": 1.0}]})),
    ("date_range", json!({"type": "date_range", "field": "ts", "keyed": false, "ranges": [{"from": "2023-01-01T00:00:00Z"}]})),
    ("date_histogram", json!({"type": "date_histogram", "field": "ts", "fixed_interval": "1d"})),
    ("composite", json!({"type": "composite", "size": 2, "sources": [{"type": "terms", "name": "k", "field": "kw"}]})),
  ]
}

/// Every variant x every structural position. `quick` uses three representative bucket kinds as
/// parents, thorough all nine.
fn agg_family(quick: bool) -> Vec<Value> {
  let m = json!({"type": "stats", "field": "n"});
  let p1 = json!({"type": "derivative", "buckets_path": "m.avg"});
  let with = |mut b: Value, subs: Value| {
    b["aggs"] = subs;
    b
  };
  let kinds = bucket_kinds();
  let parents: Vec<&(&'static str, Value)> = if quick { kinds.iter().take(3).collect() } else { kinds.iter().collect() };
  let mut out = Vec::new();
  let wrap = |aggs: Value| json!({"query": {"type": "match_all"}, "limit": 1, "return_stored": false, "aggs": aggs});
  for (_, x) in agg_variants() {
    // top level, alone
    out.push(wrap(json!({"x": x})));
    // top level, sibling of a bucket aggregation (with a metric inside) and of a metric it may refer to
    out.push(wrap(json!({"h": with(kinds[1].1.clone(), json!({"m": m})), "m": m, "x": x})));
    for (_, b) in &parents {
      // the only sub-aggregation of a bucket aggregation
      out.push(wrap(json!({"b": with(b.clone(), json!({"x": x}))})));
      // next to a metric and a pipeline it may refer to (pipeline referring to a pipeline)
      out.push(wrap(json!({"b": with(b.clone(), json!({"m": m, "p1": p1, "x": x}))})));
    }
    // two levels deep
    out.push(wrap(json!({"b": with(kinds[0].1.clone(), json!({"h": with(kinds[1].1.clone(), json!({"m": m, "x": x}))}))})));
    // under a metric aggregation (the request schema has no sub-aggregations there; kept to show it)
    out.push(wrap(json!({"m": with(m.clone(), json!({"x": x}))})));
    // the variant itself as a parent of a metric and a pipeline
    out.push(wrap(json!({"x": with(x.clone(), json!({"m": m, "p": {"type": "avg_bucket", "buckets_path": "m.avg"}, "d": {"type": "derivative", "buckets_path": "p.value"}}))})));
  }
  out
}

fn boundary_requests() -> Vec<Value> {
  let mut v = Vec::new();
  for c in boundary_chars() {
    for field in ["body", "ws", "uni", "kw"] {
      for val in [format!("{c}"), format!("a{c}")] {
        v.push(json!({"query": {"type": "prefix", "field": field, "value": val, "max_expansions": 10}, "limit": 5, "return_stored": false}));
      }
      for val in [format!("{c}*"), format!("a{c}?z")] {
        v.push(json!({"query": {"type": "wildcard", "field": field, "value": val, "max_expansions": 10}, "limit": 5, "return_stored": false}));
      }
      for val in [format!("{c}.+"), format!("a{c}(x|y)")] {
        v.push(json!({"query": {"type": "regex", "field": field, "value": val, "max_expansions": 10}, "limit": 5, "return_stored": false}));
      }
      for pfx in [format!("{c}"), format!("a{c}")] {
        v.push(json!({"query": {"type": "match_all"}, "limit": 1, "return_stored": false, "suggest": {"s": {"type": "completion", "field": field, "prefix": pfx, "size": 3}}}));
        v.push(json!({"query": {"type": "match_all"}, "limit": 1, "return_stored": false, "suggest": {"s": {"type": "completion", "field": field, "prefix": pfx, "size": 3, "fuzzy": {"max_edits": 1, "prefix_length": 1, "max_expansions": 10, "min_length": 1}}}}));
      }
    }
    for pl in 0..=2 {
      let fz = json!({"max_edits": 1, "prefix_length": pl, "max_expansions": 10, "min_length": 1});
      v.push(json!({"query": {"type": "query_string", "query": format!("{c}ab x{c}b xy{c} {c}"), "fields": ["body", "ws", "uni"]}, "fuzzy": fz, "limit": 5, "return_stored": false}));
      v.push(json!({"query": {"type": "term", "field": "ws", "value": format!("{c}a")}, "fuzzy": fz, "limit": 5, "return_stored": false}));
      v.push(json!({"query": {"type": "multi_match", "query": format!("{c}{c} a{c}"), "fields": ["title", "uni"]}, "fuzzy": fz, "limit": 5, "return_stored": false}));
    }
    for q in [format!("{c}"), format!("ws:{c}a"), format!("\"{c} {c}a\""), format!("-{c} a"), format!("uni:a{c} body:{c}{c}")] {
      v.push(json!({"query": q, "limit": 5, "return_stored": false, "highlight_field": "body"}));
      v.push(json!({"query": {"type": "query_string", "query": q, "fields": ["ws", "uni", "body"]}, "limit": 5, "return_stored": true, "highlight": {"fields": {"ws": {"fragment_size": 3, "number_of_fragments": 2}}}}));
    }
    v.push(json!({"query": {"type": "phrase", "field": "ws", "terms": [format!("{c}"), format!("{c}a")], "slop": 1}, "limit": 5, "return_stored": false}));
  }
  v
}

fn indexes() -> Vec<World> {
  vec![
    World::new("c16: 1 segment, 5 docs", schema_c16(), docs()),
    World::new("c16: 2 segments + tombstone", schema_c16(), docs()).with_layout(vec![2, 3]).with_deleted(&["B"]),
    World::new("c16: empty index", schema_c16(), vec![]),
  ]
}

// ---------------------------------------------------------------------------------------------
// Base requests (each must deserialize as written and succeed on index 0)

fn bases() -> Vec<(&'static str, Value)> {
  vec![
    ("string query (score-cursor path)", json!({"query": "a b", "limit": 1, "return_stored": false, "execution": "wand"})),
    ("query_string + filter tree + multi-key sort (sort-cursor path)", json!({
      "query": {"type": "query_string", "query": "a -zz body:b \"a b\"", "fields": ["body", "title"], "boost": 1.5},
      "filter": {"And": [{"KeywordIn": {"field": "kw", "values": ["x", "y"]}}, {"I64Range": {"field": "n", "min": 0, "max": 10}},
                         {"Or": [{"F64Range": {"field": "f", "min": 0.0, "max": 9.5}}, {"Not": {"KeywordEq": {"field": "g", "value": "g2"}}}]}]},
      "sort": [{"field": "n", "order": "desc"}, {"field": "kw"}, {"field": "_score", "order": "asc"}],
      "limit": 1, "return_stored": true, "execution": "bm25"})),
    ("bool with term/prefix/wildcard/regex/phrase + fuzzy + bmw", json!({
      "query": {"type": "bool",
        "must": [{"type": "term", "field": "body", "value": "a", "boost": 2.0}],
        "should": [{"type": "prefix", "field": "body", "value": "ru", "max_expansions": 10},
                   {"type": "wildcard", "field": "title", "value": "r*s?", "max_expansions": 10, "boost": 0.5},
                   {"type": "regex", "field": "body", "value": "(b|zz)", "max_expansions": 10}],
        "must_not": [{"type": "phrase", "field": "body", "terms": ["b", "c"], "slop": 1}],
        "filter": [{"F64Range": {"field": "f", "min": 0.0, "max": 100.0}}],
        "minimum_should_match": 0, "boost": 1.0},
      "fuzzy": {"max_edits": 1, "prefix_length": 1, "max_expansions": 10, "min_length": 2},
      "limit": 10, "return_stored": false, "execution": "bmw", "bmw_block_size": 2})),
    ("multi_match + highlight + explain + profile", json!({
      "query": {"type": "multi_match", "query": "rust a", "fields": [{"field": "title", "boost": 2.0}, {"field": "body"}], "match_type": "best_fields",
                "tie_breaker": 0.3, "operator": "or", "minimum_should_match": "75%", "boost": 1.0},
      "highlight_field": "body",
      "highlight": {"fields": {"body": {"pre_tag": "<em>", "post_tag": "</em>", "fragment_size": 10, "number_of_fragments": 2}, "title": {"fragment_size": 5}}},
      "fields": ["body", "title"], "limit": 10, "return_stored": true, "explain": true, "profile": true})),
    ("dis_max + rescore", json!({
      "query": {"type": "dis_max", "queries": [{"type": "term", "field": "title", "value": "rust"}, {"type": "term", "field": "body", "value": "a"}], "tie_breaker": 0.4, "boost": 1.0},
      "rescore": {"window_size": 2, "query": {"type": "phrase", "field": "body", "terms": ["a", "b"], "slop": 1}, "score_mode": "total"},
      "limit": 10, "return_stored": false, "explain": true})),
    ("function_score", json!({
      "query": {"type": "function_score", "query": {"type": "match_all"},
        "functions": [{"type": "weight", "weight": 2.0, "filter": {"KeywordEq": {"field": "kw", "value": "x"}}},
                      {"type": "decay", "field": "n", "origin": 0.0, "scale": 3.0, "offset": 0.0, "decay": 0.5, "function": "linear"},
                      {"type": "field_value_factor", "field": "f", "factor": 0.25, "modifier": "log1p", "missing": 0.0}],
        "score_mode": "sum", "boost_mode": "sum", "max_boost": 5.0, "min_score": 0.1, "boost": 1.0},
      "limit": 10, "return_stored": false})),
    ("script_score + rank_feature + constant_score(Nested) + candidate_size", json!({
      "query": {"type": "bool",
        "must": [{"type": "script_score", "query": {"type": "term", "field": "body", "value": "a"}, "script": "_score + n * w", "params": {"w": 0.1}, "boost": 1.0}],
        "should": [{"type": "rank_feature", "field": "f", "boost": 1.0, "modifier": "sqrt", "missing": 0.0},
                   {"type": "constant_score", "filter": {"Nested": {"path": "c", "filter": {"KeywordEq": {"field": "a", "value": "q"}}}}, "boost": 2.5}]},
      "candidate_size": 5, "limit": 3, "return_stored": false, "execution": "wand"})),
    ("bucket aggregations with pipelines, no hits", json!({
      "query": {"type": "match_all"}, "limit": 1, "return_hits": false, "return_stored": false,
      "aggs": {
        "t": {"type": "terms", "field": "kw", "size": 5, "shard_size": 10, "min_doc_count": 1, "missing": "none",
              "aggs": {"st": {"type": "stats", "field": "n", "missing": 0},
                       "srt": {"type": "bucket_sort", "sort": [{"st.avg": "desc"}], "from": 0, "size": 3},
                       "ab": {"type": "avg_bucket", "buckets_path": "st.avg"},
                       "sb": {"type": "sum_bucket", "buckets_path": "st.sum"}}},
        "h": {"type": "histogram", "field": "n", "interval": 1.0, "offset": 0.0, "min_doc_count": 0, "extended_bounds": {"min": 0.0, "max": 5.0}, "missing": 0.0,
              "aggs": {"st": {"type": "stats", "field": "f"},
                       "d": {"type": "derivative", "buckets_path": "st.avg", "gap_policy": "skip", "unit": 1.0},
                       "m": {"type": "moving_avg", "buckets_path": "st.avg", "window": 2, "predict": 1, "gap_policy": "insert_zeros"},
                       "bs": {"type": "bucket_script", "buckets_path": {"a": "st.avg", "c": "_count"}, "script": "a / (c + 1)"}}},
        "dh": {"type": "date_histogram", "field": "ts", "fixed_interval": "1d", "offset": "1h", "min_doc_count": 0,
               "extended_bounds": {"min": "2023-11-14T00:00:00Z", "max": "2023-11-17T00:00:00Z"}},
        "dc": {"type": "date_histogram", "field": "ts", "calendar_interval": "month", "hard_bounds": {"min": "2023-01-01T00:00:00Z", "max": "2024-01-01T00:00:00Z"}}}})),
    ("metric / range / composite / top_hits / significance aggregations", json!({
      "query": "a", "limit": 2, "return_stored": false,
      "aggs": {
        "r": {"type": "range", "field": "f", "keyed": true, "ranges": [{"key": "lo", "to": 1.0}, {"from": 1.0, "to": 2.0}, {"from": 2.0}]},
        "dr": {"type": "date_range", "field": "ts", "keyed": false, "ranges": [{"key": "old", "to": "2023-11-15T00:00:00Z"}, {"from": "2023-11-15T00:00:00Z"}]},
        "co": {"type": "composite", "size": 2, "sources": [{"type": "terms", "name": "k", "field": "kw"}, {"type": "histogram", "name": "n", "field": "n", "interval": 2.0}],
               "aggs": {"p": {"type": "percentiles", "field": "f", "percents": [50.0, 95.0]}}},
        "ca": {"type": "cardinality", "field": "kw", "precision_threshold": 100},
        "pr": {"type": "percentile_ranks", "field": "n", "values": [1.0, 3.0]},
        "es": {"type": "extended_stats", "field": "f"},
        "vc": {"type": "value_count", "field": "n", "missing": 0},
        "th": {"type": "top_hits", "size": 2, "from": 0, "fields": ["body"], "sort": [{"field": "n", "order": "desc"}], "highlight_field": "body"},
        "fl": {"type": "filter", "filter": {"KeywordEq": {"field": "kw", "value": "x"}}, "aggs": {"s": {"type": "stats", "field": "n"}}},
        "sg": {"type": "significant_terms", "field": "kw", "size": 5, "min_doc_count": 1, "background_filter": {"KeywordEq": {"field": "g", "value": "g1"}}},
        "ra": {"type": "rare_terms", "field": "g", "max_doc_count": 1, "size": 5, "sampling": {"probability": 0.5, "seed": 42}}}})),
    ("collapse + inner_hits + suggest + sort", json!({
      "query": "a rust", "sort": [{"field": "f", "order": "desc"}, {"field": "_score", "order": "desc"}],
      "collapse": {"field": "g", "inner_hits": {"size": 2, "from": 0, "sort": [{"field": "n", "order": "asc"}]}},
      "suggest": {"s": {"type": "completion", "field": "title", "prefix": "ru", "size": 3, "fuzzy": {"max_edits": 1, "prefix_length": 1, "max_expansions": 20, "min_length": 2}}},
      "limit": 2, "return_stored": true})),
  ]
}

// ---------------------------------------------------------------------------------------------
// Nasty alphabets

fn hex_of(s: &[u8]) -> String {
  s.iter().map(|b| format!("{b:02x}")).collect()
}

/// String classes: 0 universal, 1 cursor-like, 2 regex/wildcard patterns, 3 scripts, 4 field names and
/// bucket paths, 5 query strings, 6 percentages / intervals / dates / numbers-as-strings, 7 enum and type names,
/// 8 words around UTF-8 byte-boundary characters (used at every pattern and query-string location).
fn add(v: &mut Vec<(u8, String)>, class: u8, xs: &[&str]) {
  for x in xs {
    v.push((class, x.to_string()));
  }
}

fn nasty_strings(quick: bool) -> Vec<(u8, String)> {
  let mut v: Vec<(u8, String)> = Vec::new();
  add(&mut v, 0, &["", "é", "0é0", "\u{0}", "nope"]);
  v.push((0, "a".repeat(300)));
  // cursor-like
  add(&mut v, 1, &["a", "abc", "zz", "00", "7b7d", "6e756c6c", "5b5d", "ff", "日日"]);
  for s in [
    "g".repeat(42),
    "0".repeat(42),
    " ".repeat(42),
    "+1".repeat(21),
    format!("01{}", "f".repeat(40)),
    "é".repeat(21),
    format!("a{}a", "é".repeat(20)),
    format!("0{}0", "é".repeat(3)),
    "日".repeat(14),
    format!("{}aa", "😀".repeat(10)),
    hex_of(br#"{"version":2}"#),
  ] {
    v.push((1, s));
  }
  // regex / wildcard patterns
  add(&mut v, 2, &["(", ")", "[", "a{", "*", "?", "**", "a**", "(a", "a)", "[a-", "\\", "a{1000}", "(a{100}){100}", "((((((((((a*)*)*)*)*)*)*)*)*)*", ".*", "^$", "a|", "|", "(?i)a", "\\p{Greek}", "a{2,1}", "\\b", "é*", "?*?*?*?*?*?*a", "r*", "*a*b*c*"]);
  // scripts
  add(&mut v, 3, &["1/0", "0/0", "1%0", "_score", "_score +", "((((((((((1))))))))))", "1e999", "-", "--1", "n", "f*1e308*1e308", "params.w", "doc['n']", "1 1", "9999999999999999999999", "_score/(n-n)", "sqrt(-1)", "n/0", "w", "a", "c", "a / c", "a / (c - c)"]);
  v.push((3, format!("{}1{}", "(".repeat(256), ")".repeat(256))));
  v.push((3, "1+".repeat(300)));
  // field names / paths
  add(&mut v, 4, &["_id", "_score", "body", "title", "kw", "g", "f", "ts", "c.a", "c.v", "c.r", "c.r.t", "_doc", "_count", "_key", "a.b.c.d", ".", "..", "c.", ".a", "st.avg", "st.nope", "st", "t.st.avg", "nope.avg", "st.avg.x", "_count.x"]);
  // query strings
  add(&mut v, 5, &[" ", "-a", "body:", ":", "\"", "\"a", "\"a b\"", "body:\"a b", "a AND", "((((", "é日本", "a~", "--", "-\"", "body:a title:b", "nope:a", "a:b:c", "+a", "a^2", "\n", "a a", "a a a b", "rust rust", "日本", "-a -b", "\"\""]);
  v.push((5, "a ".repeat(200)));
  // percentages, intervals, dates, numbers-as-strings
  add(&mut v, 6, &["75%", "0%", "-5%", "1000%", "%", "é%", "1d", "0d", "-1d", "1ms", "0ms", "1x", "d", "9999999999999d", "18446744073709551616d", "1h", "1w", "day", "week", "month", "quarter", "year", "bogus",
        "2020-01-01T00:00:00Z", "9999-12-31T23:59:59Z", "0000-00-00", "1970-01-01T00:00:00Z", "+262143-01-01T00:00:00Z", "-1", "0", "1", "1e400", "NaN", "inf", "yyyy", "%Y"]);
  // enum values and type names
  add(&mut v, 7, &["bm25", "wand", "bmw", "sum", "multiply", "max", "min", "avg", "replace", "total", "and", "or", "best_fields", "most_fields", "cross_fields", "exp", "gauss", "linear", "log", "log1p", "log2p", "sqrt",
        "reciprocal", "none", "skip", "insert_zeros", "asc", "desc",
        "term", "prefix", "wildcard", "regex", "match_all", "phrase", "query_string", "terms", "stats", "extended_stats", "value_count", "histogram", "avg_bucket", "sum_bucket", "rare_terms", "significant_terms",
        "cardinality", "derivative", "moving_avg", "completion"]);
  // UTF-8 byte-boundary alphabet: class 8 = plain words, class 2 = patterns with such a literal prefix
  for c in boundary_chars() {
    for w in boundary_words(c) {
      v.push((8, w));
    }
    for p in boundary_patterns(c) {
      v.push((2, p));
    }
  }
  if !quick {
    v.push((0, "a".repeat(65536)));
    v.push((0, "é".repeat(32768)));
    v.push((2, format!("{}a", "?*".repeat(40))));
    v.push((2, "(a|aa)+$".to_string()));
    v.push((2, format!("{}b", "a?".repeat(30))));
  }
  let mut seen = HashSet::new();
  v.retain(|s| seen.insert(s.1.clone()));
  v
}

/// The string class a location belongs to (by the last object key on its path).
fn location_class(path: &[Seg]) -> u8 {
  let key = path.iter().rev().find_map(|s| match s {
    Seg::K(k) => Some(k.as_str()),
    Seg::I(_) => None,
  });
  let under_buckets_path = path.iter().any(|s| matches!(s, Seg::K(k) if k == "buckets_path"));
  if under_buckets_path {
    return 4;
  }
  match key.unwrap_or("") {
    "cursor" => 1,
    "value" => 2,
    "script" => 3,
    "field" | "path" | "highlight_field" | "fields" | "name" => 4,
    "query" | "prefix" | "terms" | "values" => 5,
    "minimum_should_match" | "fixed_interval" | "calendar_interval" | "offset" | "min" | "max" | "from" | "to" | "format" | "missing" | "key" | "pre_tag" | "post_tag" => 6,
    "type" | "order" | "execution" | "score_mode" | "boost_mode" | "modifier" | "function" | "match_type" | "operator" | "gap_policy" => 7,
    _ => 0,
  }
}

fn nasty_numbers(quick: bool) -> Vec<Value> {
  if quick {
    // one representative per magnitude class (every hanging variant costs a full watchdog period)
    let texts = ["0", "1", "-1", "255", "50001", "1000000000", "4294967296", "9223372036854775807", "18446744073709551615", "-9223372036854775808", "0.5", "-0.5", "1e-300", "1e38", "1e308", "-1e308"];
    return texts.iter().map(|t| serde_json::from_str::<Value>(t).unwrap()).collect();
  }
  let texts = [
    "0", "1", "-1", "2", "255", "256", "65535", "50000", "50001", "20001", "1000000", "1000000000", "4294967295", "4294967296", "9223372036854775807", "18446744073709551615", "-9223372036854775808", "0.5", "-0.5", "1e-300",
    "1e-45", "1e38", "3.5e38", "1e308", "-1e308", "1.5", "100.0", "1e18", "1e19", "-0.0",
  ];
  texts.iter().map(|t| serde_json::from_str::<Value>(t).unwrap()).collect()
}

// ---------------------------------------------------------------------------------------------
// Structured variants of a base request

#[derive(Clone, Debug)]
enum Seg {
  K(String),
  I(usize),
}

fn at<'a>(root: &'a mut Value, path: &[Seg]) -> &'a mut Value {
  let mut cur = root;
  for p in path {
    cur = match p {
      Seg::K(k) => cur.get_mut(k.as_str()).unwrap(),
      Seg::I(i) => cur.get_mut(*i).unwrap(),
    };
  }
  cur
}

fn all_paths(v: &Value, cur: &mut Vec<Seg>, out: &mut Vec<Vec<Seg>>) {
  match v {
    Value::Object(m) => {
      for (k, c) in m {
        cur.push(Seg::K(k.clone()));
        out.push(cur.clone());
        all_paths(c, cur, out);
        cur.pop();
      }
    }
    Value::Array(a) => {
      for (i, c) in a.iter().enumerate() {
        cur.push(Seg::I(i));
        out.push(cur.clone());
        all_paths(c, cur, out);
        cur.pop();
      }
    }
    _ => {}
  }
}

fn structured_variants(base: &Value, strings: &[(u8, String)], all_classes: bool, numbers: &[Value], out: &mut Vec<String>) {
  let mut paths = Vec::new();
  all_paths(base, &mut Vec::new(), &mut paths);
  for path in &paths {
    let orig = {
      let mut b = base.clone();
      at(&mut b, path).clone()
    };
    let mut put = |v: Value| {
      if v != orig {
        let mut b = base.clone();
        *at(&mut b, path) = v;
        out.push(b.to_string());
      }
    };
    put(Value::Null);
    match &orig {
      Value::String(_) => {
        let class = location_class(path);
        for (c, s) in strings {
          if all_classes || *c == 0 || *c == class || (*c == 8 && (class == 2 || class == 5)) {
            put(json!(s));
          }
        }
      }
      Value::Number(_) => {
        for n in numbers {
          put(n.clone());
        }
      }
      Value::Bool(b) => put(json!(!b)),
      Value::Null => {
        put(json!("x"));
        put(json!(1));
      }
      Value::Array(a) => {
        put(json!([]));
        if let Some(f) = a.first() {
          put(json!([f.clone(), f.clone()]));
          let mut many = a.clone();
          for _ in 0..40 {
            many.push(f.clone());
          }
          put(Value::Array(many));
        }
        for i in 0..a.len() {
          let mut c = a.clone();
          c.remove(i);
          put(Value::Array(c));
        }
      }
      Value::Object(m) => {
        put(json!({}));
        for k in m.keys() {
          let mut c = m.clone();
          let val = c.remove(k).unwrap();
          put(Value::Object(c.clone()));
          for nk in ["nope", "", "é", "n", "body", "_score", "_count"] {
            if !m.contains_key(nk) {
              let mut d = c.clone();
              d.insert(nk.to_string(), val.clone());
              put(Value::Object(d));
            }
          }
        }
      }
    }
  }
}

/// Hand-written requests for the hypotheses and for interactions single substitutions cannot reach.
fn extras() -> Vec<Value> {
  let agg = |a: Value| json!({"query": {"type": "match_all"}, "limit": 1, "return_stored": false, "aggs": {"x": a}});
  let q = |q: Value| json!({"query": q, "limit": 10, "return_stored": false});
  let mut v = vec![
    // H9: the same term in two scoring leaves
    q(json!({"type": "dis_max", "queries": [{"type": "term", "field": "body", "value": "a"}, {"type": "term", "field": "body", "value": "a"}]})),
    q(json!({"type": "bool", "must": [{"type": "term", "field": "body", "value": "a"}], "should": [{"type": "term", "field": "body", "value": "a"}]})),
    q(json!({"type": "bool", "should": [{"type": "term", "field": "body", "value": "a"}, {"type": "prefix", "field": "body", "value": "a"}]})),
    q(json!({"type": "multi_match", "query": "a", "fields": ["body", "body"]})),
    q(json!({"type": "dis_max", "queries": [{"type": "query_string", "query": "a"}, {"type": "query_string", "query": "a b"}]})),
    json!({"query": "a", "limit": 10, "return_stored": false, "rescore": {"window_size": 5, "query": {"type": "dis_max", "queries": [{"type": "term", "field": "body", "value": "a"}, {"type": "term", "field": "body", "value": "a"}]}}}),
    // H14: histogram bounds loop
    agg(json!({"type": "histogram", "field": "n", "interval": 1e-300, "extended_bounds": {"min": 0.0, "max": 10.0}})),
    agg(json!({"type": "histogram", "field": "n", "interval": 1e-300, "hard_bounds": {"min": 0.0, "max": 10.0}})),
    agg(json!({"type": "histogram", "field": "n", "interval": 1e-9, "extended_bounds": {"min": 0.0, "max": 10.0}})),
    agg(json!({"type": "histogram", "field": "n", "interval": 1.0, "extended_bounds": {"min": -1e308, "max": 1e308}})),
    agg(json!({"type": "histogram", "field": "n", "interval": 1.0, "offset": 1e308, "extended_bounds": {"min": 0.0, "max": 1.0}})),
    agg(json!({"type": "histogram", "field": "n", "interval": 1e-300})),
    agg(json!({"type": "histogram", "field": "f", "interval": 1e308, "missing": -1e308})),
    agg(json!({"type": "date_histogram", "field": "ts", "fixed_interval": "1ms", "extended_bounds": {"min": "1970-01-01T00:00:00Z", "max": "2100-01-01T00:00:00Z"}})),
    agg(json!({"type": "date_histogram", "field": "ts", "fixed_interval": "1ms", "hard_bounds": {"min": "1970-01-01T00:00:00Z", "max": "2100-01-01T00:00:00Z"}})),
    agg(json!({"type": "date_histogram", "field": "ts", "calendar_interval": "day", "extended_bounds": {"min": "0001-01-01T00:00:00Z", "max": "9999-01-01T00:00:00Z"}})),
    agg(json!({"type": "composite", "size": 0, "sources": [{"type": "histogram", "name": "n", "field": "n", "interval": 1e-300}]})),
    agg(json!({"type": "composite", "size": 1000000000, "sources": [{"type": "terms", "name": "k", "field": "kw"}], "after": {"k": 1}})),
    agg(json!({"type": "composite", "size": 2, "sources": [{"type": "terms", "name": "k", "field": "kw"}], "after": {"nope": "x"}})),
    agg(json!({"type": "composite", "size": 2, "sources": [{"type": "terms", "name": "k", "field": "kw"}, {"type": "terms", "name": "k", "field": "g"}], "after": {"k": "x"}})),
    agg(json!({"type": "terms", "field": "kw", "size": 0, "aggs": {"m": {"type": "moving_avg", "buckets_path": "_count", "window": 0}}})),
    agg(json!({"type": "histogram", "field": "n", "interval": 1.0, "aggs": {"m": {"type": "moving_avg", "buckets_path": "_count", "window": 0, "predict": 1000000000}}})),
    agg(json!({"type": "histogram", "field": "n", "interval": 1.0, "aggs": {"m": {"type": "moving_avg", "buckets_path": "_count", "window": 1000000000}}})),
    agg(json!({"type": "histogram", "field": "n", "interval": 1.0, "aggs": {"d": {"type": "derivative", "buckets_path": "_count", "unit": 0.0}}})),
    agg(json!({"type": "histogram", "field": "n", "interval": 1.0, "aggs": {"b": {"type": "bucket_script", "buckets_path": {"a": "_count"}, "script": "a / 0"}}})),
    agg(json!({"type": "histogram", "field": "n", "interval": 1.0, "aggs": {"b": {"type": "bucket_script", "buckets_path": {"a": "nope.x"}, "script": "a"}}})),
    agg(json!({"type": "histogram", "field": "n", "interval": 1.0, "aggs": {"b": {"type": "bucket_sort", "sort": [{"nope": "asc"}], "from": 1000000000, "size": 0}}})),
    agg(json!({"type": "terms", "field": "kw", "size": 0})),
    agg(json!({"type": "terms", "field": "kw", "size": 1000000000, "shard_size": 0})),
    agg(json!({"type": "percentiles", "field": "f", "percents": [-1.0, 0.0, 100.0, 101.0, 1e308]})),
    agg(json!({"type": "percentiles", "field": "f", "percents": []})),
    agg(json!({"type": "percentile_ranks", "field": "f", "values": []})),
    agg(json!({"type": "range", "field": "f", "keyed": true, "ranges": [{"from": 2.0, "to": 1.0}, {"key": "lo"}, {"key": "lo"}]})),
    agg(json!({"type": "top_hits", "size": 0, "from": 1000000000})),
    agg(json!({"type": "top_hits", "size": 1000000000, "from": 1000000000, "sort": [{"field": "nope"}]})),
    agg(json!({"type": "cardinality", "field": "kw", "precision_threshold": 0})),
    agg(json!({"type": "rare_terms", "field": "g", "sampling": {"probability": 0.0}})),
    agg(json!({"type": "rare_terms", "field": "g", "sampling": {"probability": 1e308, "size": 0}})),
    agg(json!({"type": "terms", "field": "c.a", "aggs": {"s": {"type": "stats", "field": "c.v"}}})),
    // highlight corner cases
    json!({"query": "rust a", "limit": 10, "return_stored": true, "highlight": {"fields": {"body": {"fragment_size": 0, "number_of_fragments": 0}, "nope": {"fragment_size": 1, "number_of_fragments": 1000000000}, "title": {"pre_tag": "", "post_tag": "", "fragment_size": 1}}}}),
    json!({"query": "日本 é rust", "limit": 10, "return_stored": false, "highlight_field": "body", "highlight": {"fields": {"body": {"fragment_size": 1, "number_of_fragments": 1000000000}}}}),
    json!({"query": {"type": "phrase", "field": "body", "terms": ["日本日本日本", "rust"], "slop": 1000000000}, "limit": 10, "return_stored": false, "highlight": {"fields": {"body": {"fragment_size": 11, "number_of_fragments": 3}}}}),
    json!({"query": "a", "limit": 10, "return_stored": false, "highlight_field": "kw"}),
    json!({"query": "a", "limit": 10, "return_stored": false, "highlight_field": "c.a"}),
    // limits
    json!({"query": "a", "limit": 1000000000, "return_stored": true, "candidate_size": 0}),
    json!({"query": "a", "limit": 1, "return_stored": true, "candidate_size": 1000000000, "execution": "bmw", "bmw_block_size": 0}),
    json!({"query": {"type": "match_all"}, "limit": 1000000000, "return_stored": false, "sort": [{"field": "n"}]}),
    json!({"query": "a", "limit": 0, "return_stored": false}),
    // fuzzy
    json!({"query": "a rust", "limit": 10, "return_stored": false, "fuzzy": {"max_edits": 255, "prefix_length": 100, "max_expansions": 0, "min_length": 0}}),
    json!({"query": "日本 é", "limit": 10, "return_stored": false, "fuzzy": {"max_edits": 2, "prefix_length": 1, "max_expansions": 1000000000, "min_length": 0}}),
    json!({"query": {"type": "match_all"}, "limit": 1, "return_stored": false, "suggest": {"s": {"type": "completion", "field": "title", "prefix": "é", "size": 0, "fuzzy": {"max_edits": 255, "prefix_length": 9, "max_expansions": 0, "min_length": 0}}}}),
    json!({"query": {"type": "match_all"}, "limit": 1, "return_stored": false, "suggest": {"s": {"type": "completion", "field": "kw", "prefix": "", "size": 1000000000}}}),
    // boosts
    q(json!({"type": "term", "field": "body", "value": "a", "boost": 0.0})),
    q(json!({"type": "term", "field": "body", "value": "a", "boost": -1.0})),
    q(json!({"type": "term", "field": "body", "value": "a", "boost": 1e38})),
    q(json!({"type": "bool", "should": [{"type": "term", "field": "body", "value": "a", "boost": 3e38}, {"type": "term", "field": "body", "value": "b", "boost": 3e38}]})),
    q(json!({"type": "function_score", "query": {"type": "match_all"}, "functions": [], "max_boost": -1.0})),
    q(json!({"type": "function_score", "query": {"type": "term", "field": "body", "value": "a"}, "functions": [{"type": "decay", "field": "n", "origin": 0.0, "scale": 0.0}], "boost_mode": "replace"})),
    q(json!({"type": "function_score", "query": {"type": "term", "field": "body", "value": "a"}, "functions": [{"type": "decay", "field": "n", "origin": 1e308, "scale": 1e-300, "offset": -1.0, "decay": 0.0, "function": "gauss"}]})),
    q(json!({"type": "function_score", "query": {"type": "term", "field": "body", "value": "a"}, "functions": [{"type": "field_value_factor", "field": "f", "factor": 3e38, "modifier": "reciprocal"}], "score_mode": "multiply", "boost_mode": "multiply"})),
    q(json!({"type": "script_score", "query": {"type": "match_all"}, "script": "1/0"})),
    q(json!({"type": "script_score", "query": {"type": "term", "field": "body", "value": "a"}, "script": "_score / (n - n)", "params": {"n": 1.0}})),
    q(json!({"type": "script_score", "query": {"type": "match_all"}, "script": "w", "params": {"w": 1e308}})),
    q(json!({"type": "bool", "must": [], "should": [], "must_not": [{"type": "match_all"}], "minimum_should_match": 1000000000})),
    q(json!({"type": "bool", "must_not": [{"type": "term", "field": "body", "value": "a"}]})),
    q(json!({"type": "dis_max", "queries": []})),
    q(json!({"type": "phrase", "terms": []})),
    q(json!({"type": "phrase", "field": "kw", "terms": ["x"]})),
    q(json!({"type": "term", "field": "n", "value": "1"})),
    q(json!({"type": "regex", "field": "kw", "value": ".*"})),
    q(json!({"type": "prefix", "field": "body", "value": "", "max_expansions": 0})),
    q(json!({"type": "constant_score", "filter": {"And": []}})),
    q(json!({"type": "constant_score", "filter": {"Or": []}})),
    q(json!({"type": "constant_score", "filter": {"Not": {"And": []}}})),
    q(json!({"type": "constant_score", "filter": {"I64Range": {"field": "n", "min": 9223372036854775807i64, "max": -9223372036854775808i64}}})),
    q(json!({"type": "constant_score", "filter": {"Nested": {"path": "c", "filter": {"Nested": {"path": "r", "filter": {"KeywordEq": {"field": "t", "value": "u"}}}}}}})),
    q(json!({"type": "constant_score", "filter": {"Nested": {"path": "c.r", "filter": {"Nested": {"path": "c", "filter": {"KeywordEq": {"field": "a", "value": "q"}}}}}}})),
    // collapse
    json!({"query": "a", "limit": 1, "return_stored": false, "collapse": {"field": "kw", "inner_hits": {"size": 0, "from": 1000000000}}}),
    json!({"query": "a", "limit": 1, "return_stored": false, "collapse": {"field": "c.a"}}),
    json!({"query": "a", "limit": 2, "return_stored": false, "collapse": {"field": "g"}, "explain": true, "rescore": {"window_size": 0, "query": {"type": "match_all"}}}),
    // cursor + return_hits
    json!({"query": "a", "limit": 1, "return_stored": false, "return_hits": false, "cursor": "zz"}),
  ];
  // sort on every field kind
  for f in ["_score", "_id", "body", "title", "kw", "g", "n", "f", "ts", "c", "c.a", "c.v", "c.r.t", "nope", ""] {
    for o in ["asc", "desc"] {
      v.push(json!({"query": "a", "limit": 1, "return_stored": false, "sort": [{"field": f, "order": o}]}));
      v.push(json!({"query": {"type": "match_all"}, "limit": 1, "return_stored": false, "sort": [{"field": f, "order": o}, {"field": f, "order": o}], "collapse": {"field": "g"}}));
    }
  }
  v
}

/// Cursor alphabet for one index: derived from a real score cursor and a real sort cursor.
fn cursor_requests(world: &World, strings: &[(u8, String)]) -> Vec<String> {
  let strings: Vec<String> = strings.iter().filter(|s| s.0 <= 1).map(|s| s.1.clone()).collect();
  let idx = world.build();
  let reader = match idx.reader() {
    Ok(r) => r,
    Err(_) => return vec![],
  };
  let score_base = json!({"query": "a", "limit": 1, "return_stored": false});
  let sort_base = json!({"query": "a", "limit": 1, "return_stored": false, "sort": [{"field": "n", "order": "desc"}, {"field": "kw"}]});
  let sort2_base = json!({"query": {"type": "match_all"}, "limit": 1, "return_stored": false, "sort": [{"field": "f", "order": "asc"}, {"field": "_score"}]});
  let mut out: Vec<String> = Vec::new();
  let real = |b: &Value| -> Option<String> {
    let r: SearchRequest = serde_json::from_value(b.clone()).ok()?;
    vcore::catch(|| reader.search(&r)).ok()?.ok()?.next_cursor
  };
  let mut score_cursors: Vec<String> = strings.to_vec();
  let mut sort_cursors: Vec<String> = strings.to_vec();
  if let Some(c) = real(&score_base) {
    // byte-level variants of a valid score cursor: version | generation | score bits | segment | doc | returned
    score_cursors.push(c.clone());
    let set = |from: usize, hexs: &str| {
      let mut s = c.clone();
      s.replace_range(from..from + hexs.len(), hexs);
      s
    };
    for v in ["00", "02", "ff"] {
      score_cursors.push(set(0, v));
    }
    for v in ["00000000", "ffffffff"] {
      score_cursors.push(set(2, v));
    }
    for v in ["7fc00000", "7f800000", "ff800000", "80000000", "00000000", "ffffffff", "00000001"] {
      score_cursors.push(set(10, v));
    }
    for v in ["ffffffff", "00000001"] {
      score_cursors.push(set(18, v));
      score_cursors.push(set(26, v));
    }
    for v in ["00000000", "0000c350", "0000c351", "ffffffff"] {
      score_cursors.push(set(34, v));
    }
    score_cursors.push(c.to_uppercase());
    score_cursors.push(format!("{c}00"));
    score_cursors.push(c[..40].to_string());
  }
  for sb in [&sort_base, &sort2_base] {
    if let Some(c) = real(sb) {
      sort_cursors.push(c.clone());
      let bytes: Vec<u8> = (0..c.len() / 2).map(|i| u8::from_str_radix(&c[2 * i..2 * i + 2], 16).unwrap_or(0)).collect();
      if let Ok(state) = serde_json::from_slice::<Value>(&bytes) {
        let mut push = |s: Value| sort_cursors.push(hex_of(s.to_string().as_bytes()));
        let with = |k: &str, v: Value| {
          let mut s = state.clone();
          s[k] = v;
          s
        };
        push(with("values", json!([])));
        let vals = state["values"].as_array().cloned().unwrap_or_default();
        let mut more = vals.clone();
        more.extend(vals.clone());
        push(with("values", Value::Array(more)));
        push(with("values", json!(vals.iter().take(1).cloned().collect::<Vec<_>>())));
        for cv in [json!({"t": "str", "v": "x"}), json!({"t": "score", "v": 0}), json!({"t": "score", "v": 4290772992u32}), json!({"t": "missing"}), json!({"t": "f64", "v": 1e308}), json!({"t": "f64", "v": -0.0}), json!({"t": "i64", "v": i64::MIN}), json!({"t": "i64", "v": i64::MAX})] {
          push(with("values", json!(vals.iter().map(|_| cv.clone()).collect::<Vec<_>>())));
          let mut first = vals.clone();
          if !first.is_empty() {
            first[0] = cv.clone();
            push(with("values", Value::Array(first)));
          }
        }
        for r in [0u64, 50000, 50001, 4294967295] {
          push(with("returned", json!(r)));
        }
        push(with("segment_ord", json!(4294967295u32)));
        push(with("doc_id", json!(4294967295u32)));
        push(with("version", json!(1)));
        push(with("version", json!(3)));
        push(with("generation", json!(state["generation"].as_u64().unwrap_or(0) + 1)));
        push(with("plan_hash", json!(0)));
        push(json!({"version": 2}));
        push(json!([state.clone()]));
      }
      sort_cursors.push(c.to_uppercase());
      sort_cursors.push(format!("{c}0"));
      sort_cursors.push(c[..c.len() - 2].to_string());
    }
  }
  // every cursor string on every path (a score cursor on the sort path and vice versa included)
  let all: BTreeSet<String> = score_cursors.into_iter().chain(sort_cursors).collect();
  for c in &all {
    for b in [&score_base, &sort_base, &sort2_base] {
      let mut r = b.clone();
      r["cursor"] = json!(c);
      out.push(r.to_string());
    }
  }
  out
}

fn edit_alphabet(quick: bool) -> Vec<char> {
  if quick {
    vec!['"', '\\', '{', '[', ',', ':', '0', '9', '-', '.', 'e', 'é']
  } else {
    vec!['"', '\\', '{', '}', '[', ']', ',', ':', '0', '9', '-', '.', 'e', 'E', 'a', ' ', 'é', '日']
  }
}

/// All single-edit neighbours of `text` (char-level delete / duplicate / substitute).
fn edit_neighbours(text: &str, alphabet: &[char], out: &mut Vec<String>) {
  let chars: Vec<char> = text.chars().collect();
  for i in 0..chars.len() {
    let mut d: Vec<char> = chars.clone();
    d.remove(i);
    out.push(d.into_iter().collect());
    let mut d: Vec<char> = chars.clone();
    d.insert(i, chars[i]);
    out.push(d.into_iter().collect());
    for &c in alphabet {
      if c != chars[i] {
        let mut d = chars.clone();
        d[i] = c;
        out.push(d.into_iter().collect());
      }
    }
  }
}

// ---------------------------------------------------------------------------------------------
// Worker subprocess

const WORKER_KEY: &str = "c16_worker";
/// Cursor marker understood by the worker: fetch page one, then present its next_cursor.
const SECOND_PAGE: &str = "@second-page";

thread_local! {
  static PANIC_LOC: std::cell::RefCell<Option<String>> = const { std::cell::RefCell::new(None) };
}

fn truncate(s: &str, n: usize) -> String {
  if s.len() <= n {
    return s.to_string();
  }
  let mut end = n;
  while !s.is_char_boundary(end) {
    end -= 1;
  }
  format!("{}...", &s[..end])
}

fn worker(spec: &Value) -> i32 {
  // backstop against runaway allocations (the parent's resident-set guard normally fires first)
  unsafe {
    let lim = libc::rlimit { rlim_cur: 24u64 << 30, rlim_max: 24u64 << 30 };
    libc::setrlimit(libc::RLIMIT_AS, &lim);
  }
  std::panic::set_hook(Box::new(|info| {
    let loc = info.location().map(|l| format!("{}:{}", l.file(), l.line()));
    PANIC_LOC.with(|p| *p.borrow_mut() = loc);
  }));
  let spec = spec.clone();
  let handle = std::thread::Builder::new()
    .stack_size(64 << 20)
    .spawn(move || {
      let world = World::from_json(&spec["world"]);
      let idx = world.build();
      let reader = idx.reader().expect("worker: reader");
      let out = std::io::stdout();
      let reqs = spec["requests"].as_array().cloned().unwrap_or_default();
      for (i, r) in reqs.iter().enumerate() {
        let text = r.as_str().unwrap_or("");
        {
          let mut o = out.lock();
          let _ = writeln!(o, "S {i}");
          let _ = o.flush();
        }
        let t_req = Instant::now();
        let run_one = |req: &SearchRequest| -> (Value, Option<String>) {
          PANIC_LOC.with(|p| *p.borrow_mut() = None);
          match std::panic::catch_unwind(std::panic::AssertUnwindSafe(|| reader.search(req))) {
            Ok(Ok(res)) => (json!({"o": "ok", "hits": res.hits.len()}), res.next_cursor),
            Ok(Err(e)) => (json!({"o": "err", "m": truncate(&format!("{e:#}"), 200)}), None),
            Err(p) => {
              let msg = if let Some(s) = p.downcast_ref::<&str>() {
                s.to_string()
              } else if let Some(s) = p.downcast_ref::<String>() {
                s.clone()
              } else {
                "<non-string panic>".to_string()
              };
              (json!({"o": "panic", "m": truncate(&msg, 400), "loc": PANIC_LOC.with(|p| p.borrow().clone())}), None)
            }
          }
        };
        let mut res = match serde_json::from_str::<SearchRequest>(text) {
          Err(e) => json!({"o": "undeserializable", "m": truncate(&e.to_string(), 200)}),
          Ok(mut req) => {
            if req.cursor.as_deref() == Some(SECOND_PAGE) {
              // "second page": run the request without a cursor, then again with the cursor it returned
              req.cursor = None;
              let (first, next) = run_one(&req);
              match next {
                Some(c) if first["o"] == json!("ok") => {
                  req.cursor = Some(c);
                  let (mut second, _) = run_one(&req);
                  if second["o"] == json!("panic") {
                    second["m"] = json!(format!("[on the second page, cursor taken from the first] {}", second["m"].as_str().unwrap_or("")));
                  }
                  second
                }
                _ => first,
              }
            } else {
              run_one(&req).0
            }
          }
        };
        res["ms"] = json!(t_req.elapsed().as_secs_f64() * 1000.0);
        let mut o = out.lock();
        let _ = writeln!(o, "D {i} {res}");
        let _ = o.flush();
      }
      let mut o = out.lock();
      let _ = writeln!(o, "E");
      let _ = o.flush();
    })
    .expect("spawn worker thread");
  match handle.join() {
    Ok(()) => 0,
    Err(_) => 2,
  }
}

// ---------------------------------------------------------------------------------------------
// Parent side: run a list of requests against one world inside workers

#[derive(Clone, Debug, PartialEq)]
enum Outcome {
  Ok,
  Err(String),
  Undeserializable,
  Panic { msg: String, loc: String },
  Hang(String),
  Died(String),
  NotRun,
}

fn rss_bytes(pid: u32) -> u64 {
  std::fs::read_to_string(format!("/proc/{pid}/statm")).ok().and_then(|s| s.split_whitespace().nth(1).and_then(|x| x.parse::<u64>().ok())).map(|p| p * 4096).unwrap_or(0)
}

/// CPU seconds (user + system, all threads) consumed so far by process `pid`.
fn cpu_seconds(pid: u32) -> f64 {
  let Ok(stat) = std::fs::read_to_string(format!("/proc/{pid}/stat")) else { return 0.0 };
  // fields after the parenthesised command name: state is field 3, utime 14, stime 15
  let Some(rest) = stat.rfind(')').map(|i| &stat[i + 1..]) else { return 0.0 };
  let f: Vec<&str> = rest.split_whitespace().collect();
  let ticks: u64 = f.get(11).and_then(|x| x.parse::<u64>().ok()).unwrap_or(0) + f.get(12).and_then(|x| x.parse::<u64>().ok()).unwrap_or(0);
  let hz = unsafe { libc::sysconf(libc::_SC_CLK_TCK) }.max(1) as f64;
  ticks as f64 / hz
}

enum Line {
  S(usize),
  D(usize, Value),
  E,
}

struct RunCfg {
  tier: &'static str,
  timeout: Duration,
  rss_guard: u64,
  scratch: std::path::PathBuf,
}

static BATCH_SEQ: AtomicUsize = AtomicUsize::new(0);

/// Run `requests` (texts) against `world`; returns one outcome per request.
fn run_job(cfg: &RunCfg, world: &Value, requests: &[&str], stop: &AtomicBool) -> Vec<Outcome> {
  let mut results = vec![Outcome::NotRun; requests.len()];
  let mut pos = 0usize;
  let exe = std::env::current_exe().expect("current_exe");
  while pos < requests.len() && !stop.load(Ordering::Relaxed) {
    let file = cfg.scratch.join(format!("batch{}.json", BATCH_SEQ.fetch_add(1, Ordering::Relaxed)));
    std::fs::write(&file, json!({WORKER_KEY: {"world": world, "requests": requests[pos..]}}).to_string()).expect("write batch file");
    let err_path = file.with_extension("err");
    let err_file = std::fs::File::create(&err_path).expect("create worker stderr file");
    let mut child = Command::new(&exe)
      .args(["C16", cfg.tier, "--replay"])
      .arg(&file)
      .stdin(Stdio::null())
      .stdout(Stdio::piped())
      .stderr(Stdio::from(err_file))
      .spawn()
      .unwrap_or_else(|e| vcore::ev::machinery_failure(&format!("C16: cannot spawn worker: {e}")));
    let pid = child.id();
    let stdout = child.stdout.take().unwrap();
    let (tx, rx) = mpsc::channel::<Line>();
    let reader = std::thread::spawn(move || {
      for line in BufReader::new(stdout).lines() {
        let Ok(line) = line else { break };
        let msg = if let Some(rest) = line.strip_prefix("S ") {
          rest.trim().parse().ok().map(Line::S)
        } else if let Some(rest) = line.strip_prefix("D ") {
          let mut it = rest.splitn(2, ' ');
          let i = it.next().and_then(|x| x.parse().ok());
          let v = it.next().and_then(|x| serde_json::from_str(x).ok());
          match (i, v) {
            (Some(i), Some(v)) => Some(Line::D(i, v)),
            _ => None,
          }
        } else if line.trim() == "E" {
          Some(Line::E)
        } else {
          None
        };
        if let Some(m) = msg {
          if tx.send(m).is_err() {
            break;
          }
        }
      }
    });
    let started_child = Instant::now();
    // (request index, wall start, worker CPU seconds at start, last time the CPU counter moved, last CPU value)
    let mut cur: Option<(usize, Instant, f64)> = None;
    let mut last_cpu_move = (Instant::now(), 0.0f64);
    let mut finished = false;
    let mut advanced_to = pos;
    loop {
      match rx.recv_timeout(Duration::from_millis(25)) {
        Ok(Line::S(i)) => {
          let c = cpu_seconds(pid);
          cur = Some((i, Instant::now(), c));
          last_cpu_move = (Instant::now(), c);
        }
        Ok(Line::D(i, v)) => {
          let o = match v["o"].as_str().unwrap_or("") {
            "ok" => Outcome::Ok,
            "err" => Outcome::Err(v["m"].as_str().unwrap_or("").to_string()),
            "undeserializable" => Outcome::Undeserializable,
            "panic" => Outcome::Panic { msg: v["m"].as_str().unwrap_or("").to_string(), loc: v["loc"].as_str().unwrap_or("?").to_string() },
            other => Outcome::Died(format!("worker protocol error: {other}")),
          };
          if v["ms"].as_f64().unwrap_or(0.0) > 200.0 && std::env::var("VERIF_C16_TRACE").is_ok() {
            eprintln!("slow {:.0} ms: {}", v["ms"].as_f64().unwrap_or(0.0), truncate(requests[pos + i], 300));
          }
          results[pos + i] = o;
          advanced_to = pos + i + 1;
          cur = None;
        }
        Ok(Line::E) => finished = true,
        Err(mpsc::RecvTimeoutError::Timeout) => {
          if let Some((i, t0, cpu0)) = cur {
            let rss = rss_bytes(pid);
            let cpu = cpu_seconds(pid);
            if cpu > last_cpu_move.1 + 0.05 {
              last_cpu_move = (Instant::now(), cpu);
            }
            // The watchdog counts the worker's own CPU time, so an overloaded machine cannot fake a
            // hang; a request that burns no CPU at all for 60 s of wall time is blocked.
            let over_time = cpu - cpu0 > cfg.timeout.as_secs_f64();
            let blocked = t0.elapsed() > Duration::from_secs(60) && last_cpu_move.0.elapsed() > Duration::from_secs(60);
            if over_time || blocked || rss > cfg.rss_guard {
              unsafe {
                libc::kill(pid as i32, libc::SIGKILL);
              }
              let _ = child.wait();
              results[pos + i] = Outcome::Hang(if over_time {
                format!("no result after {:.1} s of CPU time ({:.1} s wall; worker resident set {} MiB when killed)", cpu - cpu0, t0.elapsed().as_secs_f64(), rss >> 20)
              } else if blocked {
                format!("no result and no CPU progress for 60 s ({:.1} s wall)", t0.elapsed().as_secs_f64())
              } else {
                format!("worker resident set grew to {} MiB within {:.1} s ({:.1} s CPU) without a result (killed by the memory guard)", rss >> 20, t0.elapsed().as_secs_f64(), cpu - cpu0)
              });
              advanced_to = pos + i + 1;
              break;
            }
          } else if !finished && started_child.elapsed() > Duration::from_secs(600) && advanced_to == pos {
            unsafe {
              libc::kill(pid as i32, libc::SIGKILL);
            }
            let _ = child.wait();
            vcore::ev::machinery_failure("C16: worker produced no output for 600 s");
          }
        }
        Err(mpsc::RecvTimeoutError::Disconnected) => {
          let status = child.wait().ok();
          if let Some((i, _, _)) = cur {
            use std::os::unix::process::ExitStatusExt;
            let how = status.map(|s| match s.signal() {
              Some(sig) => format!("worker process killed by signal {sig} (6 = abort, 11 = segfault / stack overflow)"),
              None => format!("worker process exited with {:?}", s.code()),
            });
            let tail = std::fs::read_to_string(&err_path).unwrap_or_default();
            let tail = tail
              .lines()
              .find(|l| l.contains("memory allocation of") || l.contains("overflowed its stack") || l.contains("panicked"))
              .or_else(|| tail.trim().lines().last())
              .unwrap_or("")
              .to_string();
            results[pos + i] = Outcome::Died(format!("{}; worker stderr: {:?}", how.unwrap_or_else(|| "worker died".into()), truncate(&tail, 160)));
            advanced_to = pos + i + 1;
          } else if !finished {
            vcore::ev::machinery_failure(&format!("C16: worker exited between requests without finishing (status {status:?})"));
          }
          break;
        }
      }
    }
    let _ = reader.join();
    let _ = std::fs::remove_file(&file);
    let _ = std::fs::remove_file(&err_path);
    if finished && cur.is_none() {
      break;
    }
    if advanced_to == pos {
      vcore::ev::machinery_failure("C16: worker made no progress");
    }
    pos = advanced_to;
  }
  results
}

// ---------------------------------------------------------------------------------------------
// Classification of failures

fn request_has_nonascii_cursor(req: &Value) -> bool {
  req["cursor"].as_str().map(|c| !c.is_ascii()).unwrap_or(false)
}

/// score fast path = no sort keys, or a single `_score` key in descending (default) order
fn is_score_fast_path(req: &Value) -> bool {
  match req["sort"].as_array() {
    None => true,
    Some(a) if a.is_empty() => true,
    Some(a) => a.len() == 1 && a[0]["field"] == json!("_score") && a[0]["order"] != json!("asc"),
  }
}

fn find_aggs<'a>(v: &'a Value, out: &mut Vec<&'a Value>) {
  match v {
    Value::Object(m) => {
      if m.get("type").map(|t| t.is_string()).unwrap_or(false) {
        out.push(v);
      }
      for c in m.values() {
        find_aggs(c, out);
      }
    }
    Value::Array(a) => {
      for c in a {
        find_aggs(c, out);
      }
    }
    _ => {}
  }
}

/// A numeric histogram whose bounds span more than 10^8 intervals.
#[allow(dead_code)]
fn has_exploding_histogram_bounds(req: &Value) -> bool {
  let mut nodes = Vec::new();
  find_aggs(&req["aggs"], &mut nodes);
  nodes.iter().any(|n| {
    if n["type"] != json!("histogram") {
      return false;
    }
    let iv = n["interval"].as_f64().unwrap_or(0.0);
    ["extended_bounds", "hard_bounds"].iter().any(|b| {
      let (lo, hi) = (n[*b]["min"].as_f64(), n[*b]["max"].as_f64());
      match (lo, hi) {
        (Some(lo), Some(hi)) => iv > 0.0 && ((hi - lo) / iv > 1e8 || !((hi - lo) / iv).is_finite()),
        _ => false,
      }
    })
  })
}

fn classify(req_text: &str, o: &Outcome) -> Option<&'static str> {
  let req: Value = serde_json::from_str(req_text).unwrap_or(Value::Null);
  match o {
    Outcome::Panic { msg, loc } => {
      if loc.contains("api/reader.rs") && msg.contains("Utf8Error") && request_has_nonascii_cursor(&req) {
        return Some(if is_score_fast_path(&req) { "C16-cursor-decode-multibyte-panic" } else { "C16-hex-decode-multibyte-panic" });
      }
      if loc.contains("api/reader.rs") && msg.contains("Inconsistent leaf for term key") {
        return Some("C16-duplicate-term-leaf-assert");
      }
      None
    }
    _ => None,
  }
}

/// Apply `f` to every JSON object whose "type" equals `ty`.
fn for_each_typed(v: &mut Value, ty: &str, f: &dyn Fn(&mut serde_json::Map<String, Value>)) {
  match v {
    Value::Object(m) => {
      if m.get("type").and_then(|t| t.as_str()) == Some(ty) {
        f(m);
      }
      for c in m.values_mut() {
        for_each_typed(c, ty, f);
      }
    }
    Value::Array(a) => {
      for c in a {
        for_each_typed(c, ty, f);
      }
    }
    _ => {}
  }
}

fn has_typed(v: &Value, ty: &str, pred: &dyn Fn(&serde_json::Map<String, Value>) -> bool) -> bool {
  match v {
    Value::Object(m) => (m.get("type").and_then(|t| t.as_str()) == Some(ty) && pred(m)) || m.values().any(|c| has_typed(c, ty, pred)),
    Value::Array(a) => a.iter().any(|c| has_typed(c, ty, pred)),
    _ => false,
  }
}

/// Hypotheses for failures the message alone does not explain: (signature, neutralized requests).
/// A failure is attributed to the signature when the outcome kind fits and at least one neutralized
/// request (the same request with only the suspected feature removed) returns normally.
fn hypotheses(req_text: &str, o: &Outcome) -> Vec<(&'static str, Vec<String>)> {
  let Ok(req) = serde_json::from_str::<Value>(req_text) else { return vec![] };
  let aggs = &req["aggs"];
  let is_hang = matches!(o, Outcome::Hang(_));
  let is_add_overflow = matches!(o, Outcome::Panic { msg, loc } if loc.contains("query/aggs/mod.rs") && msg.contains("attempt to add with overflow"));
  let is_alloc = match o {
    Outcome::Hang(_) => true,
    Outcome::Died(m) => m.contains("memory allocation of"),
    Outcome::Panic { msg, .. } => msg.contains("capacity overflow"),
    _ => false,
  };
  let has_bounds = |m: &serde_json::Map<String, Value>| m.contains_key("extended_bounds") || m.contains_key("hard_bounds");
  let strip_bounds = |ty: &'static str| -> String {
    let mut r = req.clone();
    for_each_typed(&mut r["aggs"], ty, &|m| {
      m.remove("extended_bounds");
      m.remove("hard_bounds");
    });
    r.to_string()
  };
  let mut out: Vec<(&'static str, Vec<String>)> = Vec::new();
  if (is_hang || is_add_overflow) && has_typed(aggs, "histogram", &has_bounds) {
    out.push((if is_hang { "C16-histogram-bounds-unbounded-buckets" } else { "C16-histogram-bounds-bucket-id-overflow" }, vec![strip_bounds("histogram")]));
  }
  if (is_hang || is_add_overflow) && has_typed(aggs, "date_histogram", &has_bounds) {
    out.push((if is_hang { "C16-date-histogram-bounds-unbounded-buckets" } else { "C16-date-histogram-arith-overflow" }, vec![strip_bounds("date_histogram")]));
  }
  if is_add_overflow && has_typed(aggs, "date_histogram", &|m| m.contains_key("offset")) {
    let mut r = req.clone();
    for_each_typed(&mut r["aggs"], "date_histogram", &|m| {
      m.remove("offset");
    });
    out.push(("C16-date-histogram-arith-overflow", vec![r.to_string()]));
  }
  if is_alloc && has_typed(aggs, "moving_avg", &|m| m.get("predict").and_then(|p| p.as_f64()).map(|p| p >= 1e6).unwrap_or(false)) {
    let mut r = req.clone();
    for_each_typed(&mut r["aggs"], "moving_avg", &|m| {
      m.insert("predict".into(), json!(1));
    });
    out.push(("C16-moving-avg-predict-unbounded", vec![r.to_string()]));
  }
  if is_alloc && has_typed(aggs, "top_hits", &|m| ["size", "from"].iter().any(|k| m.get(*k).and_then(|p| p.as_f64()).map(|p| p >= 1e6).unwrap_or(false))) {
    let mut r = req.clone();
    for_each_typed(&mut r["aggs"], "top_hits", &|m| {
      m.insert("size".into(), json!(1));
      m.insert("from".into(), json!(0));
    });
    out.push(("C16-top-hits-size-unbounded", vec![r.to_string()]));
  }
  out
}

/// Signature of one failure: by message where that suffices, else by experiment.
fn attribute(cfg: &RunCfg, world: &Value, text: &str, o: &Outcome, stop: &AtomicBool) -> Option<&'static str> {
  if let Some(s) = classify(text, o) {
    return Some(s);
  }
  for (sig, neutral) in hypotheses(text, o) {
    let refs: Vec<&str> = neutral.iter().map(|s| s.as_str()).collect();
    let outs = run_job(cfg, world, &refs, stop);
    if outs.iter().any(|x| matches!(x, Outcome::Ok | Outcome::Err(_))) {
      return Some(sig);
    }
  }
  None
}

fn failure_key(o: &Outcome) -> Option<String> {
  match o {
    Outcome::Panic { msg, loc } => {
      let m = match msg.find("Inconsistent leaf for term key") {
        Some(i) => msg[..i + "Inconsistent leaf for term key".len()].to_string(),
        None => truncate(msg.lines().next().unwrap_or(""), 80),
      };
      // line numbers move with every edit of the file: keep the file only
      let file = loc.rsplit_once(':').map(|x| x.0).unwrap_or(loc);
      Some(format!("panic in {file}: {m}"))
    }
    Outcome::Hang(_) => Some("hang".to_string()),
    Outcome::Died(m) => Some(format!("died: {}", truncate(m.split(';').next().unwrap_or(""), 60))),
    _ => None,
  }
}

/// Every request obtained by deleting one object key or one array element, biggest deletion first.
fn removal_candidates(v: &Value) -> Vec<String> {
  let mut paths = Vec::new();
  all_paths(v, &mut Vec::new(), &mut paths);
  let mut out: Vec<(usize, String)> = Vec::new();
  for p in paths {
    let (parent, last) = p.split_at(p.len() - 1);
    let mut c = v.clone();
    let removed = {
      let slot = at(&mut c, parent);
      match (&last[0], slot) {
        (Seg::K(k), Value::Object(m)) => m.remove(k.as_str()),
        (Seg::I(i), Value::Array(a)) => Some(a.remove(*i)),
        _ => None,
      }
    };
    if let Some(r) = removed {
      let t = c.to_string();
      if serde_json::from_str::<SearchRequest>(&t).is_ok() {
        out.push((r.to_string().len(), t));
      }
    }
  }
  out.sort_by(|a, b| b.0.cmp(&a.0));
  out.into_iter().map(|x| x.1).collect()
}

/// Greedy reduction of a failing request: repeatedly delete the biggest part whose deletion keeps
/// the same failure class (and the same signature). Returns the reduced request and its outcome.
fn minimize(cfg: &RunCfg, world: &Value, text: &str, outcome: &Outcome, one_at_a_time: bool, budget: Duration, stop: &AtomicBool) -> (String, Outcome) {
  let t0 = Instant::now();
  let class = failure_key(outcome);
  let mut cur = (text.to_string(), outcome.clone());
  loop {
    if t0.elapsed() > budget {
      break;
    }
    let Ok(v) = serde_json::from_str::<Value>(&cur.0) else { break };
    let cands = removal_candidates(&v);
    let mut next: Option<(String, Outcome)> = None;
    let same = |_t: &str, o: &Outcome| failure_key(o) == class;
    if one_at_a_time {
      for c in &cands {
        if t0.elapsed() > budget {
          break;
        }
        let o = run_job(cfg, world, &[c.as_str()], stop).pop().unwrap();
        if same(c, &o) {
          next = Some((c.clone(), o));
          break;
        }
      }
    } else {
      let refs: Vec<&str> = cands.iter().map(|c| c.as_str()).collect();
      let outs = run_job(cfg, world, &refs, stop);
      if let Some(k) = (0..cands.len()).find(|&k| same(&cands[k], &outs[k])) {
        next = Some((cands[k].clone(), outs[k].clone()));
      }
    }
    match next {
      Some(n) => cur = n,
      None => break,
    }
  }
  cur
}

fn describe(o: &Outcome) -> String {
  match o {
    Outcome::Panic { msg, loc } => format!("search panicked at {loc}: {msg}"),
    Outcome::Hang(m) => format!("search did not return: {m}"),
    Outcome::Died(m) => format!("search killed its process: {m}"),
    other => format!("{other:?}"),
  }
}

pub fn run(ctx: &Ctx) -> i32 {
  // worker mode: `--replay <batch file>` whose top-level key is WORKER_KEY
  let replay_json: Option<Value> = ctx.replay.as_ref().map(|p| serde_json::from_slice(&std::fs::read(p).expect("replay file")).expect("json"));
  if let Some(v) = &replay_json {
    if let Some(spec) = v.get(WORKER_KEY) {
      return worker(spec);
    }
  }
  let mut rep = Reporter::new("C16", ctx.tier, "exploration");
  let quick = ctx.tier.is_quick();
  let scratch = Scratch::new("c16");
  let cfg = RunCfg {
    tier: ctx.tier.name(),
    timeout: Duration::from_secs(if quick { 2 } else { 10 }),
    rss_guard: 3u64 << 30,
    scratch: scratch.path.clone(),
  };
  let stop = AtomicBool::new(false);
  if let (Some(path), Some(v)) = (&ctx.replay, &replay_json) {
    rep.set_replaying(true);
    let cs = &v["case"];
    let text = cs["request_text"].as_str().expect("request_text").to_string();
    let once = || run_job(&cfg, &cs["world"], &[text.as_str()], &stop).pop().unwrap();
    let (a, b) = (once(), once());
    let bad = |o: &Outcome| failure_key(o).is_some();
    if bad(&a) != bad(&b) {
      vcore::ev::machinery_failure("NONDETERMINISM on replay");
    }
    return if bad(&a) {
      println!("VIOLATION property=C16 replay={path}\n  what: {}", describe(&a));
      1
    } else {
      println!("replay: no violation ({a:?})");
      0
    };
  }

  // ---- enumerate requests -------------------------------------------------------------------
  let strings = nasty_strings(quick);
  let numbers = nasty_numbers(quick);
  let base_list = bases();
  // core = base requests + hand-written extras; structured = single-location substitutions
  let mut core: Vec<String> = Vec::new();
  for (_, b) in &base_list {
    core.push(b.to_string());
  }
  let n_bases = core.len();
  for e in extras() {
    core.push(e.to_string());
  }
  let n_extras = core.len() - n_bases;
  // feature interactions: quick all combinations of <= 3 non-default features on the two-segment
  // index and <= 2 on the empty index; thorough <= 4 on the two-segment index, <= 3 elsewhere
  let (inter_hi, inter_hi_arity) = interaction_family(if quick { 3 } else { 4 });
  let (inter_lo, inter_lo_arity) = interaction_family(if quick { 2 } else { 3 });
  let aggfam: Vec<String> = agg_family(quick).iter().map(|r| r.to_string()).collect();
  let n_aggfam = aggfam.len();
  let boundary: Vec<String> = boundary_requests().iter().map(|r| r.to_string()).collect();
  let n_boundary = boundary.len();
  let mut structured: Vec<String> = Vec::new();
  for (_, b) in &base_list {
    structured_variants(b, &strings, !quick, &numbers, &mut structured);
  }
  let n_structured = structured.len();
  let mut edits: Vec<String> = Vec::new();
  let alphabet = edit_alphabet(quick);
  for (_, b) in &base_list {
    edit_neighbours(&b.to_string(), &alphabet, &mut edits);
  }
  let n_edit_candidates = edits.len();
  // keep what deserializes; dedupe by the parsed request
  let mut seen: HashSet<String> = HashSet::new();
  let keep = |texts: Vec<String>, seen: &mut HashSet<String>| -> Vec<String> {
    use rayon::prelude::*;
    let parsed: Vec<Option<String>> = texts.par_iter().map(|t| serde_json::from_str::<SearchRequest>(t).ok().and_then(|r| serde_json::to_string(&r).ok())).collect();
    let mut out = Vec::new();
    for (t, k) in texts.into_iter().zip(parsed) {
      if let Some(k) = k {
        if seen.insert(k) {
          out.push(t);
        }
      }
    }
    out
  };
  let core = keep(core, &mut seen);
  // (the two interaction lists overlap by construction: deduplicate each on its own)
  let inter_hi = keep(inter_hi, &mut seen.clone());
  let inter_lo = keep(inter_lo, &mut seen.clone());
  let aggfam = keep(aggfam, &mut seen);
  let boundary = keep(boundary, &mut seen);
  let structured = keep(structured, &mut seen);
  let edits = keep(edits, &mut seen);

  let worlds = indexes();
  // base requests must be meaningful: Ok on index 0
  {
    let idx = worlds[0].build();
    let reader = idx.reader().expect("reader");
    for (name, b) in &base_list {
      let r: SearchRequest = serde_json::from_value(b.clone()).unwrap_or_else(|e| vcore::ev::machinery_failure(&format!("C16: base request `{name}` does not deserialize: {e}")));
      match vcore::catch(|| reader.search(&r)) {
        Ok(Ok(_)) => {}
        Ok(Err(e)) => vcore::ev::machinery_failure(&format!("C16: base request `{name}` is rejected on index 0: {e:#}")),
        Err(p) => eprintln!("note: base request `{name}` panics on index 0: {p}"),
      }
    }
  }

  if std::env::var("VERIF_C16_TRACE").is_ok() {
    eprintln!("enumeration done at {:.1}s", rep.elapsed_s());
  }
  // ---- jobs: (world, chunk of requests) ------------------------------------------------------
  struct Job {
    world: usize,
    reqs: Vec<usize>,
  }
  // Per index: core + cursor alphabet (priority 0), structured variants (priority 1; quick: on the
  // two-segment index only), text edits (priority 2; quick: two-segment index only).
  let mut per_world_texts: Vec<Vec<String>> = Vec::new();
  let mut cursor_counts = Vec::new();
  let mut jobs: Vec<(u8, u32, Job)> = Vec::new();
  let chunk = 300usize;
  for (wi, w) in worlds.iter().enumerate() {
    let mut texts: Vec<String> = Vec::new();
    let mut add_part = |prio: u8, chunk: usize, part: Vec<String>, texts: &mut Vec<String>| {
      let from = texts.len();
      texts.extend(part);
      // round-robin, so that slow or hanging variants of one base request spread over all workers
      let n = texts.len() - from;
      let njobs = n.div_ceil(chunk).max(1);
      let mut buckets: Vec<Vec<usize>> = vec![Vec::new(); njobs];
      for k in 0..n {
        buckets[k % njobs].push(from + k);
      }
      // every family advances proportionally: a job is ordered by the fraction of its family it
      // starts at, so a run that is cut short by the wall budget has seen a slice of every family
      for (k, b) in buckets.into_iter().enumerate().filter(|(_, b)| !b.is_empty()) {
        jobs.push((prio, (k * 10_000 / njobs) as u32, Job { world: wi, reqs: b }));
      }
    };
    let mut local_seen = seen.clone();
    let cur = keep(cursor_requests(w, &strings), &mut local_seen);
    cursor_counts.push(cur.len());
    // structural aggregation family first, so that a wall cap cannot skip it (quick: the
    // two-segment index and the empty index; thorough: all)
    if wi == 1 {
      add_part(0, 100, inter_hi.clone(), &mut texts);
    } else if !quick || wi == 2 {
      add_part(0, 100, inter_lo.clone(), &mut texts);
    }
    if !quick || wi >= 1 {
      add_part(0, 100, aggfam.clone(), &mut texts);
    }
    // the hand-written extras contain most of the hanging requests: small jobs spread them
    add_part(0, 12, core.clone(), &mut texts);
    add_part(0, 120, cur, &mut texts);
    // UTF-8 boundary requests: quick on the two indexes that have segments, thorough on all
    if !quick || wi <= 1 {
      add_part(0, 100, boundary.clone(), &mut texts);
    }
    if !quick || wi == 1 {
      add_part(1, chunk, structured.clone(), &mut texts);
    }
    if !quick || wi == 1 {
      add_part(2, chunk, edits.clone(), &mut texts);
    }
    per_world_texts.push(texts);
  }
  jobs.sort_by_key(|j| (j.0, j.1));
  let jobs: Vec<Job> = jobs.into_iter().map(|j| j.2).collect();
  let world_json: Vec<Value> = worlds.iter().map(|w| w.to_json()).collect();
  let results: Vec<Mutex<Vec<Outcome>>> = per_world_texts.iter().map(|t| Mutex::new(vec![Outcome::NotRun; t.len()])).collect();
  let next = AtomicUsize::new(0);
  // wall budget of the sweep; never less than 8 s after the enumeration finished, so that an
  // overloaded machine still runs the priority-0 jobs instead of producing nothing
  let deadline = (if quick { 20.0f64 } else { 600.0f64 }).max(rep.elapsed_s() + 8.0);
  let hangs = AtomicUsize::new(0);
  std::thread::scope(|s| {
    for _ in 0..vcore::threads().max(2) {
      s.spawn(|| loop {
        let j = next.fetch_add(1, Ordering::Relaxed);
        if j >= jobs.len() || stop.load(Ordering::Relaxed) {
          break;
        }
        if rep.elapsed_s() > deadline {
          stop.store(true, Ordering::Relaxed);
          break;
        }
        let job = &jobs[j];
        let texts: Vec<&str> = job.reqs.iter().map(|&i| per_world_texts[job.world][i].as_str()).collect();
        let t0 = Instant::now();
        let out = run_job(&cfg, &world_json[job.world], &texts, &stop);
        if std::env::var("VERIF_C16_TRACE").is_ok() {
          eprintln!("job {j} world {} n={} took {:.2}s hangs={}", job.world, texts.len(), t0.elapsed().as_secs_f64(), out.iter().filter(|o| matches!(o, Outcome::Hang(_))).count());
        }
        let mut r = results[job.world].lock();
        for (k, o) in out.into_iter().enumerate() {
          if matches!(o, Outcome::Hang(_)) {
            hangs.fetch_add(1, Ordering::Relaxed);
          }
          r[job.reqs[k]] = o;
        }
      });
    }
  });
  let capped = stop.load(Ordering::Relaxed);
  let trace = std::env::var("VERIF_C16_TRACE").is_ok();
  if trace {
    eprintln!("sweep done at {:.1}s", rep.elapsed_s());
  }
  // A hang verdict must not depend on the contention the sweep itself creates (16 workers share
  // caches and hyper-threads, which inflates the CPU time of a 0.7 s request past the watchdog):
  // every request that hit the watchdog is run again with at most 4 workers active, and only a
  // second watchdog hit counts as a hang; otherwise the outcome of the re-run is recorded.
  let mut hang_candidates: Vec<(usize, usize)> = Vec::new();
  for (wi, r) in results.iter().enumerate() {
    for (ri, o) in r.lock().iter().enumerate() {
      if matches!(o, Outcome::Hang(_)) {
        hang_candidates.push((wi, ri));
      }
    }
  }
  let n_hang_candidates = hang_candidates.len();
  let hang_unconfirmed = AtomicUsize::new(0);
  // The confirming run also gets five times the CPU budget: a request that merely is expensive
  // (0.7 s alone, a multiple of that when other processes compete for caches and hyper-threads)
  // must never be reported as a hang; a real non-terminating request still is.
  let confirm_cfg = RunCfg { tier: cfg.tier, timeout: cfg.timeout * 5, rss_guard: cfg.rss_guard, scratch: cfg.scratch.clone() };
  {
    let go = AtomicBool::new(false);
    let nh = AtomicUsize::new(0);
    std::thread::scope(|s| {
      for _ in 0..4 {
        s.spawn(|| loop {
          let k = nh.fetch_add(1, Ordering::Relaxed);
          if k >= hang_candidates.len() {
            break;
          }
          let (wi, ri) = hang_candidates[k];
          let o = run_job(&confirm_cfg, &world_json[wi], &[per_world_texts[wi][ri].as_str()], &go).pop().unwrap();
          if !matches!(o, Outcome::Hang(_)) {
            hang_unconfirmed.fetch_add(1, Ordering::Relaxed);
            if trace {
              eprintln!("watchdog hit not confirmed in isolation ({o:?}): {}", truncate(&per_world_texts[wi][ri], 300));
            }
            results[wi].lock()[ri] = o;
          }
        });
      }
    });
  }
  if trace {
    eprintln!("hang confirmation done at {:.1}s ({} candidates, {} not confirmed)", rep.elapsed_s(), n_hang_candidates, hang_unconfirmed.load(Ordering::Relaxed));
  }

  // ---- judge ---------------------------------------------------------------------------------
  let mut counts: BTreeMap<&'static str, u64> = BTreeMap::new();
  let mut err_kinds: BTreeSet<String> = BTreeSet::new();
  let mut failures: Vec<(usize, usize, Outcome)> = Vec::new();
  let mut evals = 0u64;
  for (wi, r) in results.iter().enumerate() {
    for (ri, o) in r.lock().iter().enumerate() {
      let k = match o {
        Outcome::Ok => "ok",
        Outcome::Err(m) => {
          err_kinds.insert(truncate(m, 40));
          "err"
        }
        Outcome::Undeserializable => "undeserializable",
        Outcome::Panic { .. } => "panic",
        Outcome::Hang(_) => "hang",
        Outcome::Died(_) => "died",
        Outcome::NotRun => "not-run",
      };
      *counts.entry(k).or_insert(0) += 1;
      if !matches!(o, Outcome::NotRun) {
        evals += 1;
      }
      if failure_key(o).is_some() {
        failures.push((wi, ri, o.clone()));
      }
    }
  }
  rep.add_evals(evals);
  // report the shortest witness of every failure class first
  failures.sort_by_key(|(wi, ri, _)| (per_world_texts[*wi][*ri].len(), *wi));
  // signatures: by message where that suffices, else by experiment (neutralized requests, batched)
  let go = AtomicBool::new(false);
  // a neutralized request that is going to return does so within milliseconds: a short watchdog
  // keeps refuted hypotheses cheap
  let exp_cfg = RunCfg { tier: cfg.tier, timeout: Duration::from_millis(500), rss_guard: cfg.rss_guard, scratch: cfg.scratch.clone() };
  let mut sigs: Vec<Option<&'static str>> = failures.iter().map(|(wi, ri, o)| classify(&per_world_texts[*wi][*ri], o)).collect();
  {
    let hyps: Vec<Vec<(&'static str, Vec<String>)>> = failures
      .iter()
      .zip(&sigs)
      .map(|((wi, ri, o), s)| if s.is_some() { vec![] } else { hypotheses(&per_world_texts[*wi][*ri], o) })
      .collect();
    let mut neutral_jobs: Vec<(usize, Vec<String>)> = Vec::new();
    for wi in 0..worlds.len() {
      let set: BTreeSet<String> = failures.iter().zip(&hyps).filter(|(f, _)| f.0 == wi).flat_map(|(_, h)| h.iter().flat_map(|x| x.1.iter().cloned())).collect();
      let list: Vec<String> = set.into_iter().collect();
      for c in list.chunks(25) {
        neutral_jobs.push((wi, c.to_vec()));
      }
    }
    let passed: Mutex<HashSet<(usize, String)>> = Mutex::new(HashSet::new());
    let nj = AtomicUsize::new(0);
    std::thread::scope(|sc| {
      for _ in 0..vcore::threads().max(2) {
        sc.spawn(|| loop {
          let j = nj.fetch_add(1, Ordering::Relaxed);
          if j >= neutral_jobs.len() {
            break;
          }
          let (wi, list) = &neutral_jobs[j];
          let refs: Vec<&str> = list.iter().map(|x| x.as_str()).collect();
          let outs = run_job(&exp_cfg, &world_json[*wi], &refs, &go);
          let mut p = passed.lock();
          for (t, o) in list.iter().zip(outs) {
            if matches!(o, Outcome::Ok | Outcome::Err(_)) {
              p.insert((*wi, t.clone()));
            }
          }
        });
      }
    });
    let passed = passed.into_inner();
    for (k, h) in hyps.iter().enumerate() {
      if sigs[k].is_none() {
        let wi = failures[k].0;
        sigs[k] = h.iter().find(|(_, neutral)| neutral.iter().any(|t| passed.contains(&(wi, t.clone())))).map(|x| x.0);
      }
    }
  }
  if trace {
    eprintln!("attribution done at {:.1}s", rep.elapsed_s());
  }
  let mut class_counts: BTreeMap<String, u64> = BTreeMap::new();
  let mut first_of_class: Vec<usize> = Vec::new();
  let mut rest: Vec<usize> = Vec::new();
  for (k, (_, _, o)) in failures.iter().enumerate() {
    let key = format!("{} [{}]", failure_key(o).unwrap(), sigs[k].unwrap_or("-"));
    let e = class_counts.entry(key).or_insert(0);
    if *e == 0 {
      first_of_class.push(k);
    } else {
      rest.push(k);
    }
    *e += 1;
  }
  // reduce the first witness of every class (hang classes only in the thorough tier: every
  // confirming trial costs a full watchdog period); the signature is re-derived for the reduced request
  let minimized: Vec<Option<(String, Outcome, Option<&'static str>)>> = std::thread::scope(|sc| {
    let handles: Vec<_> = first_of_class
      .iter()
      .map(|&k| {
        let (wi, ri, o) = &failures[k];
        let text = per_world_texts[*wi][*ri].clone();
        let is_hang = matches!(o, Outcome::Hang(_));
        let cfg = &cfg;
        let exp_cfg = &exp_cfg;
        let world = &world_json[*wi];
        let go = &go;
        let late = rep.elapsed_s() > 30.0;
        sc.spawn(move || {
          if quick && (is_hang || late) {
            return None;
          }
          let budget = Duration::from_secs(if quick { 3 } else if is_hang { 90 } else { 40 });
          let one = is_hang || matches!(o, Outcome::Died(_));
          let (t, o2) = minimize(cfg, world, &text, o, one, budget, go);
          let sig = attribute(exp_cfg, world, &t, &o2, go);
          Some((t, o2, sig))
        })
      })
      .collect();
    handles.into_iter().map(|h| h.join().unwrap_or(None)).collect()
  });
  if trace {
    eprintln!("minimization done at {:.1}s", rep.elapsed_s());
  }
  for (n, &k) in first_of_class.iter().enumerate() {
    let (wi, ri, o) = &failures[k];
    let text = &per_world_texts[*wi][*ri];
    let (mtext, mo, msig) = match &minimized[n] {
      // keep the reduction only if it is attributed to the same signature as the original
      Some((t, o2, sg)) if *sg == sigs[k] => (t.clone(), o2.clone(), *sg),
      _ => (text.clone(), o.clone(), sigs[k]),
    };
    rep.fail(
      msig,
      &format!("index [{}] request {} : {}", worlds[*wi].schema_name, truncate(&mtext, 1200), describe(&mo)),
      json!({"engine": "inputmc-requests", "world": world_json[*wi], "request_text": mtext, "outcome": describe(&mo), "reduced_from": text}),
    );
  }
  for k in rest {
    let (wi, ri, o) = &failures[k];
    let text = &per_world_texts[*wi][*ri];
    rep.fail(
      sigs[k],
      &format!("index [{}] request {} : {}", worlds[*wi].schema_name, truncate(text, 1200), describe(o)),
      json!({"engine": "inputmc-requests", "world": world_json[*wi], "request_text": text, "outcome": describe(o)}),
    );
  }
  for (name, b) in base_list.iter().take(4) {
    rep.sample(json!({"base_request": name, "json": b}));
  }
  if counts.len() < 2 {
    vcore::ev::machinery_failure("C16: fewer than 2 distinct outcomes observed (vacuous)");
  }
  let nontrivial = counts.get("ok").copied().unwrap_or(0) + counts.get("err").copied().unwrap_or(0) + counts.get("panic").copied().unwrap_or(0) + counts.get("hang").copied().unwrap_or(0) + counts.get("died").copied().unwrap_or(0);
  let cov = vcore::cov! {
    "distinct_nontrivial" => nontrivial,
    "rule" => "requests = 10 base requests covering every top-level request feature; for every value location of each base: null, every nasty string (thorough: every string at every string location; quick: the location's own class + the universal class; classes: cursor-like, regex/wildcard patterns, scripts, field names and bucket paths, query strings, percentages/intervals/dates, enum and type names) for strings, every nasty number for numbers, bool flip, for arrays empty / first element duplicated / +40 copies / each element removed, for objects empty / each key dropped / each key renamed to 7 names; feature-interaction family (17 request features - rescore query kind incl. queries that reject hits, rescore window_size around the hit count, rescore score_mode, collapse with inner_hits, sort, limit, second-page cursor, aggs with top_hits, highlight, explain, profile, execution, main query incl. min_score, return_stored, candidate_size, return_hits, filter - each with 1-4 ordinary non-default values; every combination with at most 3 (quick) / 4 (thorough) features non-default on the two-segment index, at most 2 / 3 on the others; the second-page cursor is obtained by the worker from page one of the same request); structural aggregation family (every aggregation type of the request schema with a minimal valid and several invalid parameterisations, pipelines x 16 bucket paths incl. dangling / self-referential / pipeline-to-pipeline, x positions: top level alone, top level next to a bucket and a metric aggregation, only child of each bucket kind, next to a metric and a pipeline inside each bucket kind, two levels deep, under a metric, and as a parent of a metric and pipelines); UTF-8 byte-boundary alphabet (22 characters: per encoded length 1..4 a character whose last byte is minimal / middle / maximal, letter representatives, first and last code point of each length class) as plain words at every pattern / query-string location, as wildcard / regex patterns with such a literal prefix, as indexed tokens of document E in four differently analyzed fields, and in hand-written requests for every term-expansion site (prefix / wildcard / regex on default-, whitespace-, unicode-analyzed text and keyword fields; fuzzy with prefix_length 0,1,2; query_string forms; completion suggest with and without fuzzy); hand-written extras (duplicate terms in several scoring leaves, histogram bounds, pipeline windows, highlight, limits, fuzzy, boosts, sorts on every field kind); per index a cursor alphabet built from byte-level variants of a real score cursor and JSON-level variants of two real sort cursors, each presented on the score path and on two sort paths; all single-edit neighbours (delete / duplicate / substitute by each alphabet char) of the serialized base requests. Only requests that deserialize are run, deduplicated by the parsed request. A request is non-trivial when it deserialized and was run to an outcome.",
    "indexes" => worlds.iter().map(|w| w.describe()).collect::<Vec<_>>(),
    "base_requests" => n_bases,
    "structured_variants_generated" => n_structured,
    "extras" => n_extras,
    "interaction_family_combinations_per_arity_two_segment_index" => inter_hi_arity.iter().map(|(k, v)| (k.to_string(), *v)).collect::<BTreeMap<String, u64>>(),
    "interaction_family_combinations_per_arity_other_indexes" => inter_lo_arity.iter().map(|(k, v)| (k.to_string(), *v)).collect::<BTreeMap<String, u64>>(),
    "interaction_family_requests_two_segment_index" => inter_hi.len(),
    "interaction_family_requests_other_indexes" => inter_lo.len(),
    "interaction_family_other_indexes" => if quick { "empty index" } else { "one-segment index and empty index" },
    "aggregation_family_variants" => agg_variants().len(),
    "aggregation_family_parent_kinds" => if quick { 3 } else { 9 },
    "aggregation_family_requests_generated" => n_aggfam,
    "aggregation_family_requests_kept" => aggfam.len(),
    "aggregation_family_run_against" => if quick { "indexes 1 and 2 (two segments; empty)" } else { "all indexes" },
    "utf8_boundary_chars" => boundary_chars().iter().map(|c| format!("U+{:04X}", *c as u32)).collect::<Vec<_>>(),
    "utf8_boundary_requests_generated" => n_boundary,
    "utf8_boundary_requests_kept" => boundary.len(),
    "utf8_boundary_requests_run_against" => if quick { "indexes 0 and 1" } else { "all indexes" },
    "core_kept" => core.len(),
    "structured_variants_kept_after_deserialize_and_dedupe" => structured.len(),
    "structured_variants_run_against" => if quick { "index 1 only" } else { "all indexes" },
    "cursor_requests_per_index" => cursor_counts,
    "edit_alphabet" => alphabet.iter().collect::<String>(),
    "edit_neighbours_generated" => n_edit_candidates,
    "edit_neighbours_kept" => edits.len(),
    "edit_neighbours_run_against" => if quick { "index 1 only" } else { "all indexes" },
    "nasty_strings" => strings.len(),
    "nasty_numbers" => numbers.len(),
    "watchdog_s" => cfg.timeout.as_secs(),
    "watchdog_hits_in_sweep" => n_hang_candidates,
    "watchdog_hits_not_confirmed_in_isolation" => hang_unconfirmed.load(Ordering::Relaxed),
    "outcome_counts" => counts,
    "distinct_error_messages" => err_kinds.len(),
    "failure_classes" => class_counts,
    "distinct_observed_outcomes" => counts.len(),
    "cap_hit" => if capped { Some(format!("wall budget {deadline}s")) } else { None },
    "exhaustive" => !capped,
  };
  rep.finish(
    cov,
    vec![
      "any Ok or Err result is accepted; result contents are not judged here".into(),
      "a watchdog hit during the 16-worker sweep is confirmed by re-running the request with at most 4 workers active; only a second hit, under five times the CPU budget, counts; resource use is judged only through the outcome: a request counts as hanging when it has not returned after the watchdog (2 s quick / 10 s thorough) or when its worker's resident set passes 3 GiB on these 4-document indexes".into(),
      "vector queries are outside this check (feature build)".into(),
      "requests that do not deserialize are out of scope (C24 covers the HTTP layer)".into(),
    ],
  )
}
