//! C24 — every HTTP request gets a well-formed response.
//! Engine: httpmc --robust — exhaustive enumeration of well-framed HTTP/1.1 requests (method x
//! path x content type x body) against live `searchlite_http::run` servers in three index states,
//! sent as raw bytes over a TcpStream; `GET /healthz` after every request.

use std::collections::{BTreeMap, HashSet};
use std::sync::atomic::{AtomicBool, AtomicU64, Ordering};
use std::time::Duration;

use parking_lot::Mutex;
use rayon::prelude::*;
use serde_json::{json, Value};

use vcore::ev::Reporter;

use crate::c23::{envelope, exchange, http_schema, request_bytes, Resp, Server};
use crate::Ctx;

const MAX_BODY: usize = 2048;
const TIMEOUT: Duration = Duration::from_secs(25);

pub const SIG_UNKNOWN_ROUTE: &str = "C24-unknown-route-empty-body";
pub const SIG_METHOD: &str = "C24-method-not-allowed-empty-body";
pub const SIG_PANIC_DROP: &str = "C24-panic-in-handler-drops-connection";
pub const SIG_PANIC_500: &str = "C24-non-ascii-cursor-panics-500";

#[derive(Clone, Copy, Debug, PartialEq, Eq, Hash, PartialOrd, Ord)]
enum St {
  NoIndex,
  Index,
  Queued,
}

impl St {
  fn name(self) -> &'static str {
    match self {
      St::NoIndex => "no_index",
      St::Index => "index",
      St::Queued => "index+queued",
    }
  }
  fn from_name(s: &str) -> St {
    match s {
      "no_index" => St::NoIndex,
      "index" => St::Index,
      _ => St::Queued,
    }
  }
}

struct Route {
  path: &'static str,
  method: &'static str,
  needs_index: bool,
  /// documented request content type and a valid body, for routes that take one
  body: Option<(&'static str, &'static str)>,
}

const JSON: &str = "application/json";
const NDJSON: &str = "application/x-ndjson";

const V_INIT: &str = r#"{"doc_id_field":"_id","text_fields":[{"name":"body","analyzer":"default","stored":true,"indexed":true}],"keyword_fields":[],"numeric_fields":[]}"#;
const V_ADD: &str = "{\"_id\":\"k\",\"body\":\"rust\"}\n";
const V_BULK: &str = r#"{"docs":[{"_id":"k","body":"rust"}]}"#;
const V_DELETE: &str = r#"{"ids":["k"]}"#;
const V_SEARCH: &str = r#"{"query":{"type":"match_all"},"limit":5,"return_stored":true}"#;

// second valid bodies (thorough tier): more syntax to mutate
const V_INIT2: &str = r#"{"doc_id_field":"_id","text_fields":[{"name":"body","analyzer":"default","stored":true,"indexed":true}],"keyword_fields":[{"name":"tag","stored":true,"indexed":true,"fast":true}],"numeric_fields":[{"name":"n","i64":true,"fast":true,"stored":true}]}"#;
const V_ADD2: &str = "{\"_id\":\"k\",\"body\":\"rust\"}\n\n{\"_id\":\"n\",\"body\":[\"go\",\"zig\"]}\n";
const V_BULK2: &str = r#"{"docs":[{"_id":"k","body":"rust"},{"_id":"n","body":["go"]}]}"#;
const V_DELETE2: &str = r#"{"ids":["k","zz"]}"#;
const V_SEARCH2: &str = r#"{"query":"rust","limit":2,"return_stored":false,"sort":[{"field":"_score","order":"desc"}],"execution":"bm25","cursor":null}"#;

fn valid_bodies(r: &Route) -> Vec<&'static str> {
  match r.path {
    "/init" => vec![V_INIT, V_INIT2],
    "/add" => vec![V_ADD, V_ADD2],
    "/bulk" => vec![V_BULK, V_BULK2],
    "/delete" => vec![V_DELETE, V_DELETE2],
    "/search" => vec![V_SEARCH, V_SEARCH2],
    _ => vec![],
  }
}

const ROUTES: [Route; 11] = [
  Route { path: "/healthz", method: "GET", needs_index: false, body: None },
  Route { path: "/init", method: "POST", needs_index: false, body: Some((JSON, V_INIT)) },
  Route { path: "/add", method: "POST", needs_index: true, body: Some((NDJSON, V_ADD)) },
  Route { path: "/bulk", method: "POST", needs_index: true, body: Some((JSON, V_BULK)) },
  Route { path: "/delete", method: "POST", needs_index: true, body: Some((JSON, V_DELETE)) },
  Route { path: "/commit", method: "POST", needs_index: true, body: None },
  Route { path: "/refresh", method: "POST", needs_index: true, body: None },
  Route { path: "/compact", method: "POST", needs_index: true, body: None },
  Route { path: "/search", method: "POST", needs_index: true, body: Some((JSON, V_SEARCH)) },
  Route { path: "/inspect", method: "GET", needs_index: true, body: None },
  Route { path: "/stats", method: "GET", needs_index: true, body: None },
];

fn route_of(path: &str) -> Option<&'static Route> {
  ROUTES.iter().find(|r| r.path == path)
}

const METHODS: [&str; 4] = ["GET", "POST", "PUT", "DELETE"];
const CTYPES: [Option<&str>; 4] = [None, Some(JSON), Some(NDJSON), Some("text/plain")];

#[derive(Clone, Copy, Debug, PartialEq, Eq, Hash, PartialOrd, Ord)]
enum Class {
  /// no body, no Content-Length
  NoBody,
  /// Content-Length: 0
  Empty,
  Brace,
  Valid,
  Mutant,
  NonUtf8,
  Oversize,
  ErrSearch,
}

#[derive(Clone, Debug)]
struct Req {
  method: &'static str,
  path: String,
  ctype: Option<&'static str>,
  body: Option<Vec<u8>>,
  class: Class,
  /// human description of the body
  desc: String,
}

impl Req {
  fn key(&self) -> (String, String, Option<&'static str>, Option<Vec<u8>>) {
    (self.method.to_string(), self.path.clone(), self.ctype, self.body.clone())
  }
  fn line(&self) -> String {
    format!("{} {} content-type={} body={}", self.method, self.path, self.ctype.unwrap_or("<none>"), self.desc)
  }
  fn to_json(&self, st: St) -> Value {
    json!({"engine": "httpmc-robust", "state": st.name(), "server_flags": ["--max-body-bytes", MAX_BODY.to_string()],
      "method": self.method, "path": self.path, "content_type": self.ctype, "body_class": format!("{:?}", self.class), "body_desc": self.desc,
      "body_hex": self.body.as_ref().map(|b| b.iter().map(|x| format!("{x:02x}")).collect::<String>())})
  }
  fn from_json(v: &Value) -> (St, Req) {
    let st = St::from_name(v["state"].as_str().unwrap_or(""));
    let m = v["method"].as_str().unwrap_or("GET");
    let method = METHODS.iter().copied().find(|x| *x == m).unwrap_or("GET");
    let ctype = v["content_type"].as_str().and_then(|c| CTYPES.iter().flatten().copied().find(|x| *x == c));
    let body = v["body_hex"].as_str().map(|h| (0..h.len() / 2).map(|i| u8::from_str_radix(&h[2 * i..2 * i + 2], 16).unwrap_or(0)).collect::<Vec<u8>>());
    let cls = v["body_class"].as_str().unwrap_or("");
    let class = [Class::NoBody, Class::Empty, Class::Brace, Class::Valid, Class::Mutant, Class::NonUtf8, Class::Oversize, Class::ErrSearch]
      .into_iter()
      .find(|c| format!("{c:?}") == cls)
      .unwrap_or(Class::Mutant);
    (st, Req { method, path: v["path"].as_str().unwrap_or("/").to_string(), ctype, body, class, desc: v["body_desc"].as_str().unwrap_or("").to_string() })
  }
}

fn printable(b: u8) -> String {
  if (0x21..0x7f).contains(&b) {
    format!("'{}'", b as char)
  } else {
    format!("0x{b:02x}")
  }
}

/// Every route, every single-character edit of every route (the leading '/' is kept so that the
/// request target stays a valid origin-form), and "/". Returns (path, base route index).
fn paths(edit_chars: &[u8]) -> Vec<(String, Option<usize>)> {
  let mut out: Vec<(String, Option<usize>)> = Vec::new();
  let mut seen: HashSet<String> = HashSet::new();
  for (i, r) in ROUTES.iter().enumerate() {
    seen.insert(r.path.to_string());
    out.push((r.path.to_string(), Some(i)));
  }
  seen.insert("/".into());
  out.push(("/".into(), None));
  for (i, r) in ROUTES.iter().enumerate() {
    let b = r.path.as_bytes();
    let mut cands: Vec<Vec<u8>> = Vec::new();
    for p in 1..b.len() {
      let mut d = b.to_vec();
      d.remove(p);
      cands.push(d);
    }
    for p in 1..b.len() {
      for &c in edit_chars {
        if b[p] != c {
          let mut s = b.to_vec();
          s[p] = c;
          cands.push(s);
        }
      }
    }
    for p in 1..=b.len() {
      for &c in edit_chars {
        let mut s = b.to_vec();
        s.insert(p, c);
        cands.push(s);
      }
    }
    for c in cands {
      let s = String::from_utf8(c).unwrap();
      if seen.insert(s.clone()) {
        out.push((s, Some(i)));
      }
    }
  }
  out
}

/// Single-edit neighbours of `valid` over the replacement alphabet `repl`.
fn mutants(valid: &[u8], repl: &[u8]) -> Vec<(Vec<u8>, String)> {
  let mut out = Vec::new();
  let mut seen: HashSet<Vec<u8>> = HashSet::new();
  seen.insert(valid.to_vec());
  for p in 0..valid.len() {
    let mut d = valid.to_vec();
    d.remove(p);
    if seen.insert(d.clone()) {
      out.push((d, format!("valid body with byte {p} ({}) deleted", printable(valid[p]))));
    }
  }
  for p in 0..valid.len() {
    for &c in repl {
      if valid[p] != c {
        let mut s = valid.to_vec();
        s[p] = c;
        if seen.insert(s.clone()) {
          out.push((s, format!("valid body with byte {p} ({}) replaced by {}", printable(valid[p]), printable(c))));
        }
      }
    }
  }
  for p in 0..=valid.len() {
    for &c in repl {
      let mut s = valid.to_vec();
      s.insert(p, c);
      if seen.insert(s.clone()) {
        out.push((s, format!("valid body with {} inserted at byte {p}", printable(c))));
      }
    }
  }
  out
}

fn oversize_body() -> Vec<u8> {
  // a syntactically valid NDJSON / JSON-looking payload padded to max_body + 1 bytes
  let mut b = b"{\"_id\":\"k\",\"body\":\"".to_vec();
  while b.len() < MAX_BODY + 1 - 3 {
    b.push(b'a');
  }
  b.extend_from_slice(b"\"}\n");
  assert_eq!(b.len(), MAX_BODY + 1);
  b
}

fn err_searches() -> Vec<(String, Value)> {
  let e20 = "é".repeat(20);
  let base = |extra: Value| {
    let mut v = json!({"query": {"type": "match_all"}, "limit": 5, "return_stored": false});
    for (k, x) in extra.as_object().unwrap() {
      v[k] = x.clone();
    }
    v
  };
  vec![
    ("cursor 'a'+'é'x20+'a'".into(), base(json!({"cursor": format!("a{e20}a")}))),
    ("cursor '0'+'é'x3+'0' with a sort".into(), base(json!({"cursor": "0ééé0", "sort": [{"field": "_score", "order": "asc"}]}))),
    ("cursor 'é'x21".into(), base(json!({"cursor": "é".repeat(21)}))),
    ("cursor 'zz'".into(), base(json!({"cursor": "zz"}))),
    ("cursor ''".into(), base(json!({"cursor": ""}))),
    ("limit 0".into(), base(json!({"limit": 0}))),
    ("sort on unknown field".into(), base(json!({"sort": [{"field": "nope", "order": "asc"}]}))),
    ("terms aggregation on a non-fast field".into(), base(json!({"aggs": {"t": {"type": "terms", "field": "body", "size": 3}}}))),
    ("filter on unknown field".into(), base(json!({"filter": {"KeywordEq": {"field": "nope", "value": "x"}}}))),
    ("query string 'body:('".into(), base(json!({"query": "body:("}))),
    ("highlight_field unknown".into(), base(json!({"query": "rust", "highlight_field": "nope"}))),
    ("collapse on unknown field".into(), base(json!({"collapse": {"field": "nope"}}))),
    ("fields [nope]".into(), base(json!({"query": "rust", "fields": ["nope"]}))),
    ("unknown query type".into(), base(json!({"query": {"type": "nonexistent"}}))),
    ("completion suggest on unknown field".into(), base(json!({"suggest": {"s": {"type": "completion", "field": "nope", "prefix": "ru", "size": 3}}}))),
    ("bmw with bmw_block_size 0".into(), base(json!({"query": "rust", "execution": "bmw", "bmw_block_size": 0}))),
    ("candidate_size 0".into(), base(json!({"query": "rust", "candidate_size": 0}))),
  ]
}

struct Space {
  reqs: Vec<Req>,
  counts: BTreeMap<&'static str, usize>,
}

fn build_space(quick: bool) -> Space {
  let mut reqs: Vec<Req> = Vec::new();
  let mut seen = HashSet::new();
  let mut counts: BTreeMap<&'static str, usize> = BTreeMap::new();
  let mut push = |r: Req, cat: &'static str, reqs: &mut Vec<Req>| {
    if seen.insert(r.key()) {
      *counts.entry(cat).or_default() += 1;
      reqs.push(r);
    }
  };
  // ---- A: routing space
  let edit_chars: &[u8] = if quick { b"x" } else { b"x/A" };
  let all_paths = paths(edit_chars);
  for (path, base) in &all_paths {
    let exact = route_of(path).is_some();
    let ctypes: Vec<Option<&'static str>> = if quick && !exact { vec![None, Some(JSON)] } else { CTYPES.to_vec() };
    for &method in &METHODS {
      for &ct in &ctypes {
        let mut bodies: Vec<(Option<Vec<u8>>, Class, String)> = vec![(None, Class::NoBody, "<no body>".into()), (Some(b"{".to_vec()), Class::Brace, "'{'".into())];
        if !quick || exact {
          bodies.push((Some(Vec::new()), Class::Empty, "<empty, Content-Length: 0>".into()));
          if let Some((_, vb)) = base.and_then(|i| ROUTES[i].body) {
            bodies.push((Some(vb.as_bytes().to_vec()), Class::Valid, format!("valid {} body", ROUTES[base.unwrap()].path)));
          }
        }
        for (b, class, desc) in bodies {
          push(Req { method, path: path.clone(), ctype: ct, body: b, class, desc }, if exact { "routing:known-path" } else { "routing:unknown-path" }, &mut reqs);
        }
      }
    }
  }
  // ---- B: body space on the real routes with their method
  let repl: &[u8] = if quick { b"\"}0\xff" } else { b"\"{}[]:,0a \n\\\x00\xff" };
  for r in ROUTES.iter() {
    let ctypes: Vec<Option<&'static str>> = match (quick, r.body) {
      (true, Some((doc_ct, _))) => vec![Some(doc_ct), None],
      (true, None) => vec![None],
      _ => CTYPES.to_vec(),
    };
    for &ct in &ctypes {
      push(Req { method: r.method, path: r.path.into(), ctype: ct, body: Some(vec![0xff, 0xfe, b'{', 0xc3]), class: Class::NonUtf8, desc: "non-UTF-8 bytes ff fe 7b c3".into() }, "body:non-utf8", &mut reqs);
      push(
        Req { method: r.method, path: r.path.into(), ctype: ct, body: Some(oversize_body()), class: Class::Oversize, desc: format!("{} bytes (max_body_bytes + 1)", MAX_BODY + 1) },
        "body:oversize",
        &mut reqs,
      );
      for (k, vb) in valid_bodies(r).into_iter().enumerate() {
        if k > 0 {
          if quick {
            break;
          }
          push(Req { method: r.method, path: r.path.into(), ctype: ct, body: Some(vb.as_bytes().to_vec()), class: Class::Valid, desc: format!("second valid {} body {}", r.path, vb.replace('\n', "\\n")) }, "body:second-valid", &mut reqs);
        }
        for (m, d) in mutants(vb.as_bytes(), repl) {
          push(Req { method: r.method, path: r.path.into(), ctype: ct, body: Some(m), class: Class::Mutant, desc: format!("{d} [valid = {}]", vb.replace('\n', "\\n")) }, "body:single-edit-neighbour", &mut reqs);
        }
      }
    }
  }
  for (d, v) in err_searches() {
    push(Req { method: "POST", path: "/search".into(), ctype: Some(JSON), body: Some(v.to_string().into_bytes()), class: Class::ErrSearch, desc: format!("{d}: {v}") }, "body:error-search", &mut reqs);
  }
  Space { reqs, counts }
}

// ---------------------------------------------------------------------------------------------
// oracle

fn is_int(v: Option<&Value>) -> bool {
  v.map(|x| x.is_u64() || x.is_i64()).unwrap_or(false)
}
fn is_str(v: Option<&Value>) -> bool {
  v.map(|x| x.is_string()).unwrap_or(false)
}
fn is_bool(v: Option<&Value>) -> bool {
  v.map(|x| x.is_boolean()).unwrap_or(false)
}

/// Documented 2xx shape (openapi.yaml components) for `route`.
fn shape_ok(route: &Route, v: &Value) -> Result<(), String> {
  let Some(o) = v.as_object() else {
    return Err("2xx body is not a JSON object".into());
  };
  let need = |ok: bool, what: &str| if ok { Ok(()) } else { Err(format!("2xx body lacks {what}")) };
  match route.path {
    "/healthz" => need(is_str(o.get("status")), "status:string"),
    "/init" => need(is_bool(o.get("created")), "created:boolean"),
    "/add" | "/bulk" | "/delete" => need(is_int(o.get("queued")), "queued:integer"),
    "/commit" => need(is_bool(o.get("committed")), "committed:boolean"),
    "/refresh" => need(is_bool(o.get("refreshed")), "refreshed:boolean"),
    "/compact" => need(is_bool(o.get("compacted")), "compacted:boolean"),
    "/search" => {
      need(is_int(o.get("total_hits_estimate")), "total_hits_estimate:integer")?;
      let Some(hits) = o.get("hits").and_then(|h| h.as_array()) else {
        return Err("2xx body lacks hits:array".into());
      };
      for h in hits {
        need(is_str(h.get("doc_id")), "hits[].doc_id:string")?;
        need(h.get("score").map(|s| s.is_number()).unwrap_or(false), "hits[].score:number")?;
      }
      Ok(())
    }
    "/inspect" => {
      let Some(m) = o.get("manifest").and_then(|m| m.as_object()) else {
        return Err("2xx body lacks manifest:object".into());
      };
      need(is_int(m.get("version")), "manifest.version:integer")?;
      need(is_str(m.get("uuid")), "manifest.uuid:string")?;
      need(is_str(m.get("committed_at")), "manifest.committed_at:string")?;
      need(m.get("schema").map(|s| s.is_object()).unwrap_or(false), "manifest.schema:object")?;
      need(m.get("segments").map(|s| s.is_array()).unwrap_or(false), "manifest.segments:array")
    }
    "/stats" => {
      for k in ["documents", "deleted_documents", "segments"] {
        need(is_int(o.get(k)), &format!("{k}:integer"))?;
      }
      for k in ["committed_at", "index_uuid", "index_path"] {
        need(is_str(o.get(k)), &format!("{k}:string"))?;
      }
      Ok(())
    }
    _ => Ok(()),
  }
}

/// True when the documentation leaves no doubt that `body` is not a valid request body of `route`.
fn definitely_invalid(route: &Route, body: &[u8]) -> bool {
  if route.path == "/add" {
    let Ok(text) = std::str::from_utf8(body) else {
      return true;
    };
    return text.split('\n').any(|line| {
      let t = line.trim();
      !t.is_empty() && !matches!(serde_json::from_str::<Value>(t), Ok(Value::Object(_)))
    });
  }
  // Only the first JSON value counts: the documentation does not say what happens to bytes that
  // follow a complete JSON document (the server ignores them), so such bodies are not "certainly
  // invalid".
  let Some(Ok(v)) = serde_json::Deserializer::from_slice(body).into_iter::<Value>().next() else {
    return true;
  };
  let Some(o) = v.as_object() else {
    return true;
  };
  match route.path {
    "/init" => ["text_fields", "keyword_fields", "numeric_fields"].iter().any(|k| !o.get(*k).map(|x| x.is_array()).unwrap_or(false)),
    "/bulk" => !o.get("docs").and_then(|d| d.as_array()).map(|a| !a.is_empty() && a.iter().all(|d| d.is_object())).unwrap_or(false),
    "/delete" => !o.get("ids").and_then(|d| d.as_array()).map(|a| !a.is_empty() && a.iter().all(|d| d.as_str().map(|s| !s.trim().is_empty() && s.trim() == s).unwrap_or(false))).unwrap_or(false),
    "/search" => !o.contains_key("query"),
    _ => false,
  }
}

struct Verdict {
  outcome: String,
  failure: Option<(Option<&'static str>, String)>,
  non_2xx: bool,
}

fn judge(st: St, req: &Req, out: &Result<Resp, String>, panics: &[String]) -> Verdict {
  let route = route_of(&req.path);
  let method_ok = route.map(|r| r.method == req.method).unwrap_or(false);
  let fail = |sig: Option<&'static str>, msg: String, outcome: String, non_2xx: bool| Verdict {
    outcome,
    failure: Some((sig, format!("state {}: {} -> {}{}", st.name(), req.line(), msg, if panics.is_empty() { String::new() } else { format!(" [server panic: {}]", panics.join(" | ")) }))),
    non_2xx,
  };
  let resp = match out {
    Err(e) => {
      let sig = if !panics.is_empty() && !e.starts_with("timeout") && !e.starts_with("connect") { Some(SIG_PANIC_DROP) } else { None };
      return fail(sig, format!("no HTTP response: {e}"), "no-response".into(), true);
    }
    Ok(r) => r,
  };
  let status = resp.status;
  let two = resp.is_2xx();
  let env = envelope(&resp.body);
  let outcome = format!(
    "{}:{}:{}",
    if route.is_none() { "unknown-path" } else if !method_ok { "wrong-method" } else { route.unwrap().path },
    status,
    if two { "ok".to_string() } else { env.as_ref().map(|e| e.0.clone()).unwrap_or_else(|| if resp.body.is_empty() { "<empty body>".into() } else { "<no envelope>".into() }) }
  );
  let shown = format!("{} {}", status, if resp.body.is_empty() { "<empty body>".to_string() } else { resp.body_text() });
  // ---- well-formedness
  if !two && env.is_none() {
    let sig = match route {
      None if status == 404 && resp.body.is_empty() => Some(SIG_UNKNOWN_ROUTE),
      Some(_) if !method_ok && status == 405 && resp.body.is_empty() => Some(SIG_METHOD),
      _ => None,
    };
    return fail(sig, format!("{shown}; every non-2xx response must carry {{\"error\":{{\"type\":string,\"reason\":string}}}}"), outcome, true);
  }
  if !resp.header("content-type").map(|c| c.to_ascii_lowercase().starts_with("application/json")).unwrap_or(false) {
    return fail(None, format!("{shown} with Content-Type {:?}; documented responses are application/json", resp.header("content-type")), outcome, !two);
  }
  if two {
    let Some(v) = resp.json() else {
      return fail(None, format!("{shown}: 2xx body is not JSON"), outcome, false);
    };
    if let (Some(r), true) = (route, method_ok) {
      if let Err(e) = shape_ok(r, &v) {
        return fail(None, format!("{shown}: {e}"), outcome, false);
      }
    }
  }
  // ---- status
  let five = status >= 500;
  let four = (400..500).contains(&status);
  let expect: Result<(), String> = match (route, method_ok) {
    (None, _) => {
      if four { Ok(()) } else { Err("a 4xx error for an unknown path".into()) }
    }
    (Some(_), false) => {
      if four { Ok(()) } else { Err("a 4xx error for an unsupported method".into()) }
    }
    (Some(r), true) => {
      let missing = st == St::NoIndex && r.needs_index;
      let normal = if r.path == "/init" {
        if st == St::NoIndex { 200 } else { 409 }
      } else if missing {
        404
      } else {
        200
      };
      let body = req.body.as_deref();
      match req.class {
        Class::Oversize => {
          let ok = status == 413 || (missing && status == 404) || (r.body.is_none() && status == normal);
          if ok { Ok(()) } else { Err(format!("413 for a body of {} bytes with --max-body-bytes {MAX_BODY}", MAX_BODY + 1)) }
        }
        _ if r.body.is_none() => {
          if matches!(req.class, Class::NoBody | Class::Empty) {
            if status == normal { Ok(()) } else { Err(format!("{normal}")) }
          } else if five || (missing && !four) {
            Err("2xx or 4xx (4xx while the index is missing)".into())
          } else {
            Ok(())
          }
        }
        _ => {
          let (doc_ct, _) = r.body.unwrap();
          let exact_valid = valid_bodies(r).iter().any(|vb| body == Some(vb.as_bytes())) && (req.ctype == Some(doc_ct));
          if exact_valid {
            if status == normal { Ok(()) } else { Err(format!("{normal} for the documented valid request")) }
          } else if body.map(|b| definitely_invalid(r, b)).unwrap_or(true) && !(r.path == "/add" && body.map(|b| b.is_empty()).unwrap_or(true)) {
            if four { Ok(()) } else { Err("a 4xx error for an invalid request body".into()) }
          } else if five {
            Err("2xx or 4xx (a request is either valid or invalid input)".into())
          } else if (missing || (r.path == "/init" && st != St::NoIndex)) && !four {
            Err(if missing { "a 4xx error while the index is missing".into() } else { "a 4xx error: the index already exists".into() })
          } else {
            Ok(())
          }
        }
      }
    }
  };
  match expect {
    Ok(()) => Verdict { outcome, failure: None, non_2xx: !two },
    Err(want) => {
      // narrow: a /search whose `cursor` string contains non-ASCII characters made the blocking
      // search task panic on a UTF-8 slicing error and the join error was mapped to 500
      let non_ascii_cursor = req
        .body
        .as_deref()
        .and_then(|b| serde_json::from_slice::<Value>(b).ok())
        .and_then(|v| v.get("cursor").and_then(|c| c.as_str()).map(|c| !c.is_ascii()))
        .unwrap_or(false);
      let sig = if status == 500
        && req.path == "/search"
        && method_ok
        && non_ascii_cursor
        && env.as_ref().map(|e| e.0 == "search_join").unwrap_or(false)
        && panics.iter().any(|p| p.contains("Utf8Error"))
      {
        Some(SIG_PANIC_500)
      } else {
        None
      };
      fail(sig, format!("{shown}; expected {want}"), outcome, !two)
    }
  }
}

// ---------------------------------------------------------------------------------------------
// sessions

fn setup(st: St) -> Server {
  let mb = MAX_BODY.to_string();
  let srv = Server::fresh("c24", &["--max-body-bytes", &mb]);
  let must = |what: &str, r: Result<Resp, String>| match r {
    Ok(r) if r.is_2xx() => {}
    Ok(r) => vcore::ev::machinery_failure(&format!("C24 setup {what}: {} {}", r.status, r.body_text())),
    Err(e) => vcore::ev::machinery_failure(&format!("C24 setup {what}: {e}")),
  };
  if st != St::NoIndex {
    must("/init", srv.post_json("/init", &http_schema()));
    must("/add", srv.send("POST", "/add", Some(NDJSON), Some(b"{\"_id\":\"k\",\"body\":\"rust search\"}\n{\"_id\":\"m\",\"body\":\"more rust\"}\n")));
    must("/commit", srv.send("POST", "/commit", None, None));
  }
  if st == St::Queued {
    must("/add", srv.send("POST", "/add", Some(NDJSON), Some(b"{\"_id\":\"q\",\"body\":\"queued rust\"}\n")));
  }
  srv
}

/// Did this exchange (possibly) change the server state the oracle depends on?
fn dirties(st: St, req: &Req, out: &Result<Resp, String>) -> bool {
  let Some(r) = route_of(&req.path) else {
    return false;
  };
  if r.method != req.method || !matches!(r.path, "/init" | "/add" | "/bulk" | "/delete" | "/commit" | "/compact") {
    return false;
  }
  match out {
    Err(_) => true,
    Ok(resp) => {
      if resp.status >= 500 {
        return true;
      }
      if resp.is_2xx() {
        return match r.path {
          "/commit" => st == St::Queued,
          "/compact" => false,
          "/add" | "/bulk" | "/delete" => resp.json().and_then(|v| v.get("queued").and_then(|q| q.as_u64())) != Some(0),
          _ => true,
        };
      }
      match resp.error_type().as_deref() {
        Some("add_failed") | Some("delete_failed") | Some("init_failed") => true,
        _ => r.path == "/init" && st == St::NoIndex && resp.error_type().as_deref() != Some("invalid_request"),
      }
    }
  }
}

struct One {
  verdict: Verdict,
  health_failure: Option<String>,
  dirty: bool,
}

fn run_one(srv: &Server, st: St, req: &Req) -> One {
  let bytes = request_bytes(req.method, &req.path, req.ctype, req.body.as_deref());
  let out = exchange(srv.port, &bytes, TIMEOUT);
  // a panic message is recorded before the connection task unwinds; give the hook a moment only
  // when the response is missing
  if out.is_err() {
    std::thread::sleep(Duration::from_millis(5));
  }
  let panics = srv.take_panics();
  let verdict = judge(st, req, &out, &panics);
  let h = exchange(srv.port, &request_bytes("GET", "/healthz", None, None), TIMEOUT);
  let health_failure = match h {
    Ok(r) if r.status == 200 && r.json().map(|v| v.get("status").map(|s| s.is_string()).unwrap_or(false)).unwrap_or(false) => None,
    Ok(r) => Some(format!("GET /healthz afterwards answered {} {}", r.status, r.body_text())),
    Err(e) => Some(format!("GET /healthz afterwards got no response: {e}")),
  };
  if !srv.is_running() {
    vcore::ev::machinery_failure(&format!("C24: server task ended after {}", req.line()));
  }
  let dirty = dirties(st, req, &out) || health_failure.is_some();
  One { verdict, health_failure, dirty }
}

pub fn run(ctx: &Ctx) -> i32 {
  let mut rep = Reporter::new("C24", ctx.tier, "exploration");
  let quick = ctx.tier.is_quick();
  if let Some(path) = &ctx.replay {
    rep.set_replaying(true);
    let v: Value = serde_json::from_slice(&std::fs::read(path).expect("replay file")).expect("json");
    let (st, req) = Req::from_json(&v["case"]);
    let once = || {
      let srv = setup(st);
      let o = run_one(&srv, st, &req);
      match (o.verdict.failure, o.health_failure) {
        (Some((sig, w)), _) => Some((sig, w)),
        (None, Some(h)) => Some((None, format!("state {}: {} -> {h}", st.name(), req.line()))),
        (None, None) => None,
      }
    };
    let (a, b) = (once(), once());
    if a.is_some() != b.is_some() {
      vcore::ev::machinery_failure("NONDETERMINISM on replay");
    }
    return match a {
      Some((sig, w)) => {
        println!("VIOLATION property=C24 replay={path}\n  signature: {}\n  what: {w}", sig.unwrap_or("-"));
        1
      }
      None => {
        println!("replay: no violation");
        0
      }
    };
  }

  let space = build_space(quick);
  let states = [St::NoIndex, St::Index, St::Queued];
  let chunk = 250;
  let mut jobs: Vec<(St, usize, usize)> = Vec::new();
  for &st in &states {
    let mut i = 0;
    while i < space.reqs.len() {
      jobs.push((st, i, (i + chunk).min(space.reqs.len())));
      i += chunk;
    }
  }
  let deadline = if quick { 32.0 } else { 840.0 };
  let timed_out = AtomicBool::new(false);
  let evals = AtomicU64::new(0);
  let non2xx = AtomicU64::new(0);
  let restarts = AtomicU64::new(0);
  let outcomes: Mutex<BTreeMap<String, u64>> = Mutex::new(BTreeMap::new());
  // failures are gathered and reported in enumeration order so that the first one is minimal
  let failures: Mutex<Vec<(usize, usize, Option<&'static str>, String, Value)>> = Mutex::new(Vec::new());
  jobs.par_iter().for_each(|&(st, lo, hi)| {
    let mut srv: Option<Server> = None;
    let mut local: BTreeMap<String, u64> = BTreeMap::new();
    for i in lo..hi {
      if rep.elapsed_s() > deadline {
        timed_out.store(true, Ordering::Relaxed);
        break;
      }
      let req = &space.reqs[i];
      if srv.is_none() {
        srv = Some(setup(st));
        restarts.fetch_add(1, Ordering::Relaxed);
      }
      let o = run_one(srv.as_ref().unwrap(), st, req);
      evals.fetch_add(1, Ordering::Relaxed);
      if o.verdict.non_2xx {
        non2xx.fetch_add(1, Ordering::Relaxed);
      }
      *local.entry(o.verdict.outcome.clone()).or_default() += 1;
      if let Some((sig, what)) = o.verdict.failure {
        failures.lock().push((st as usize, i, sig, what, req.to_json(st)));
      } else if let Some(h) = &o.health_failure {
        failures.lock().push((st as usize, i, None, format!("state {}: {} -> {h}", st.name(), req.line()), req.to_json(st)));
      } else if i % 997 == 0 {
        rep.sample(json!({"state": st.name(), "request": req.line(), "outcome": o.verdict.outcome}));
      }
      if o.dirty {
        srv = None;
      }
    }
    let mut g = outcomes.lock();
    for (k, n) in local {
      *g.entry(k).or_default() += n;
    }
  });
  let mut fs = failures.into_inner();
  fs.sort_by_key(|f| (f.1, f.0));
  // the minimal witness of every failure class first (only the first few get a replay file)
  {
    let mut seen_sig: HashSet<Option<&'static str>> = HashSet::new();
    let (firsts, rest): (Vec<_>, Vec<_>) = fs.into_iter().partition(|f| seen_sig.insert(f.2));
    fs = firsts;
    fs.extend(rest);
  }
  let mut by_sig: BTreeMap<String, u64> = BTreeMap::new();
  for (_, _, sig, what, case) in &fs {
    *by_sig.entry(sig.unwrap_or("-").to_string()).or_default() += 1;
    rep.fail(*sig, what, case.clone());
  }
  rep.add_evals(evals.load(Ordering::Relaxed));
  let oc = outcomes.into_inner();
  if oc.len() < 2 {
    vcore::ev::machinery_failure(&format!("C24 vacuous: outcomes {oc:?}"));
  }
  let to = timed_out.load(Ordering::Relaxed);
  let cov = vcore::cov! {
    "distinct_nontrivial" => non2xx.load(Ordering::Relaxed),
    "rule" => "space = states {no index, index (2 committed docs), index + 1 queued doc} x distinct well-framed HTTP/1.1 requests: (A) methods {GET,POST,PUT,DELETE} x paths {11 routes, every single-character deletion / substitution / insertion of every route keeping the leading '/', '/'} x content types {application/json, application/x-ndjson, none, text/plain} x bodies {no body, Content-Length 0, '{', the valid body of the base route}; (B) every route with its method x content types x {non-UTF-8 bytes, max_body+1 bytes, every single-edit neighbour (delete / replace / insert over the replacement alphabet) of the route's valid bodies (one per route in the quick tier, two in the thorough tier)}, plus /search requests known to make the core error or panic. Each request runs on a live server in exactly the stated state (the server is rebuilt after any request that may have changed it) and is followed by GET /healthz. A case is non-trivial when it is answered with a non-2xx status (a failure path ran).",
    "requests_per_state" => space.reqs.len(),
    "states" => states.iter().map(|s| s.name()).collect::<Vec<_>>(),
    "space_breakdown" => space.counts,
    "path_edit_alphabet" => if quick { "x" } else { "x / A" },
    "body_replacement_alphabet" => if quick { "\" } 0 0xff" } else { "\" { } [ ] : , 0 a <space> \\n \\ 0x00 0xff" },
    "servers_started" => restarts.load(Ordering::Relaxed),
    "distinct_observed_outcomes" => oc.len(),
    "observed_outcomes" => oc,
    "failures_by_signature" => by_sig,
    "exhaustive" => !to,
    "cap_hit" => if to { Some(format!("wall budget {deadline}s")) } else { None },
  };
  rep.finish(
    cov,
    vec![
      "only well-framed HTTP/1.1 requests with a request target made of [a-z/x] are sent; protocol-level garbage (bad request line, Content-Length mismatch, truncated bodies) is answered by hyper below the application and the documentation is silent about it".into(),
      "for a body that is neither the documented valid one nor certainly invalid the oracle accepts 2xx (with the documented shape) or 4xx (with the envelope), never 5xx".into(),
      "an oversized body must give 413; 404 is also accepted while the index is missing, and the normal answer is accepted on routes that take no body".into(),
      "bytes following a complete JSON document in a JSON request body are not treated as certainly invalid (observed: the server ignores them and answers 2xx)".into(),
      "NDJSON blank lines are lines that are empty after trimming whitespace (the replacement alphabet contains no exotic Unicode whitespace)".into(),
      "search requests with huge limit / candidate_size values are left out (allocation failure would abort the harness process)".into(),
    ],
  )
}
