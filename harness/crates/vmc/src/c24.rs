//! C24 — every HTTP request gets a well-formed response.
//! Engine: httpmc --robust — exhaustive enumeration of well-framed HTTP/1.1 requests (method x
//! path x content type x body) against live `searchlite_http::run` servers in three index states,
//! sent as raw bytes over a TcpStream; `GET /healthz` after every request.

use std::collections::{BTreeMap, HashSet};
use std::sync::atomic::{AtomicBool, AtomicU64, Ordering};
use std::time::Duration;

use parking_lot::Mutex;
use rayon::prelude::*;
use serde_json::{json, Value};

use vcore::ev::Reporter;

use crate::c23::{envelope, exchange, http_schema, request_bytes, Resp, Server};
use crate::Ctx;

const MAX_BODY: usize = 2048;
/// body limit of the servers used by the echoed-input family
fn echo_max_body(quick: bool) -> usize {
  if quick {
    8192
  } else {
    32768
  }
}
const TIMEOUT: Duration = Duration::from_secs(25);

pub const SIG_UNKNOWN_ROUTE: &str = "C24-unknown-route-empty-body";
pub const SIG_METHOD: &str = "C24-method-not-allowed-empty-body";
pub const SIG_PANIC_DROP: &str = "C24-panic-in-handler-drops-connection";
pub const SIG_PANIC_500: &str = "C24-non-ascii-cursor-panics-500";
pub const SIG_TOP_PIPELINE: &str = "C24-top-level-pipeline-agg-panics-500";

#[derive(Clone, Copy, Debug, PartialEq, Eq, Hash, PartialOrd, Ord)]
enum St {
  NoIndex,
  Index,
  Queued,
  /// index with the richer echo-family schema (text, keyword, numeric, nested) and 2 committed docs
  Echo,
}

impl St {
  fn name(self) -> &'static str {
    match self {
      St::NoIndex => "no_index",
      St::Index => "index",
      St::Queued => "index+queued",
      St::Echo => "echo_index",
    }
  }
  fn from_name(s: &str) -> St {
    match s {
      "no_index" => St::NoIndex,
      "index" => St::Index,
      "echo_index" => St::Echo,
      _ => St::Queued,
    }
  }
}

struct Route {
  path: &'static str,
  method: &'static str,
  needs_index: bool,
  /// documented request content type and a valid body, for routes that take one
  body: Option<(&'static str, &'static str)>,
}

const JSON: &str = "application/json";
const NDJSON: &str = "application/x-ndjson";

const V_INIT: &str = r#"{"doc_id_field":"_id","text_fields":[{"name":"body","analyzer":"default","stored":true,"indexed":true}],"keyword_fields":[],"numeric_fields":[]}"#;
const V_ADD: &str = "{\"_id\":\"k\",\"body\":\"rust\"}\n";
const V_BULK: &str = r#"{"docs":[{"_id":"k","body":"rust"}]}"#;
const V_DELETE: &str = r#"{"ids":["k"]}"#;
const V_SEARCH: &str = r#"{"query":{"type":"match_all"},"limit":5,"return_stored":true}"#;

// second valid bodies (thorough tier): more syntax to mutate
const V_INIT2: &str = r#"{"doc_id_field":"_id","text_fields":[{"name":"body","analyzer":"default","stored":true,"indexed":true}],"keyword_fields":[{"name":"tag","stored":true,"indexed":true,"fast":true}],"numeric_fields":[{"name":"n","i64":true,"fast":true,"stored":true}]}"#;
const V_ADD2: &str = "{\"_id\":\"k\",\"body\":\"rust\"}\n\n{\"_id\":\"n\",\"body\":[\"go\",\"zig\"]}\n";
const V_BULK2: &str = r#"{"docs":[{"_id":"k","body":"rust"},{"_id":"n","body":["go"]}]}"#;
const V_DELETE2: &str = r#"{"ids":["k","zz"]}"#;
const V_SEARCH2: &str = r#"{"query":"rust","limit":2,"return_stored":false,"sort":[{"field":"_score","order":"desc"}],"execution":"bm25","cursor":null}"#;

fn valid_bodies(r: &Route) -> Vec<&'static str> {
  match r.path {
    "/init" => vec![V_INIT, V_INIT2],
    "/add" => vec![V_ADD, V_ADD2],
    "/bulk" => vec![V_BULK, V_BULK2],
    "/delete" => vec![V_DELETE, V_DELETE2],
    "/search" => vec![V_SEARCH, V_SEARCH2],
    _ => vec![],
  }
}

const ROUTES: [Route; 11] = [
  Route { path: "/healthz", method: "GET", needs_index: false, body: None },
  Route { path: "/init", method: "POST", needs_index: false, body: Some((JSON, V_INIT)) },
  Route { path: "/add", method: "POST", needs_index: true, body: Some((NDJSON, V_ADD)) },
  Route { path: "/bulk", method: "POST", needs_index: true, body: Some((JSON, V_BULK)) },
  Route { path: "/delete", method: "POST", needs_index: true, body: Some((JSON, V_DELETE)) },
  Route { path: "/commit", method: "POST", needs_index: true, body: None },
  Route { path: "/refresh", method: "POST", needs_index: true, body: None },
  Route { path: "/compact", method: "POST", needs_index: true, body: None },
  Route { path: "/search", method: "POST", needs_index: true, body: Some((JSON, V_SEARCH)) },
  Route { path: "/inspect", method: "GET", needs_index: true, body: None },
  Route { path: "/stats", method: "GET", needs_index: true, body: None },
];

fn route_of(path: &str) -> Option<&'static Route> {
  ROUTES.iter().find(|r| r.path == path)
}

const METHODS: [&str; 4] = ["GET", "POST", "PUT", "DELETE"];
const CTYPES: [Option<&str>; 4] = [None, Some(JSON), Some(NDJSON), Some("text/plain")];

#[derive(Clone, Copy, Debug, PartialEq, Eq, Hash, PartialOrd, Ord)]
enum Class {
  /// no body, no Content-Length
  NoBody,
  /// Content-Length: 0
  Empty,
  Brace,
  Valid,
  Mutant,
  NonUtf8,
  Oversize,
  ErrSearch,
  /// header-value / query-string family: a valid request with one unusual header value or query
  Header,
  /// echoed-input family: a long / multi-byte name placed where the server quotes it back
  Echo,
}

#[derive(Clone, Debug)]
struct Req {
  method: &'static str,
  path: String,
  ctype: Option<&'static str>,
  body: Option<Vec<u8>>,
  class: Class,
  /// human description of the body
  desc: String,
  /// --max-body-bytes of the server this request is sent to
  max_body: usize,
  /// echo family: (location index, the name that was planted)
  echo: Option<(usize, String)>,
  /// header / query family: the exact request bytes (instead of the ones built from the fields)
  raw: Option<Vec<u8>>,
  /// the request carries a byte HTTP itself forbids (control byte in a header value, raw
  /// non-ASCII byte in the request target): hyper's own bare `400 Bad Request` is accepted too
  protocol_400_ok: bool,
}

impl Req {
  fn key(&self) -> (String, String, Option<&'static str>, Option<Vec<u8>>) {
    (self.method.to_string(), self.path.clone(), self.ctype, self.body.clone())
  }
  fn line(&self) -> String {
    format!("{} {} content-type={} body={}", self.method, self.path, self.ctype.unwrap_or("<none>"), self.desc)
  }
  fn to_json(&self, st: St) -> Value {
    json!({"engine": "httpmc-robust", "state": st.name(), "server_flags": ["--max-body-bytes", self.max_body.to_string()], "max_body": self.max_body,
      "method": self.method, "path": self.path, "content_type": self.ctype, "body_class": format!("{:?}", self.class), "body_desc": self.desc,
      "body_hex": self.body.as_ref().map(|b| b.iter().map(|x| format!("{x:02x}")).collect::<String>()),
      "raw_request_hex": self.raw.as_ref().map(|b| b.iter().map(|x| format!("{x:02x}")).collect::<String>()),
      "raw_request_lossy": self.raw.as_ref().map(|b| String::from_utf8_lossy(b).into_owned()),
      "protocol_400_ok": self.protocol_400_ok})
  }
  fn from_json(v: &Value) -> (St, Req) {
    let st = St::from_name(v["state"].as_str().unwrap_or(""));
    let m = v["method"].as_str().unwrap_or("GET");
    let method = METHODS.iter().copied().find(|x| *x == m).unwrap_or("GET");
    let ctype = v["content_type"].as_str().and_then(|c| CTYPES.iter().flatten().copied().find(|x| *x == c));
    let body = v["body_hex"].as_str().map(|h| (0..h.len() / 2).map(|i| u8::from_str_radix(&h[2 * i..2 * i + 2], 16).unwrap_or(0)).collect::<Vec<u8>>());
    let cls = v["body_class"].as_str().unwrap_or("");
    let class = [Class::NoBody, Class::Empty, Class::Brace, Class::Valid, Class::Mutant, Class::NonUtf8, Class::Oversize, Class::ErrSearch, Class::Echo, Class::Header]
      .into_iter()
      .find(|c| format!("{c:?}") == cls)
      .unwrap_or(Class::Mutant);
    let unhex = |h: &str| (0..h.len() / 2).map(|i| u8::from_str_radix(&h[2 * i..2 * i + 2], 16).unwrap_or(0)).collect::<Vec<u8>>();
    (st, Req { max_body: v["max_body"].as_u64().map(|m| m as usize).unwrap_or(MAX_BODY), echo: None, raw: v["raw_request_hex"].as_str().map(unhex), protocol_400_ok: v["protocol_400_ok"].as_bool().unwrap_or(false), method, path: v["path"].as_str().unwrap_or("/").to_string(), ctype, body, class, desc: v["body_desc"].as_str().unwrap_or("").to_string() })
  }
}

fn printable(b: u8) -> String {
  if (0x21..0x7f).contains(&b) {
    format!("'{}'", b as char)
  } else {
    format!("0x{b:02x}")
  }
}

/// Every route, every single-character edit of every route (the leading '/' is kept so that the
/// request target stays a valid origin-form), and "/". Returns (path, base route index).
fn paths(edit_chars: &[u8]) -> Vec<(String, Option<usize>)> {
  let mut out: Vec<(String, Option<usize>)> = Vec::new();
  let mut seen: HashSet<String> = HashSet::new();
  for (i, r) in ROUTES.iter().enumerate() {
    seen.insert(r.path.to_string());
    out.push((r.path.to_string(), Some(i)));
  }
  seen.insert("/".into());
  out.push(("/".into(), None));
  for (i, r) in ROUTES.iter().enumerate() {
    let b = r.path.as_bytes();
    let mut cands: Vec<Vec<u8>> = Vec::new();
    for p in 1..b.len() {
      let mut d = b.to_vec();
      d.remove(p);
      cands.push(d);
    }
    for p in 1..b.len() {
      for &c in edit_chars {
        if b[p] != c {
          let mut s = b.to_vec();
          s[p] = c;
          cands.push(s);
        }
      }
    }
    for p in 1..=b.len() {
      for &c in edit_chars {
        let mut s = b.to_vec();
        s.insert(p, c);
        cands.push(s);
      }
    }
    for c in cands {
      let s = String::from_utf8(c).unwrap();
      if seen.insert(s.clone()) {
        out.push((s, Some(i)));
      }
    }
  }
  out
}

/// Single-edit neighbours of `valid` over the replacement alphabet `repl`.
fn mutants(valid: &[u8], repl: &[u8]) -> Vec<(Vec<u8>, String)> {
  let mut out = Vec::new();
  let mut seen: HashSet<Vec<u8>> = HashSet::new();
  seen.insert(valid.to_vec());
  for p in 0..valid.len() {
    let mut d = valid.to_vec();
    d.remove(p);
    if seen.insert(d.clone()) {
      out.push((d, format!("valid body with byte {p} ({}) deleted", printable(valid[p]))));
    }
  }
  for p in 0..valid.len() {
    for &c in repl {
      if valid[p] != c {
        let mut s = valid.to_vec();
        s[p] = c;
        if seen.insert(s.clone()) {
          out.push((s, format!("valid body with byte {p} ({}) replaced by {}", printable(valid[p]), printable(c))));
        }
      }
    }
  }
  for p in 0..=valid.len() {
    for &c in repl {
      let mut s = valid.to_vec();
      s.insert(p, c);
      if seen.insert(s.clone()) {
        out.push((s, format!("valid body with {} inserted at byte {p}", printable(c))));
      }
    }
  }
  out
}

fn oversize_body() -> Vec<u8> {
  // a syntactically valid NDJSON / JSON-looking payload padded to max_body + 1 bytes
  let mut b = b"{\"_id\":\"k\",\"body\":\"".to_vec();
  while b.len() < MAX_BODY + 1 - 3 {
    b.push(b'a');
  }
  b.extend_from_slice(b"\"}\n");
  assert_eq!(b.len(), MAX_BODY + 1);
  b
}

fn err_searches() -> Vec<(String, Value)> {
  let e20 = "é".repeat(20);
  let base = |extra: Value| {
    let mut v = json!({"query": {"type": "match_all"}, "limit": 5, "return_stored": false});
    for (k, x) in extra.as_object().unwrap() {
      v[k] = x.clone();
    }
    v
  };
  vec![
    ("cursor 'a'+'é'x20+'a'".into(), base(json!({"cursor": format!("a{e20}a")}))),
    ("cursor '0'+'é'x3+'0' with a sort".into(), base(json!({"cursor": "0ééé0", "sort": [{"field": "_score", "order": "asc"}]}))),
    ("cursor 'é'x21".into(), base(json!({"cursor": "é".repeat(21)}))),
    ("cursor 'zz'".into(), base(json!({"cursor": "zz"}))),
    ("cursor ''".into(), base(json!({"cursor": ""}))),
    ("limit 0".into(), base(json!({"limit": 0}))),
    ("sort on unknown field".into(), base(json!({"sort": [{"field": "nope", "order": "asc"}]}))),
    ("terms aggregation on a non-fast field".into(), base(json!({"aggs": {"t": {"type": "terms", "field": "body", "size": 3}}}))),
    ("filter on unknown field".into(), base(json!({"filter": {"KeywordEq": {"field": "nope", "value": "x"}}}))),
    ("query string 'body:('".into(), base(json!({"query": "body:("}))),
    ("highlight_field unknown".into(), base(json!({"query": "rust", "highlight_field": "nope"}))),
    ("collapse on unknown field".into(), base(json!({"collapse": {"field": "nope"}}))),
    ("fields [nope]".into(), base(json!({"query": "rust", "fields": ["nope"]}))),
    ("unknown query type".into(), base(json!({"query": {"type": "nonexistent"}}))),
    ("completion suggest on unknown field".into(), base(json!({"suggest": {"s": {"type": "completion", "field": "nope", "prefix": "ru", "size": 3}}}))),
    ("bmw with bmw_block_size 0".into(), base(json!({"query": "rust", "execution": "bmw", "bmw_block_size": 0}))),
    ("candidate_size 0".into(), base(json!({"query": "rust", "candidate_size": 0}))),
  ]
}

struct Space {
  reqs: Vec<Req>,
  counts: BTreeMap<&'static str, usize>,
}

fn build_space(quick: bool) -> Space {
  let mut reqs: Vec<Req> = Vec::new();
  let mut seen = HashSet::new();
  let mut counts: BTreeMap<&'static str, usize> = BTreeMap::new();
  let mut push = |r: Req, cat: &'static str, reqs: &mut Vec<Req>| {
    if seen.insert(r.key()) {
      *counts.entry(cat).or_default() += 1;
      reqs.push(r);
    }
  };
  // ---- A: routing space
  let edit_chars: &[u8] = if quick { b"x" } else { b"x/A" };
  let all_paths = paths(edit_chars);
  for (path, base) in &all_paths {
    let exact = route_of(path).is_some();
    let ctypes: Vec<Option<&'static str>> = if quick && !exact { vec![None, Some(JSON)] } else { CTYPES.to_vec() };
    for &method in &METHODS {
      for &ct in &ctypes {
        let mut bodies: Vec<(Option<Vec<u8>>, Class, String)> = vec![(None, Class::NoBody, "<no body>".into()), (Some(b"{".to_vec()), Class::Brace, "'{'".into())];
        if !quick || exact {
          bodies.push((Some(Vec::new()), Class::Empty, "<empty, Content-Length: 0>".into()));
          if let Some((_, vb)) = base.and_then(|i| ROUTES[i].body) {
            bodies.push((Some(vb.as_bytes().to_vec()), Class::Valid, format!("valid {} body", ROUTES[base.unwrap()].path)));
          }
        }
        for (b, class, desc) in bodies {
          push(Req { max_body: MAX_BODY, echo: None, raw: None, protocol_400_ok: false, method, path: path.clone(), ctype: ct, body: b, class, desc }, if exact { "routing:known-path" } else { "routing:unknown-path" }, &mut reqs);
        }
      }
    }
  }
  // ---- B: body space on the real routes with their method
  let repl: &[u8] = if quick { b"\"}0\xff" } else { b"\"{}[]:,0a \n\\\x00\xff" };
  for r in ROUTES.iter() {
    let ctypes: Vec<Option<&'static str>> = match (quick, r.body) {
      (true, Some((doc_ct, _))) => vec![Some(doc_ct), None],
      (true, None) => vec![None],
      _ => CTYPES.to_vec(),
    };
    for &ct in &ctypes {
      push(Req { max_body: MAX_BODY, echo: None, raw: None, protocol_400_ok: false, method: r.method, path: r.path.into(), ctype: ct, body: Some(vec![0xff, 0xfe, b'{', 0xc3]), class: Class::NonUtf8, desc: "non-UTF-8 bytes ff fe 7b c3".into() }, "body:non-utf8", &mut reqs);
      push(
        Req { max_body: MAX_BODY, echo: None, raw: None, protocol_400_ok: false, method: r.method, path: r.path.into(), ctype: ct, body: Some(oversize_body()), class: Class::Oversize, desc: format!("{} bytes (max_body_bytes + 1)", MAX_BODY + 1) },
        "body:oversize",
        &mut reqs,
      );
      for (k, vb) in valid_bodies(r).into_iter().enumerate() {
        if k > 0 {
          if quick {
            break;
          }
          push(Req { max_body: MAX_BODY, echo: None, raw: None, protocol_400_ok: false, method: r.method, path: r.path.into(), ctype: ct, body: Some(vb.as_bytes().to_vec()), class: Class::Valid, desc: format!("second valid {} body {}", r.path, vb.replace('\n', "\\n")) }, "body:second-valid", &mut reqs);
        }
        for (m, d) in mutants(vb.as_bytes(), repl) {
          push(Req { max_body: MAX_BODY, echo: None, raw: None, protocol_400_ok: false, method: r.method, path: r.path.into(), ctype: ct, body: Some(m), class: Class::Mutant, desc: format!("{d} [valid = {}]", vb.replace('\n', "\\n")) }, "body:single-edit-neighbour", &mut reqs);
        }
      }
    }
  }
  for (d, v) in err_searches() {
    push(Req { max_body: MAX_BODY, echo: None, raw: None, protocol_400_ok: false, method: "POST", path: "/search".into(), ctype: Some(JSON), body: Some(v.to_string().into_bytes()), class: Class::ErrSearch, desc: format!("{d}: {v}") }, "body:error-search", &mut reqs);
  }
  Space { reqs, counts }
}


// ---------------------------------------------------------------------------------------------
// echoed-input family: every request location whose content the server may quote back in an
// error reason (or in a 2xx body) gets names built from 1-, 2-, 3- and 4-byte characters, in every
// byte phase, with total byte lengths swept around the powers of two and up to the body limit.

const ECHO_SCHEMA: &str = r#"{"doc_id_field":"_id","text_fields":[{"name":"body","analyzer":"default","stored":true,"indexed":true}],"keyword_fields":[{"name":"tag","stored":true,"indexed":true,"fast":true}],"numeric_fields":[{"name":"n","i64":true,"fast":true,"stored":true}],"nested_fields":[{"name":"c","fields":[{"type":"keyword","name":"t","stored":true,"indexed":true,"fast":true}]}]}"#;
const ECHO_DOCS: &str = "{\"_id\":\"k\",\"body\":\"rust search\",\"tag\":\"x\",\"n\":1,\"c\":[{\"t\":\"u\"}]}\n{\"_id\":\"m\",\"body\":\"more rust\",\"tag\":\"y\",\"n\":2,\"c\":[{\"t\":\"v\"}]}\n";
/// placeholder replaced by the name (names contain no character that needs JSON escaping)
const PH: &str = "@N@";
const ECHO_CHARS: [&str; 4] = ["a", "é", "日", "😀"];

struct EchoLoc {
  name: String,
  st: St,
  path: &'static str,
  ctype: &'static str,
  template: String,
}

fn echo_locations() -> Vec<EchoLoc> {
  let mut out: Vec<EchoLoc> = Vec::new();
  // ---- documents (/add line, /bulk element)
  let docs: [(&str, &str); 7] = [
    ("unknown-field-name", r#"{"_id":"k","@N@":"x"}"#),
    ("id-value", r#"{"_id":"@N@","body":"x"}"#),
    ("text-value", r#"{"_id":"k","body":"@N@"}"#),
    ("keyword-value", r#"{"_id":"k","tag":"@N@"}"#),
    ("numeric-field-given-string", r#"{"_id":"k","n":"@N@"}"#),
    ("nested-unknown-property", r#"{"_id":"k","c":[{"@N@":"x"}]}"#),
    ("nested-value", r#"{"_id":"k","c":[{"t":"@N@"}]}"#),
  ];
  for (n, d) in docs {
    out.push(EchoLoc { name: format!("add.doc.{n}"), st: St::Echo, path: "/add", ctype: NDJSON, template: format!("{d}\n") });
    out.push(EchoLoc { name: format!("bulk.doc.{n}"), st: St::Echo, path: "/bulk", ctype: JSON, template: format!("{{\"docs\":[{d}]}}") });
  }
  for (n, t) in [("add.raw-line", "@N@\n"), ("add.garbage-after-document", "{\"_id\":\"k\",\"body\":\"x\"}@N@\n"), ("add.string-line", "\"@N@\"\n")] {
    out.push(EchoLoc { name: n.into(), st: St::Echo, path: "/add", ctype: NDJSON, template: t.into() });
  }
  for (n, t) in [
    ("bulk.unknown-top-level-key", r#"{"docs":[{"_id":"k","body":"x"}],"@N@":1}"#),
    ("bulk.docs-element-is-string", r#"{"docs":["@N@"]}"#),
    ("bulk.docs-is-string", r#"{"docs":"@N@"}"#),
  ] {
    out.push(EchoLoc { name: n.into(), st: St::Echo, path: "/bulk", ctype: JSON, template: t.into() });
  }
  for (n, t) in [
    ("delete.id", r#"{"ids":["@N@"]}"#),
    ("delete.id-with-leading-space", r#"{"ids":["k"," @N@"]}"#),
    ("delete.unknown-top-level-key", r#"{"@N@":["k"]}"#),
    ("delete.ids-is-string", r#"{"ids":"@N@"}"#),
  ] {
    out.push(EchoLoc { name: n.into(), st: St::Echo, path: "/delete", ctype: JSON, template: t.into() });
  }
  // ---- /init (server without an index)
  let tf = |name: &str, extra: &str| format!(r#"{{"name":"{name}","stored":true,"indexed":true{}}}"#, if extra.is_empty() { r#","analyzer":"default""# } else { extra });
  let schema = |id: &str, analyzers: &str, text: &str, kw: &str, num: &str, nested: &str| {
    format!(r#"{{"doc_id_field":"{id}","analyzers":[{analyzers}],"text_fields":[{text}],"keyword_fields":[{kw}],"numeric_fields":[{num}],"nested_fields":[{nested}]}}"#)
  };
  let body_tf = tf("body", r#","analyzer":"default""#);
  let inits: Vec<(&str, String)> = vec![
    ("text-field-name", schema("_id", "", &tf(PH, ""), "", "", "")),
    ("text-field-analyzer", schema("_id", "", &tf("body", r#","analyzer":"@N@""#), "", "", "")),
    ("text-field-tokenizer", schema("_id", "", &tf("body", r#","tokenizer":"@N@""#), "", "", "")),
    ("text-field-search-analyzer", schema("_id", "", &tf("body", r#","analyzer":"default","search_analyzer":"@N@""#), "", "", "")),
    ("doc-id-field", schema(PH, "", &body_tf, "", "", "")),
    ("doc-id-field-overlapping-a-field", schema(PH, "", &tf(PH, ""), "", "", "")),
    ("duplicate-text-field", schema("_id", "", &format!("{},{}", tf(PH, ""), tf(PH, "")), "", "", "")),
    ("keyword-field-name", schema("_id", "", &body_tf, r#"{"name":"@N@","stored":true,"indexed":true,"fast":true}"#, "", "")),
    ("keyword-field-same-as-text-field", schema("_id", "", &tf(PH, ""), r#"{"name":"@N@","stored":true,"indexed":true,"fast":true}"#, "", "")),
    ("numeric-field-name", schema("_id", "", &body_tf, "", r#"{"name":"@N@","i64":true,"fast":true,"stored":true}"#, "")),
    ("nested-field-name", schema("_id", "", &body_tf, "", "", r#"{"name":"@N@","fields":[{"type":"keyword","name":"t","stored":true,"indexed":true,"fast":true}]}"#)),
    ("nested-property-name", schema("_id", "", &body_tf, "", "", r#"{"name":"c","fields":[{"type":"keyword","name":"@N@","stored":true,"indexed":true,"fast":true}]}"#)),
    ("nested-text-property-analyzer", schema("_id", "", &body_tf, "", "", r#"{"name":"c","fields":[{"type":"text","name":"t","stored":true,"indexed":true,"analyzer":"@N@"}]}"#)),
    ("analyzer-name", schema("_id", r#"{"name":"@N@","tokenizer":"default"}"#, &tf("body", r#","analyzer":"@N@""#), "", "", "")),
    ("analyzer-tokenizer", schema("_id", r#"{"name":"mine","tokenizer":"@N@"}"#, &tf("body", r#","analyzer":"mine""#), "", "", "")),
    ("analyzer-stopwords-name", schema("_id", r#"{"name":"mine","tokenizer":"default","filters":[{"stopwords":"@N@"}]}"#, &tf("body", r#","analyzer":"mine""#), "", "", "")),
    ("unknown-top-level-key", format!(r#"{{"text_fields":[{body_tf}],"keyword_fields":[],"numeric_fields":[],"@N@":1}}"#)),
  ];
  for (n, t) in inits {
    out.push(EchoLoc { name: format!("init.{n}"), st: St::NoIndex, path: "/init", ctype: JSON, template: t });
  }
  // ---- /search
  let search = |query: &str, extra: &str| format!(r#"{{"query":{query},"limit":5,"return_stored":false{}{extra}}}"#, if extra.is_empty() { "" } else { "," });
  let ma = r#"{"type":"match_all"}"#;
  let mut searches: Vec<(String, String)> = vec![
    ("sort.field".into(), search(ma, r#""sort":[{"field":"@N@","order":"asc"}]"#)),
    ("highlight_field".into(), search("\"rust\"", r#""highlight_field":"@N@""#)),
    ("highlight.fields-key".into(), search("\"rust\"", r#""highlight":{"fields":{"@N@":{}}}"#)),
    ("highlight.pre_tag".into(), search("\"rust\"", r#""highlight":{"fields":{"body":{"pre_tag":"@N@"}}}"#)),
    ("collapse.field".into(), search(ma, r#""collapse":{"field":"@N@"}"#)),
    ("fields".into(), search("\"rust\"", r#""fields":["@N@"]"#)),
    ("cursor".into(), search(ma, r#""cursor":"@N@""#)),
    ("execution".into(), search(ma, r#""execution":"@N@""#)),
    ("unknown-top-level-key".into(), search(ma, r#""@N@":1"#)),
    ("suggest.name".into(), search(ma, r#""suggest":{"@N@":{"type":"completion","field":"body","prefix":"ru","size":3}}"#)),
    ("suggest.field".into(), search(ma, r#""suggest":{"s":{"type":"completion","field":"@N@","prefix":"ru","size":3}}"#)),
    ("suggest.prefix".into(), search(ma, r#""suggest":{"s":{"type":"completion","field":"body","prefix":"@N@","size":3}}"#)),
    ("rescore.query-field".into(), search(ma, r#""rescore":{"window_size":5,"query":{"type":"term","field":"@N@","value":"rust"}}"#)),
  ];
  // filters, as the request filter and inside query nodes
  let filters: [(&str, &str); 8] = [
    ("KeywordEq.field", r#"{"KeywordEq":{"field":"@N@","value":"x"}}"#),
    ("KeywordEq.value", r#"{"KeywordEq":{"field":"tag","value":"@N@"}}"#),
    ("KeywordIn.field", r#"{"KeywordIn":{"field":"@N@","values":["x"]}}"#),
    ("I64Range.field", r#"{"I64Range":{"field":"@N@","min":0,"max":5}}"#),
    ("F64Range.field", r#"{"F64Range":{"field":"@N@","min":0.0,"max":5.0}}"#),
    ("Nested.path", r#"{"Nested":{"path":"@N@","filter":{"KeywordEq":{"field":"t","value":"u"}}}}"#),
    ("Nested.inner-field", r#"{"Nested":{"path":"c","filter":{"KeywordEq":{"field":"@N@","value":"u"}}}}"#),
    ("Not.And.field", r#"{"Not":{"And":[{"KeywordEq":{"field":"@N@","value":"x"}}]}}"#),
  ];
  for (n, f) in filters {
    searches.push((format!("filter.{n}"), search(ma, &format!("\"filter\":{f}"))));
  }
  searches.push(("query.bool.filter.field".into(), search(&format!(r#"{{"type":"bool","must":[{ma}],"filter":[{}]}}"#, filters[0].1), "")));
  searches.push(("query.constant_score.filter.field".into(), search(&format!(r#"{{"type":"constant_score","filter":{}}}"#, filters[0].1), "")));
  // query nodes and query strings
  let queries: [(&str, &str); 27] = [
    ("string.field-prefix", r#""@N@:rust""#),
    ("string.term", r#""@N@""#),
    ("string.field-value", r#""body:@N@""#),
    ("string.quoted-phrase", r#""\"@N@ rust\"""#),
    ("type", r#"{"type":"@N@"}"#),
    ("term.field", r#"{"type":"term","field":"@N@","value":"rust"}"#),
    ("term.value", r#"{"type":"term","field":"body","value":"@N@"}"#),
    ("prefix.field", r#"{"type":"prefix","field":"@N@","value":"ru"}"#),
    ("prefix.value", r#"{"type":"prefix","field":"body","value":"@N@"}"#),
    ("wildcard.field", r#"{"type":"wildcard","field":"@N@","value":"ru*"}"#),
    ("wildcard.value", r#"{"type":"wildcard","field":"body","value":"*@N@?"}"#),
    ("regex.field", r#"{"type":"regex","field":"@N@","value":"ru.*"}"#),
    ("regex.invalid-value", r#"{"type":"regex","field":"body","value":"(@N@"}"#),
    ("regex.value", r#"{"type":"regex","field":"body","value":"@N@"}"#),
    ("phrase.field", r#"{"type":"phrase","field":"@N@","terms":["rust","search"]}"#),
    ("phrase.terms", r#"{"type":"phrase","field":"body","terms":["@N@","search"]}"#),
    ("multi_match.fields", r#"{"type":"multi_match","query":"rust","fields":["@N@"]}"#),
    ("query_string.fields", r#"{"type":"query_string","query":"rust","fields":["@N@"]}"#),
    ("query_string.query", r#"{"type":"query_string","query":"@N@:rust"}"#),
    ("rank_feature.field", r#"{"type":"rank_feature","field":"@N@"}"#),
    ("script_score.script", r#"{"type":"script_score","query":{"type":"match_all"},"script":"@N@"}"#),
    ("script_score.script-variable", r#"{"type":"script_score","query":{"type":"match_all"},"script":"_score + @N@"}"#),
    ("script_score.param-name", r#"{"type":"script_score","query":{"type":"match_all"},"script":"_score","params":{"@N@":1.0}}"#),
    ("function_score.field_value_factor.field", r#"{"type":"function_score","query":{"type":"match_all"},"functions":[{"type":"field_value_factor","field":"@N@"}]}"#),
    ("function_score.decay.field", r#"{"type":"function_score","query":{"type":"match_all"},"functions":[{"type":"decay","field":"@N@","origin":0.0,"scale":1.0}]}"#),
    ("dis_max.term.field", r#"{"type":"dis_max","queries":[{"type":"term","field":"@N@","value":"rust"}]}"#),
    ("bool.must_not.term.field", r#"{"type":"bool","must":[{"type":"match_all"}],"must_not":[{"type":"term","field":"@N@","value":"rust"}]}"#),
  ];
  for (n, q) in queries {
    searches.push((format!("query.{n}"), search(q, "")));
  }
  // aggregations
  let aggs: [(&str, &str); 22] = [
    ("name", r#"{"@N@":{"type":"terms","field":"tag","size":3}}"#),
    ("name-with-unknown-field", r#"{"@N@":{"type":"terms","field":"nope","size":3}}"#),
    ("terms.field", r#"{"a":{"type":"terms","field":"@N@","size":3}}"#),
    ("terms.missing", r#"{"a":{"type":"terms","field":"tag","size":3,"missing":"@N@"}}"#),
    ("significant_terms.field", r#"{"a":{"type":"significant_terms","field":"@N@"}}"#),
    ("rare_terms.field", r#"{"a":{"type":"rare_terms","field":"@N@"}}"#),
    ("range.field", r#"{"a":{"type":"range","field":"@N@","keyed":false,"ranges":[{"from":0.0,"to":5.0}]}}"#),
    ("range.key", r#"{"a":{"type":"range","field":"n","keyed":false,"ranges":[{"key":"@N@","from":0.0,"to":5.0}]}}"#),
    ("date_range.field", r#"{"a":{"type":"date_range","field":"@N@","keyed":false,"ranges":[{"from":"2020-01-01T00:00:00Z"}]}}"#),
    ("date_range.from", r#"{"a":{"type":"date_range","field":"n","keyed":false,"ranges":[{"from":"@N@"}]}}"#),
    ("histogram.field", r#"{"a":{"type":"histogram","field":"@N@","interval":1.0}}"#),
    ("date_histogram.field", r#"{"a":{"type":"date_histogram","field":"@N@","fixed_interval":"1d"}}"#),
    ("date_histogram.fixed_interval", r#"{"a":{"type":"date_histogram","field":"n","fixed_interval":"@N@"}}"#),
    ("date_histogram.calendar_interval", r#"{"a":{"type":"date_histogram","field":"n","calendar_interval":"@N@"}}"#),
    ("stats.field", r#"{"a":{"type":"stats","field":"@N@"}}"#),
    ("cardinality.field", r#"{"a":{"type":"cardinality","field":"@N@"}}"#),
    ("percentiles.field", r#"{"a":{"type":"percentiles","field":"@N@"}}"#),
    ("top_hits.sort.field", r#"{"a":{"type":"top_hits","size":1,"sort":[{"field":"@N@"}]}}"#),
    ("top_hits.highlight_field", r#"{"a":{"type":"top_hits","size":1,"highlight_field":"@N@"}}"#),
    ("composite.source.field", r#"{"a":{"type":"composite","size":2,"sources":[{"type":"terms","name":"s","field":"@N@"}]}}"#),
    ("composite.source.name", r#"{"a":{"type":"composite","size":2,"sources":[{"type":"terms","name":"@N@","field":"tag"}]}}"#),
    ("top-level-pipeline.buckets_path", r#"{"h":{"type":"histogram","field":"n","interval":1.0},"p":{"type":"avg_bucket","buckets_path":"@N@"}}"#),
  ];
  for (n, a) in aggs {
    searches.push((format!("aggs.{n}"), search(ma, &format!("\"aggs\":{a}"))));
  }
  searches.push(("aggs.sub.avg_bucket.buckets_path".into(), search(ma, r#""aggs":{"a":{"type":"terms","field":"tag","size":3,"aggs":{"s":{"type":"stats","field":"n"},"p":{"type":"avg_bucket","buckets_path":"@N@"}}}}"#)));
  searches.push(("aggs.sub.bucket_sort.sort-key".into(), search(ma, r#""aggs":{"a":{"type":"terms","field":"tag","size":3,"aggs":{"s":{"type":"stats","field":"n"},"o":{"type":"bucket_sort","sort":[{"@N@":"desc"}],"size":2}}}}"#)));
  searches.push(("aggs.type".into(), search(ma, r#""aggs":{"a":{"type":"@N@","field":"tag"}}"#)));
  searches.push(("aggs.sub.terms.field".into(), search(ma, r#""aggs":{"a":{"type":"terms","field":"tag","size":3,"aggs":{"b":{"type":"stats","field":"@N@"}}}}"#)));
  searches.push(("aggs.filter.field".into(), search(ma, &format!(r#""aggs":{{"a":{{"type":"filter","filter":{}}}}}"#, filters[0].1))));
  searches.push(("aggs.bucket_script.script".into(), search(ma, r#""aggs":{"h":{"type":"histogram","field":"n","interval":1.0,"aggs":{"s":{"type":"bucket_script","buckets_path":{"c":"_count"},"script":"@N@"}}}}"#)));
  for (n, t) in searches {
    out.push(EchoLoc { name: format!("search.{n}"), st: St::Echo, path: "/search", ctype: JSON, template: t });
  }
  for l in &out {
    assert!(l.template.contains(PH), "echo location {} has no placeholder", l.name);
  }
  out
}

#[derive(Clone, Copy, PartialEq, Eq)]
enum Sweep {
  /// everything small, a window around every power of two, the largest names the body admits
  Dense,
  /// a handful of lengths (quick tier, locations that did not quote the probe names back)
  Sparse,
}

/// Total byte lengths of the planted names. Dense: 1..small, then a window around every power of
/// two that is wide enough (>= 4 consecutive values) to put every byte phase of a 4-byte character
/// at the end of the name, then the largest names the body limit admits.
fn echo_lengths(quick: bool, sweep: Sweep, lmax: usize) -> Vec<usize> {
  let mut v: Vec<usize> = Vec::new();
  if sweep == Sweep::Sparse {
    v.extend([1, 2, 3, 4, 16, 256, 4096, lmax]);
  } else {
    let (small, below, above, top) = if quick { (16, 2, 3, 4096) } else { (40, 8, 18, 16384) };
    v.extend(1..=small);
    let mut s = 16;
    while s <= top {
      v.extend(s - below..=s + above);
      s *= 2;
    }
    v.extend(lmax.saturating_sub(if quick { 3 } else { 8 })..=lmax);
  }
  v.retain(|&l| l >= 1 && l <= lmax);
  v.sort_unstable();
  v.dedup();
  v
}

/// `pad` ASCII bytes, then as many `width`-byte characters as fit, then ASCII filler up to `len`
/// bytes: sweeping pad over 0..width and len over >= width consecutive values puts a character
/// boundary at every phase relative to any fixed offset counted from the front or from the end.
fn echo_name(width: usize, pad: usize, len: usize) -> Option<String> {
  if len < pad + width {
    return None;
  }
  let m = (len - pad) / width;
  let q = len - pad - m * width;
  let mut s = String::with_capacity(len);
  s.push_str(&"a".repeat(pad));
  s.push_str(&ECHO_CHARS[width - 1].repeat(m));
  s.push_str(&"a".repeat(q));
  debug_assert_eq!(s.len(), len);
  Some(s)
}

/// (width, pad, len) of every name planted at `loc`, simplest first, without duplicates.
fn echo_names(loc: &EchoLoc, quick: bool, sweep: Sweep) -> Vec<(usize, usize, usize)> {
  let occurrences = loc.template.matches(PH).count();
  let overhead = loc.template.len() - occurrences * PH.len();
  let lmax = (echo_max_body(quick) - overhead) / occurrences;
  let mut out = Vec::new();
  for len in echo_lengths(quick, sweep, lmax) {
    for width in 1..=4usize {
      for pad in 0..width {
        // at least one character of the given width, so that all (width, pad, len) are distinct
        if len >= pad + width {
          out.push((width, pad, len));
        }
      }
    }
  }
  out
}

/// Names used to find out whether a location quotes its content back.
const ECHO_PROBES: [(usize, usize, usize); 8] = [(1, 0, 32), (2, 0, 32), (3, 0, 32), (4, 0, 32), (1, 0, 96), (2, 1, 96), (3, 2, 96), (4, 3, 96)];

/// Does the answer contain the first characters of the planted name (raw or JSON-escaped)?
fn quoted_back(name: &str, body: &[u8]) -> bool {
  if name.chars().count() < 8 {
    return false;
  }
  let probe: String = name.chars().take(8).collect();
  if String::from_utf8_lossy(body).contains(&probe) {
    return true;
  }
  fn walk(v: &Value, probe: &str) -> bool {
    match v {
      Value::String(s) => s.contains(probe),
      Value::Array(a) => a.iter().any(|x| walk(x, probe)),
      Value::Object(o) => o.iter().any(|(k, x)| k.contains(probe) || walk(x, probe)),
      _ => false,
    }
  }
  serde_json::from_slice::<Value>(body).map(|v| walk(&v, &probe)).unwrap_or(false)
}

fn echo_req(loc_idx: usize, loc: &EchoLoc, quick: bool, width: usize, pad: usize, len: usize) -> Req {
  let name = echo_name(width, pad, len).expect("name");
  let body = loc.template.replace(PH, &name).into_bytes();
  Req {
    max_body: echo_max_body(quick),
    method: "POST",
    path: loc.path.to_string(),
    ctype: Some(loc.ctype),
    body: Some(body),
    raw: None,
    protocol_400_ok: false,
    class: Class::Echo,
    desc: format!(
      "echo location {} = {}; template {} with @N@ = {} ASCII byte(s) + {}-byte characters {:?} (+ ASCII filler) = {} bytes",
      loc_idx,
      loc.name,
      loc.template.trim_end(),
      pad,
      width,
      ECHO_CHARS[width - 1],
      len
    ),
    echo: Some((loc_idx, name)),
  }
}

#[derive(Default, Clone)]
struct LocStat {
  requests: u64,
  non_2xx: u64,
  echoed: u64,
  max_body_bytes: usize,
  statuses: std::collections::BTreeSet<u16>,
  error_types: std::collections::BTreeSet<String>,
}

// ---------------------------------------------------------------------------------------------
// header-value and query-string family: every route with its method and its valid body, with one
// request header (or the query string) carrying non-ASCII / unusual bytes, sent as raw bytes.

fn raw_request(method: &str, target: &[u8], headers: &[(&str, Vec<u8>)], body: Option<&[u8]>) -> Vec<u8> {
  let mut out = Vec::new();
  out.extend_from_slice(method.as_bytes());
  out.push(b' ');
  out.extend_from_slice(target);
  out.extend_from_slice(b" HTTP/1.1\r\n");
  if !headers.iter().any(|(k, _)| k.eq_ignore_ascii_case("host")) {
    out.extend_from_slice(b"Host: 127.0.0.1\r\n");
  }
  out.extend_from_slice(b"Connection: close\r\n");
  for (k, v) in headers {
    out.extend_from_slice(k.as_bytes());
    out.extend_from_slice(b": ");
    out.extend_from_slice(v);
    out.extend_from_slice(b"\r\n");
  }
  if let Some(b) = body {
    out.extend_from_slice(format!("Content-Length: {}\r\n", b.len()).as_bytes());
  }
  out.extend_from_slice(b"\r\n");
  if let Some(b) = body {
    out.extend_from_slice(b);
  }
  out
}

/// (label, bytes, forbidden by HTTP itself)
fn odd_texts() -> Vec<(&'static str, Vec<u8>, bool)> {
  vec![
    ("2-byte UTF-8 character 'é'", "caf\u{e9}".as_bytes().to_vec(), false),
    ("3-byte UTF-8 character '日'", "x\u{65e5}".as_bytes().to_vec(), false),
    ("4-byte UTF-8 character '😀'", "x\u{1f600}".as_bytes().to_vec(), false),
    ("lone Latin-1 byte 0xE9", vec![b'c', b'a', b'f', 0xe9], false),
    ("lone byte 0x80", vec![b'x', 0x80], false),
    ("lone byte 0xFF", vec![b'x', 0xff], false),
    ("a tab", b"a\tb".to_vec(), false),
    ("control byte 0x01", vec![b'a', 0x01, b'b'], true),
    ("control byte 0x7F", vec![b'a', 0x7f, b'b'], true),
    ("NUL byte", vec![b'a', 0x00, b'b'], true),
  ]
}

const ODD_HEADERS: [&str; 9] = ["Content-Type", "Accept", "Accept-Encoding", "Accept-Language", "Authorization", "Host", "User-Agent", "Cookie", "X-Request-Id"];

/// The header value: the usual value of that header with the odd text appended as a parameter.
fn odd_header_value(header: &str, base_ctype: &str, text: &[u8]) -> Vec<u8> {
  let (pre, post): (String, &str) = match header {
    "Content-Type" => (format!("{base_ctype}; charset=utf-8; title=\""), "\""),
    "Accept" => ("application/json; q=0.9; title=\"".into(), "\""),
    "Accept-Encoding" => ("identity; x=\"".into(), "\""),
    "Accept-Language" => ("en; x=\"".into(), "\""),
    "Authorization" => ("Bearer ".into(), ""),
    "Host" => ("127.0.0.1".into(), ""),
    "User-Agent" => ("curl/8.0 (".into(), ")"),
    "Cookie" => ("session=".into(), ""),
    _ => ("id-".into(), ""),
  };
  let mut v = pre.into_bytes();
  v.extend_from_slice(text);
  v.extend_from_slice(post.as_bytes());
  v
}

fn header_family() -> Vec<Req> {
  let mut out = Vec::new();
  let hexs = |b: &[u8]| b.iter().map(|x| if (0x20..0x7f).contains(x) { (*x as char).to_string() } else { format!("\\x{x:02x}") }).collect::<String>();
  for r in ROUTES.iter() {
    let (ct, body): (Option<&'static str>, Option<Vec<u8>>) = match r.body {
      Some((ct, vb)) => (Some(ct), Some(vb.as_bytes().to_vec())),
      None => (None, None),
    };
    for header in ODD_HEADERS {
      for (label, text, forbidden) in odd_texts() {
        let value = odd_header_value(header, ct.unwrap_or(JSON), &text);
        let mut headers: Vec<(&str, Vec<u8>)> = Vec::new();
        if let (Some(c), false) = (ct, header == "Content-Type") {
          headers.push(("Content-Type", c.as_bytes().to_vec()));
        }
        headers.push((header, value.clone()));
        let raw = raw_request(r.method, r.path.as_bytes(), &headers, body.as_deref());
        out.push(Req {
          method: r.method,
          path: r.path.to_string(),
          ctype: ct,
          body: body.clone(),
          class: Class::Header,
          desc: format!("valid {} request with header {header}: {} ({label})", r.path, hexs(&value)),
          max_body: MAX_BODY,
          echo: None,
          raw: Some(raw),
          protocol_400_ok: forbidden,
        });
      }
    }
    // query string: percent-encoded (valid HTTP) and raw (not valid HTTP) non-ASCII bytes
    let queries: [(&str, &[u8], bool); 8] = [
      ("percent-encoded 'é'", b"?q=caf%C3%A9", false),
      ("percent-encoded '😀'", b"?q=%F0%9F%98%80", false),
      ("percent-encoded lone 0xE9", b"?q=caf%E9", false),
      ("percent-encoded 0xFF and NUL", b"?q=%FF%00", false),
      ("truncated percent escape", b"?q=%C3%", false),
      ("raw UTF-8 'é'", b"?q=caf\xc3\xa9", true),
      ("raw lone 0xE9", b"?q=caf\xe9", true),
      ("raw 0xFF", b"?q=\xff", true),
    ];
    for (label, q, forbidden) in queries {
      let mut target = r.path.as_bytes().to_vec();
      target.extend_from_slice(q);
      let mut headers: Vec<(&str, Vec<u8>)> = Vec::new();
      if let Some(c) = ct {
        headers.push(("Content-Type", c.as_bytes().to_vec()));
      }
      let raw = raw_request(r.method, &target, &headers, body.as_deref());
      out.push(Req {
        method: r.method,
        path: r.path.to_string(),
        ctype: ct,
        body: body.clone(),
        class: Class::Header,
        desc: format!("valid {} request with query string {} ({label})", r.path, hexs(q)),
        max_body: MAX_BODY,
        echo: None,
        raw: Some(raw),
        protocol_400_ok: forbidden,
      });
    }
  }
  out
}

// ---------------------------------------------------------------------------------------------
// oracle

fn is_int(v: Option<&Value>) -> bool {
  v.map(|x| x.is_u64() || x.is_i64()).unwrap_or(false)
}
fn is_str(v: Option<&Value>) -> bool {
  v.map(|x| x.is_string()).unwrap_or(false)
}
fn is_bool(v: Option<&Value>) -> bool {
  v.map(|x| x.is_boolean()).unwrap_or(false)
}

/// Documented 2xx shape (openapi.yaml components) for `route`.
fn shape_ok(route: &Route, v: &Value) -> Result<(), String> {
  let Some(o) = v.as_object() else {
    return Err("2xx body is not a JSON object".into());
  };
  let need = |ok: bool, what: &str| if ok { Ok(()) } else { Err(format!("2xx body lacks {what}")) };
  match route.path {
    "/healthz" => need(is_str(o.get("status")), "status:string"),
    "/init" => need(is_bool(o.get("created")), "created:boolean"),
    "/add" | "/bulk" | "/delete" => need(is_int(o.get("queued")), "queued:integer"),
    "/commit" => need(is_bool(o.get("committed")), "committed:boolean"),
    "/refresh" => need(is_bool(o.get("refreshed")), "refreshed:boolean"),
    "/compact" => need(is_bool(o.get("compacted")), "compacted:boolean"),
    "/search" => {
      need(is_int(o.get("total_hits_estimate")), "total_hits_estimate:integer")?;
      let Some(hits) = o.get("hits").and_then(|h| h.as_array()) else {
        return Err("2xx body lacks hits:array".into());
      };
      for h in hits {
        need(is_str(h.get("doc_id")), "hits[].doc_id:string")?;
        need(h.get("score").map(|s| s.is_number()).unwrap_or(false), "hits[].score:number")?;
      }
      Ok(())
    }
    "/inspect" => {
      let Some(m) = o.get("manifest").and_then(|m| m.as_object()) else {
        return Err("2xx body lacks manifest:object".into());
      };
      need(is_int(m.get("version")), "manifest.version:integer")?;
      need(is_str(m.get("uuid")), "manifest.uuid:string")?;
      need(is_str(m.get("committed_at")), "manifest.committed_at:string")?;
      need(m.get("schema").map(|s| s.is_object()).unwrap_or(false), "manifest.schema:object")?;
      need(m.get("segments").map(|s| s.is_array()).unwrap_or(false), "manifest.segments:array")
    }
    "/stats" => {
      for k in ["documents", "deleted_documents", "segments"] {
        need(is_int(o.get(k)), &format!("{k}:integer"))?;
      }
      for k in ["committed_at", "index_uuid", "index_path"] {
        need(is_str(o.get(k)), &format!("{k}:string"))?;
      }
      Ok(())
    }
    _ => Ok(()),
  }
}

/// True when the documentation leaves no doubt that `body` is not a valid request body of `route`.
fn definitely_invalid(route: &Route, body: &[u8]) -> bool {
  if route.path == "/add" {
    let Ok(text) = std::str::from_utf8(body) else {
      return true;
    };
    return text.split('\n').any(|line| {
      let t = line.trim();
      !t.is_empty() && !matches!(serde_json::from_str::<Value>(t), Ok(Value::Object(_)))
    });
  }
  // Only the first JSON value counts: the documentation does not say what happens to bytes that
  // follow a complete JSON document (the server ignores them), so such bodies are not "certainly
  // invalid".
  let Some(Ok(v)) = serde_json::Deserializer::from_slice(body).into_iter::<Value>().next() else {
    return true;
  };
  let Some(o) = v.as_object() else {
    return true;
  };
  match route.path {
    "/init" => ["text_fields", "keyword_fields", "numeric_fields"].iter().any(|k| !o.get(*k).map(|x| x.is_array()).unwrap_or(false)),
    "/bulk" => !o.get("docs").and_then(|d| d.as_array()).map(|a| !a.is_empty() && a.iter().all(|d| d.is_object())).unwrap_or(false),
    "/delete" => !o.get("ids").and_then(|d| d.as_array()).map(|a| !a.is_empty() && a.iter().all(|d| d.as_str().map(|s| !s.trim().is_empty() && s.trim() == s).unwrap_or(false))).unwrap_or(false),
    "/search" => !o.contains_key("query"),
    _ => false,
  }
}

fn top_level_pipeline_agg(body: Option<&[u8]>) -> bool {
  let Some(v) = body.and_then(|b| serde_json::from_slice::<Value>(b).ok()) else {
    return false;
  };
  v.get("aggs")
    .and_then(|a| a.as_object())
    .map(|a| a.values().any(|x| matches!(x.get("type").and_then(|t| t.as_str()), Some("bucket_sort" | "avg_bucket" | "sum_bucket" | "derivative" | "moving_avg" | "bucket_script"))))
    .unwrap_or(false)
}

struct Verdict {
  outcome: String,
  failure: Option<(Option<&'static str>, String)>,
  non_2xx: bool,
}

fn judge(st: St, req: &Req, out: &Result<Resp, String>, panics: &[String]) -> Verdict {
  let route = route_of(&req.path);
  let method_ok = route.map(|r| r.method == req.method).unwrap_or(false);
  let fail = |sig: Option<&'static str>, msg: String, outcome: String, non_2xx: bool| Verdict {
    outcome,
    failure: Some((sig, format!("state {}: {} -> {}{}", st.name(), req.line(), msg, if panics.is_empty() { String::new() } else { format!(" [server panic: {}]", panics.join(" | ")) }))),
    non_2xx,
  };
  let resp = match out {
    Err(e) => {
      let sig = if !panics.is_empty() && !e.starts_with("timeout") && !e.starts_with("connect") { Some(SIG_PANIC_DROP) } else { None };
      return fail(sig, format!("no HTTP response: {e}"), "no-response".into(), true);
    }
    Ok(r) => r,
  };
  let status = resp.status;
  let two = resp.is_2xx();
  let env = envelope(&resp.body);
  let outcome = format!(
    "{}:{}:{}",
    if route.is_none() { "unknown-path" } else if !method_ok { "wrong-method" } else { route.unwrap().path },
    status,
    if two { "ok".to_string() } else { env.as_ref().map(|e| e.0.clone()).unwrap_or_else(|| if resp.body.is_empty() { "<empty body>".into() } else { "<no envelope>".into() }) }
  );
  let shown = format!("{} {}", status, if resp.body.is_empty() { "<empty body>".to_string() } else { resp.body_text() });
  // ---- well-formedness
  if req.protocol_400_ok && status == 400 && env.is_none() {
    // answered by the HTTP layer below the application (the request is not valid HTTP)
    return Verdict { outcome: "protocol-level:400".into(), failure: None, non_2xx: true };
  }
  if !two && env.is_none() {
    let sig = match route {
      None if status == 404 && resp.body.is_empty() => Some(SIG_UNKNOWN_ROUTE),
      Some(_) if !method_ok && status == 405 && resp.body.is_empty() => Some(SIG_METHOD),
      _ => None,
    };
    return fail(sig, format!("{shown}; every non-2xx response must carry {{\"error\":{{\"type\":string,\"reason\":string}}}}"), outcome, true);
  }
  if !resp.header("content-type").map(|c| c.to_ascii_lowercase().starts_with("application/json")).unwrap_or(false) {
    return fail(None, format!("{shown} with Content-Type {:?}; documented responses are application/json", resp.header("content-type")), outcome, !two);
  }
  if two {
    let Some(v) = resp.json() else {
      return fail(None, format!("{shown}: 2xx body is not JSON"), outcome, false);
    };
    if let (Some(r), true) = (route, method_ok) {
      if let Err(e) = shape_ok(r, &v) {
        return fail(None, format!("{shown}: {e}"), outcome, false);
      }
    }
  }
  // ---- status
  let five = status >= 500;
  let four = (400..500).contains(&status);
  let expect: Result<(), String> = match (route, method_ok) {
    (None, _) => {
      if four { Ok(()) } else { Err("a 4xx error for an unknown path".into()) }
    }
    (Some(_), false) => {
      if four { Ok(()) } else { Err("a 4xx error for an unsupported method".into()) }
    }
    (Some(r), true) => {
      let missing = st == St::NoIndex && r.needs_index;
      let normal = if r.path == "/init" {
        if st == St::NoIndex { 200 } else { 409 }
      } else if missing {
        404
      } else {
        200
      };
      let body = req.body.as_deref();
      match req.class {
        Class::Header => {
          // a valid request with an unusual header value / query string: it may be served or
          // refused, but it is never a server error and never succeeds without an index
          if five || (missing && !four) {
            Err("2xx or 4xx (4xx while the index is missing)".into())
          } else {
            Ok(())
          }
        }
        Class::Oversize => {
          let ok = status == 413 || (missing && status == 404) || (r.body.is_none() && status == normal);
          if ok { Ok(()) } else { Err(format!("413 for a body of {} bytes with --max-body-bytes {MAX_BODY}", MAX_BODY + 1)) }
        }
        _ if r.body.is_none() => {
          if matches!(req.class, Class::NoBody | Class::Empty) {
            if status == normal { Ok(()) } else { Err(format!("{normal}")) }
          } else if five || (missing && !four) {
            Err("2xx or 4xx (4xx while the index is missing)".into())
          } else {
            Ok(())
          }
        }
        _ => {
          let (doc_ct, _) = r.body.unwrap();
          let exact_valid = valid_bodies(r).iter().any(|vb| body == Some(vb.as_bytes())) && (req.ctype == Some(doc_ct));
          if exact_valid {
            if status == normal { Ok(()) } else { Err(format!("{normal} for the documented valid request")) }
          } else if body.map(|b| definitely_invalid(r, b)).unwrap_or(true) && !(r.path == "/add" && body.map(|b| b.is_empty()).unwrap_or(true)) {
            if four { Ok(()) } else { Err("a 4xx error for an invalid request body".into()) }
          } else if five {
            Err("2xx or 4xx (a request is either valid or invalid input)".into())
          } else if (missing || (r.path == "/init" && st != St::NoIndex)) && !four {
            Err(if missing { "a 4xx error while the index is missing".into() } else { "a 4xx error: the index already exists".into() })
          } else {
            Ok(())
          }
        }
      }
    }
  };
  match expect {
    Ok(()) => Verdict { outcome, failure: None, non_2xx: !two },
    Err(want) => {
      // narrow: a /search whose `cursor` string contains non-ASCII characters made the blocking
      // search task panic on a UTF-8 slicing error and the join error was mapped to 500
      let non_ascii_cursor = req
        .body
        .as_deref()
        .and_then(|b| serde_json::from_slice::<Value>(b).ok())
        .and_then(|v| v.get("cursor").and_then(|c| c.as_str()).map(|c| !c.is_ascii()))
        .unwrap_or(false);
      let sig = if status == 500
        && req.path == "/search"
        && method_ok
        && non_ascii_cursor
        && env.as_ref().map(|e| e.0 == "search_join").unwrap_or(false)
        && panics.iter().any(|p| p.contains("Utf8Error"))
      {
        Some(SIG_PANIC_500)
      } else if status == 500
        && req.path == "/search"
        && method_ok
        && env.as_ref().map(|e| e.0 == "search_join").unwrap_or(false)
        && panics.iter().any(|p| p.contains("pipeline aggregations are applied during finalize"))
        && top_level_pipeline_agg(req.body.as_deref())
      {
        // narrow: a pipeline aggregation placed at the top level of `aggs` (the README only shows
        // them as sub-aggregations) reaches an `unreachable!` in the collector
        Some(SIG_TOP_PIPELINE)
      } else {
        None
      };
      fail(sig, format!("{shown}; expected {want}"), outcome, !two)
    }
  }
}

// ---------------------------------------------------------------------------------------------
// sessions

fn setup(st: St, max_body: usize) -> Server {
  let mb = max_body.to_string();
  let srv = Server::fresh("c24", &["--max-body-bytes", &mb]);
  let must = |what: &str, r: Result<Resp, String>| match r {
    Ok(r) if r.is_2xx() => {}
    Ok(r) => vcore::ev::machinery_failure(&format!("C24 setup {what}: {} {}", r.status, r.body_text())),
    Err(e) => vcore::ev::machinery_failure(&format!("C24 setup {what}: {e}")),
  };
  if st == St::Echo {
    must("/init", srv.send("POST", "/init", Some(JSON), Some(ECHO_SCHEMA.as_bytes())));
    must("/add", srv.send("POST", "/add", Some(NDJSON), Some(ECHO_DOCS.as_bytes())));
    must("/commit", srv.send("POST", "/commit", None, None));
    return srv;
  }
  if st != St::NoIndex {
    must("/init", srv.post_json("/init", &http_schema()));
    must("/add", srv.send("POST", "/add", Some(NDJSON), Some(b"{\"_id\":\"k\",\"body\":\"rust search\"}\n{\"_id\":\"m\",\"body\":\"more rust\"}\n")));
    must("/commit", srv.send("POST", "/commit", None, None));
  }
  if st == St::Queued {
    must("/add", srv.send("POST", "/add", Some(NDJSON), Some(b"{\"_id\":\"q\",\"body\":\"queued rust\"}\n")));
  }
  srv
}

/// Did this exchange (possibly) change the server state the oracle depends on?
fn dirties(st: St, req: &Req, out: &Result<Resp, String>) -> bool {
  let Some(r) = route_of(&req.path) else {
    return false;
  };
  if r.method != req.method || !matches!(r.path, "/init" | "/add" | "/bulk" | "/delete" | "/commit" | "/compact") {
    return false;
  }
  if st == St::Echo {
    // all documents of the echo index are committed and no echo request depends on the queue:
    // only a missing answer or a 5xx makes the server suspect (the caller also rebuilds it after
    // a number of acknowledged writes)
    return match out {
      Err(_) => true,
      Ok(resp) => resp.status >= 500,
    };
  }
  match out {
    Err(_) => true,
    Ok(resp) => {
      if resp.status >= 500 {
        return true;
      }
      if resp.is_2xx() {
        return match r.path {
          "/commit" => st == St::Queued,
          "/compact" => false,
          "/add" | "/bulk" | "/delete" => resp.json().and_then(|v| v.get("queued").and_then(|q| q.as_u64())) != Some(0),
          _ => true,
        };
      }
      if req.class == Class::Echo && r.path == "/init" && st == St::NoIndex {
        // a rejected echo /init: the caller confirms with GET /stats (404 index_missing) that the
        // server is still without an index instead of rebuilding it
        return false;
      }
      match resp.error_type().as_deref() {
        Some("add_failed") | Some("delete_failed") | Some("init_failed") => true,
        _ => r.path == "/init" && st == St::NoIndex && resp.error_type().as_deref() != Some("invalid_request"),
      }
    }
  }
}

struct One {
  verdict: Verdict,
  health_failure: Option<String>,
  dirty: bool,
  /// (status, body) of the answer, kept for echo-family requests only
  answer: Option<(u16, Vec<u8>)>,
}

fn run_one(srv: &Server, st: St, req: &Req) -> One {
  let bytes = req.raw.clone().unwrap_or_else(|| request_bytes(req.method, &req.path, req.ctype, req.body.as_deref()));
  let out = exchange(srv.port, &bytes, TIMEOUT);
  // a panic message is recorded before the connection task unwinds; give the hook a moment only
  // when the response is missing
  if out.is_err() {
    std::thread::sleep(Duration::from_millis(5));
  }
  let panics = srv.take_panics();
  let verdict = judge(st, req, &out, &panics);
  let h = exchange(srv.port, &request_bytes("GET", "/healthz", None, None), TIMEOUT);
  let health_failure = match h {
    Ok(r) if r.status == 200 && r.json().map(|v| v.get("status").map(|s| s.is_string()).unwrap_or(false)).unwrap_or(false) => None,
    Ok(r) => Some(format!("GET /healthz afterwards answered {} {}", r.status, r.body_text())),
    Err(e) => Some(format!("GET /healthz afterwards got no response: {e}")),
  };
  if !srv.is_running() {
    vcore::ev::machinery_failure(&format!("C24: server task ended after {}", req.line()));
  }
  let dirty = dirties(st, req, &out) || health_failure.is_some();
  let answer = if req.echo.is_some() { out.ok().map(|r| (r.status, r.body)) } else { None };
  One { verdict, health_failure, dirty, answer }
}

pub fn run(ctx: &Ctx) -> i32 {
  let mut rep = Reporter::new("C24", ctx.tier, "exploration");
  let quick = ctx.tier.is_quick();
  if let Some(path) = &ctx.replay {
    rep.set_replaying(true);
    let v: Value = serde_json::from_slice(&std::fs::read(path).expect("replay file")).expect("json");
    let (st, req) = Req::from_json(&v["case"]);
    let once = || {
      let srv = setup(st, req.max_body);
      let o = run_one(&srv, st, &req);
      match (o.verdict.failure, o.health_failure) {
        (Some((sig, w)), _) => Some((sig, w)),
        (None, Some(h)) => Some((None, format!("state {}: {} -> {h}", st.name(), req.line()))),
        (None, None) => None,
      }
    };
    let (a, b) = (once(), once());
    if a.is_some() != b.is_some() {
      vcore::ev::machinery_failure("NONDETERMINISM on replay");
    }
    return match a {
      Some((sig, w)) => {
        println!("VIOLATION property=C24 replay={path}\n  signature: {}\n  what: {w}", sig.unwrap_or("-"));
        1
      }
      None => {
        println!("replay: no violation");
        0
      }
    };
  }

  let space = build_space(quick);
  let states = [St::NoIndex, St::Index, St::Queued];
  let chunk = 250;
  let deadline = if quick { 36.0 } else { 840.0 };
  let timed_out = AtomicBool::new(false);
  let evals = AtomicU64::new(0);
  let non2xx = AtomicU64::new(0);
  let restarts = AtomicU64::new(0);
  let outcomes: Mutex<BTreeMap<String, u64>> = Mutex::new(BTreeMap::new());
  // failures are gathered and reported in enumeration order so that the first one is minimal:
  // (state, sequence number, signature, what, case)
  let failures: Mutex<Vec<(usize, usize, Option<&'static str>, String, Value)>> = Mutex::new(Vec::new());
  // one request on the job's server (started / rebuilt on demand)
  let step = |st: St, req: &Req, seq: usize, srv: &mut Option<Server>, local: &mut BTreeMap<String, u64>| -> Option<(u16, Vec<u8>)> {
    if srv.is_none() {
      *srv = Some(setup(st, req.max_body));
      restarts.fetch_add(1, Ordering::Relaxed);
    }
    let o = run_one(srv.as_ref().unwrap(), st, req);
    evals.fetch_add(1, Ordering::Relaxed);
    if o.verdict.non_2xx {
      non2xx.fetch_add(1, Ordering::Relaxed);
    }
    *local.entry(o.verdict.outcome.clone()).or_default() += 1;
    if let Some((sig, what)) = o.verdict.failure {
      failures.lock().push((st as usize, seq, sig, what, req.to_json(st)));
    } else if let Some(h) = &o.health_failure {
      failures.lock().push((st as usize, seq, None, format!("state {}: {} -> {h}", st.name(), req.line()), req.to_json(st)));
    } else if seq % 997 == 0 {
      rep.sample(json!({"state": st.name(), "request": req.line(), "outcome": o.verdict.outcome}));
    }
    if o.dirty {
      *srv = None;
    }
    o.answer
  };

  // ---- phase 0: header-value / query-string family (first: no wall budget can skip it)
  let hdr_reqs = header_family();
  let hdr_states = [St::Index, St::NoIndex];
  let hdr_total = hdr_reqs.len() * hdr_states.len();
  let hdr_outcomes: Mutex<BTreeMap<String, u64>> = Mutex::new(BTreeMap::new());
  {
    let mut hjobs: Vec<(usize, St, usize, usize)> = Vec::new();
    for (si, &st) in hdr_states.iter().enumerate() {
      let mut i = 0;
      while i < hdr_reqs.len() {
        let hi = (i + 60).min(hdr_reqs.len());
        hjobs.push((si, st, i, hi));
        i = hi;
      }
    }
    hjobs.par_iter().for_each(|&(si, st, lo, hi)| {
      let mut srv: Option<Server> = None;
      let mut local: BTreeMap<String, u64> = BTreeMap::new();
      for i in lo..hi {
        step(st, &hdr_reqs[i], i * hdr_states.len() + si, &mut srv, &mut local);
      }
      let mut g = hdr_outcomes.lock();
      let mut o = outcomes.lock();
      for (k, n) in local {
        *g.entry(k.clone()).or_default() += n;
        *o.entry(format!("header:{k}")).or_default() += n;
      }
    });
  }
  let hdr_wall = rep.elapsed_s();
  let hdr_outcomes = hdr_outcomes.into_inner();

  // ---- phase 1: the echoed-input family (before the big spaces as well)
  let locs = echo_locations();
  let loc_stats: Mutex<Vec<LocStat>> = Mutex::new(vec![LocStat::default(); locs.len()]);
  // one echo request: run it, update the statistics of its location; true if quoted back
  let echo_step = |li: usize, seq: usize, n: (usize, usize, usize), srv: &mut Option<Server>, acks: &mut u32, local: &mut BTreeMap<String, u64>| -> bool {
    let loc = &locs[li];
    let req = echo_req(li, loc, quick, n.0, n.1, n.2);
    let answer = step(loc.st, &req, seq, srv, local);
    let mut stat = LocStat { requests: 1, ..LocStat::default() };
    let mut quoted = false;
    if let Some((status, body)) = answer {
      stat.statuses.insert(status);
      stat.max_body_bytes = body.len();
      if (200..300).contains(&status) {
        // acknowledged writes only grow the queue, which no echo request depends on; rebuild the
        // server now and then so that the log every writer replays stays small
        *acks += 1;
        if *acks >= 40 && matches!(loc.path, "/add" | "/bulk" | "/delete") {
          *srv = None;
          *acks = 0;
        }
      } else {
        stat.non_2xx = 1;
        if let Some((t, _)) = envelope(&body) {
          stat.error_types.insert(t);
        }
        if loc.path == "/init" && loc.st == St::NoIndex {
          if let Some(sv) = srv.as_ref() {
            let still_missing = matches!(sv.send("GET", "/stats", None, None), Ok(r) if r.status == 404 && r.error_type().as_deref() == Some("index_missing"));
            if !still_missing {
              *srv = None;
            }
          }
        }
      }
      quoted = quoted_back(&req.echo.as_ref().unwrap().1, &body);
      stat.echoed = quoted as u64;
    }
    let mut g = loc_stats.lock();
    let t = &mut g[li];
    t.requests += stat.requests;
    t.non_2xx += stat.non_2xx;
    t.echoed += stat.echoed;
    t.max_body_bytes = t.max_body_bytes.max(stat.max_body_bytes);
    t.statuses.extend(stat.statuses);
    t.error_types.extend(stat.error_types);
    quoted
  };
  let merge = |local: BTreeMap<String, u64>| {
    let mut g = outcomes.lock();
    for (k, n) in local {
      *g.entry(format!("echo:{k}")).or_default() += n;
    }
  };
  // 1a: probe every location: does it quote the name back?
  let quotes: Vec<bool> = (0..locs.len())
    .into_par_iter()
    .map(|li| {
      let mut srv: Option<Server> = None;
      let mut local = BTreeMap::new();
      let mut acks = 0;
      let mut q = false;
      for (k, &n) in ECHO_PROBES.iter().enumerate() {
        q |= echo_step(li, hdr_total + li * ECHO_PROBES.len() + k, n, &mut srv, &mut acks, &mut local);
      }
      merge(local);
      q
    })
    .collect();
  // 1b: the sweep. Thorough: dense everywhere. Quick: dense where the probes were quoted back,
  // a handful of lengths elsewhere.
  let sweeps: Vec<Sweep> = quotes.iter().map(|&q| if q || !quick { Sweep::Dense } else { Sweep::Sparse }).collect();
  let loc_names: Vec<Vec<(usize, usize, usize)>> = locs.iter().zip(&sweeps).map(|(l, &sw)| echo_names(l, quick, sw)).collect();
  let mut echo_jobs: Vec<(usize, usize, usize, usize)> = Vec::new(); // (location, lo, hi, first sequence number)
  let mut echo_total = hdr_total + locs.len() * ECHO_PROBES.len();
  // locations that quote back first
  let mut order: Vec<usize> = (0..locs.len()).collect();
  order.sort_by_key(|&li| (!quotes[li], li));
  for &li in &order {
    let names = &loc_names[li];
    let mut i = 0;
    while i < names.len() {
      let hi = (i + 120).min(names.len());
      echo_jobs.push((li, i, hi, echo_total + i));
      i = hi;
    }
    echo_total += names.len();
  }
  echo_jobs.par_iter().for_each(|&(li, lo, hi, seq0)| {
    let mut srv: Option<Server> = None;
    let mut local: BTreeMap<String, u64> = BTreeMap::new();
    let mut acks = 0;
    for (k, &n) in loc_names[li][lo..hi].iter().enumerate() {
      if rep.elapsed_s() > deadline {
        timed_out.store(true, Ordering::Relaxed);
        break;
      }
      echo_step(li, seq0 + k, n, &mut srv, &mut acks, &mut local);
    }
    merge(local);
  });
  let echo_wall = rep.elapsed_s();
  let loc_stats = loc_stats.into_inner();
  let echoing_locations = loc_stats.iter().filter(|s| s.echoed > 0).count();
  if echoing_locations == 0 {
    vcore::ev::machinery_failure("C24 echo family vacuous: no location quoted the planted name back");
  }

  // ---- phase 2: routing and body spaces
  let mut jobs: Vec<(St, usize, usize)> = Vec::new();
  for &st in &states {
    let mut i = 0;
    while i < space.reqs.len() {
      jobs.push((st, i, (i + chunk).min(space.reqs.len())));
      i += chunk;
    }
  }
  jobs.par_iter().for_each(|&(st, lo, hi)| {
    let mut srv: Option<Server> = None;
    let mut local: BTreeMap<String, u64> = BTreeMap::new();
    for i in lo..hi {
      if rep.elapsed_s() > deadline {
        timed_out.store(true, Ordering::Relaxed);
        break;
      }
      step(st, &space.reqs[i], echo_total + i, &mut srv, &mut local);
    }
    let mut g = outcomes.lock();
    for (k, n) in local {
      *g.entry(k).or_default() += n;
    }
  });
  let mut fs = failures.into_inner();
  fs.sort_by_key(|f| (f.1, f.0));
  // the minimal witness of every failure class first (only the first few get a replay file)
  {
    let mut seen_sig: HashSet<Option<&'static str>> = HashSet::new();
    let (firsts, rest): (Vec<_>, Vec<_>) = fs.into_iter().partition(|f| seen_sig.insert(f.2));
    fs = firsts;
    fs.extend(rest);
  }
  let mut by_sig: BTreeMap<String, u64> = BTreeMap::new();
  for (_, _, sig, what, case) in &fs {
    *by_sig.entry(sig.unwrap_or("-").to_string()).or_default() += 1;
    rep.fail(*sig, what, case.clone());
  }
  rep.add_evals(evals.load(Ordering::Relaxed));
  let oc = outcomes.into_inner();
  if oc.len() < 2 {
    vcore::ev::machinery_failure(&format!("C24 vacuous: outcomes {oc:?}"));
  }
  let to = timed_out.load(Ordering::Relaxed);
  let cov = vcore::cov! {
    "distinct_nontrivial" => non2xx.load(Ordering::Relaxed),
    "rule" => "header-value / query-string family first (see header_family), then the echo family (see echo_family: every request location whose content the server may quote back x names of 1/2/3/4-byte characters in every byte phase x total lengths swept around the powers of two up to the body limit, same oracle; in the quick tier the dense length sweep is applied to the locations that quote 8 probe names back and a sparse one elsewhere); then space = states {no index, index (2 committed docs), index + 1 queued doc} x distinct well-framed HTTP/1.1 requests: (A) methods {GET,POST,PUT,DELETE} x paths {11 routes, every single-character deletion / substitution / insertion of every route keeping the leading '/', '/'} x content types {application/json, application/x-ndjson, none, text/plain} x bodies {no body, Content-Length 0, '{', the valid body of the base route}; (B) every route with its method x content types x {non-UTF-8 bytes, max_body+1 bytes, every single-edit neighbour (delete / replace / insert over the replacement alphabet) of the route's valid bodies (one per route in the quick tier, two in the thorough tier)}, plus /search requests known to make the core error or panic. Each request runs on a live server in exactly the stated state (the server is rebuilt after any request that may have changed it) and is followed by GET /healthz. A case is non-trivial when it is answered with a non-2xx status (a failure path ran).",
    "requests_per_state" => space.reqs.len(),
    "server_states" => states.iter().map(|s| s.name()).collect::<Vec<_>>(),
    "space_breakdown" => space.counts,
    "path_edit_alphabet" => if quick { "x" } else { "x / A" },
    "body_replacement_alphabet" => if quick { "\" } 0 0xff" } else { "\" { } [ ] : , 0 a <space> \\n \\ 0x00 0xff" },
    "echo_family" => json!({
      "requests": loc_stats.iter().map(|s| s.requests).sum::<u64>(),
      "wall_s": echo_wall,
      "locations": locs.len(),
      "locations_that_quoted_the_name_back": echoing_locations,
      "server_max_body_bytes": echo_max_body(quick),
      "dense_sweep_locations": sweeps.iter().filter(|s| **s == Sweep::Dense).count(),
      "probe_names": ECHO_PROBES.iter().map(|p| format!("{} ASCII + {}-byte chars = {} bytes", p.1, p.0, p.2)).collect::<Vec<_>>(),
      "characters": ECHO_CHARS,
      "name_rule": "name = p ASCII bytes + k-byte characters + ASCII filler, for k in 1..=4, p in 0..k, total byte length L in the length set (bounded per location by the body limit)",
      "dense_lengths": echo_lengths(quick, Sweep::Dense, echo_max_body(quick) - 64),
      "sparse_lengths": echo_lengths(quick, Sweep::Sparse, echo_max_body(quick) - 64),
      "per_location": locs.iter().zip(loc_stats.iter()).map(|(l, s)| json!({"location": l.name, "state": l.st.name(), "path": l.path, "template": l.template.trim_end(),
        "sweep": if sweeps[locs.iter().position(|x| x.name == l.name).unwrap()] == Sweep::Dense { "dense" } else { "sparse" }, "requests": s.requests, "non_2xx": s.non_2xx, "quoted_back": s.echoed, "largest_response_body": s.max_body_bytes, "statuses": s.statuses, "error_types": s.error_types})).collect::<Vec<_>>(),
    }),
    "header_family" => json!({
      "requests": hdr_total,
      "wall_s": hdr_wall,
      "states": hdr_states.iter().map(|s| s.name()).collect::<Vec<_>>(),
      "routes": ROUTES.len(),
      "headers": ODD_HEADERS,
      "texts": odd_texts().iter().map(|t| format!("{}{}", t.0, if t.2 { " (not valid HTTP: a bare 400 from the HTTP layer is accepted)" } else { "" })).collect::<Vec<_>>(),
      "query_strings_per_route": 8,
      "rule": "every route with its method, documented content type and valid body x (one of the headers carrying its usual value plus a parameter containing the text | a query string with percent-encoded or raw non-ASCII bytes); oracle: complete response, 2xx with the documented shape or 4xx with the envelope, never 5xx, /healthz afterwards",
      "outcomes": hdr_outcomes,
    }),
    "servers_started" => restarts.load(Ordering::Relaxed),
    "distinct_observed_outcomes" => oc.len(),
    "observed_outcomes" => oc,
    "failures_by_signature" => by_sig,
    "exhaustive" => !to,
    "cap_hit" => if to { Some(format!("wall budget {deadline}s")) } else { None },
  };
  rep.finish(
    cov,
    vec![
      "only well-framed HTTP/1.1 requests with a request target made of [a-z/x] are sent; protocol-level garbage (bad request line, Content-Length mismatch, truncated bodies) is answered by hyper below the application and the documentation is silent about it".into(),
      "for a body that is neither the documented valid one nor certainly invalid the oracle accepts 2xx (with the documented shape) or 4xx (with the envelope), never 5xx".into(),
      "an oversized body must give 413; 404 is also accepted while the index is missing, and the normal answer is accepted on routes that take no body".into(),
      "bytes following a complete JSON document in a JSON request body are not treated as certainly invalid (observed: the server ignores them and answers 2xx)".into(),
      "NDJSON blank lines are lines that are empty after trimming whitespace (the replacement alphabet contains no exotic Unicode whitespace)".into(),
      "request paths stay ASCII ([a-zA-Z/]); header values and query strings carry non-ASCII bytes only in the header-value / query-string family (9 headers; Content-Length and Transfer-Encoding are left alone because they change the framing); control bytes in header values and raw non-ASCII bytes in the request target are not valid HTTP, so hyper's own bare 400 is accepted for them".into(),
      "echo family: names use the characters a, é, 日, 😀 only (nothing that needs JSON escaping)".into(),
      "search requests with huge limit / candidate_size values are left out (allocation failure would abort the harness process)".into(),
    ],
  )
}
