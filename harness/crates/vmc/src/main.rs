//! vmc <PROPERTY> <quick|thorough> [--replay FILE]
mod c03;
mod c04;
mod c11;
mod c07;
mod c08;
mod c09;
mod c10;
mod c12;
mod c13;
mod c14;
mod c15;
mod c16;
mod c17;
mod c18;
mod c19;
mod c20;
mod c21;
mod c22;
mod c23;
mod c24;
mod c25;
mod c26;
mod c29;
mod c30;
mod schedmc;

use vcore::ev::Tier;

pub struct Ctx {
  pub tier: Tier,
  pub replay: Option<String>,
}

fn main() {
  let args: Vec<String> = std::env::args().collect();
  if args.len() < 3 {
    eprintln!("usage: vmc <PROPERTY> <quick|thorough> [--replay FILE]");
    std::process::exit(2);
  }
  let prop = args[1].as_str();
  if prop == "SCHED-WORKER" {
    vcore::quiet_panics();
    std::process::exit(schedmc::worker(&args[3]));
  }
  let tier = Tier::parse(&args[2]);
  let mut replay = None;
  let mut i = 3;
  while i < args.len() {
    if args[i] == "--replay" && i + 1 < args.len() {
      replay = Some(args[i + 1].clone());
      i += 1;
    }
    i += 1;
  }
  vcore::init_pool();
  vcore::quiet_panics();
  let ctx = Ctx { tier, replay };
  let code = match prop {
    "C03" => c03::run(&ctx),
    "C04" => c04::run(&ctx),
    "C05" | "C06" => schedmc::run(&ctx, prop),
    "C11" => c11::run(&ctx),
    "C07" => c07::run(&ctx),
    "C08" => c08::run(&ctx),
    "C09" => c09::run(&ctx),
    "C10" => c10::run(&ctx),
    "C12" => c12::run(&ctx),
    "C13" => c13::run(&ctx),
    "C14" => c14::run(&ctx),
    "C15" => c15::run(&ctx),
    "C16" => c16::run(&ctx),
    "C17" => c17::run(&ctx),
    "C18" => c18::run(&ctx),
    "C19" => c19::run(&ctx),
    "C20" => c20::run(&ctx),
    "C21" => c21::run(&ctx),
    "C22" => c22::run(&ctx),
    "C23" => c23::run(&ctx),
    "C24" => c24::run(&ctx),
    "C25" => c25::run(&ctx),
    "C26" => c26::run(&ctx),
    "C29" => c29::run(&ctx),
    "C30" => c30::run(&ctx),
    _ => {
      eprintln!("unknown property {prop}");
      2
    }
  };
  vcore::world::cleanup_scratch_root();
  std::process::exit(code);
}
