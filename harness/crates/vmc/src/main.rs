//! vmc <PROPERTY> <quick|thorough> [--replay FILE]
mod c03;
mod c04;
mod schedmc;

use vcore::ev::Tier;

pub struct Ctx {
  pub tier: Tier,
  pub replay: Option<String>,
}

fn main() {
  let args: Vec<String> = std::env::args().collect();
  if args.len() < 3 {
    eprintln!("usage: vmc <PROPERTY> <quick|thorough> [--replay FILE]");
    std::process::exit(2);
  }
  let prop = args[1].as_str();
  if prop == "SCHED-WORKER" {
    vcore::quiet_panics();
    std::process::exit(schedmc::worker(&args[3]));
  }
  let tier = Tier::parse(&args[2]);
  let mut replay = None;
  let mut i = 3;
  while i < args.len() {
    if args[i] == "--replay" && i + 1 < args.len() {
      replay = Some(args[i + 1].clone());
      i += 1;
    }
    i += 1;
  }
  vcore::init_pool();
  vcore::quiet_panics();
  let ctx = Ctx { tier, replay };
  let code = match prop {
    "C03" => c03::run(&ctx),
    "C04" => c04::run(&ctx),
    "C05" | "C06" => schedmc::run(&ctx, prop),
    _ => {
      eprintln!("unknown property {prop}");
      2
    }
  };
  vcore::world::cleanup_scratch_root();
  std::process::exit(code);
}
